"""C14 — Integers are exact at every magnitude.
Proofs: lean/Props/C14.lean over lean/XrayModel/{LazyInt,IntBuiltins}.lean.
Tie: correspondence of the model with the implementation at two levels (LazyBigint directly through the hook
wrappers; the integer builtins through the language), with Python's unbounded int as the independent oracle."""
import math
from .common import *

I64_MIN, I64_MAX = -2**63, 2**63 - 1


def fits(v):
    return I64_MIN <= v <= I64_MAX


def tag(v):
    return ("S " if fits(v) else "L ") + str(v)


def boundary_pool(rng, extra_random=24):
    base = [0, 1, -1, 2, -2, 3, 7, -7, 10, 255, -256, 1000003]
    for k in (31, 32, 53, 62, 63, 64, 65, 127, 128):
        for d in (-2, -1, 0, 1, 2):
            base += [2**k + d, -(2**k) + d]
    for _ in range(extra_random):
        bits = rng.choice([1, 5, 20, 40, 62, 63, 64, 65, 90, 127, 128, 200, 400])
        v = rng.getrandbits(bits)
        base.append(v if rng.random() < 0.5 else -v)
    return sorted(set(base))


def tdiv(a, b):
    q = abs(a) // abs(b)
    return q if (a >= 0) == (b >= 0) else -q


def trem(a, b):
    return a - b * tdiv(a, b)


def bitlen_bits(a):
    return 64 if fits(a) else abs(a).bit_length()


# ---- oracles for the direct LazyBigint operations; "PANIC" where the precondition of the Rust op is violated
UNIT_OPS = {
    "id": (1, lambda a: tag(a)),
    "add": (2, lambda a, b: tag(a + b)),
    "add_ref": (2, lambda a, b: tag(a + b)),
    "add_assign": (2, lambda a, b: tag(a + b)),
    "sub": (2, lambda a, b: tag(a - b)),
    "mul": (2, lambda a, b: tag(a * b)),
    "mul_assign": (2, lambda a, b: tag(a * b)),
    "neg": (1, lambda a: tag(-a)),
    "rem": (2, lambda a, b: "PANIC" if b == 0 else tag(trem(a, b))),
    "rem_ref": (2, lambda a, b: "PANIC" if b == 0 else tag(trem(a, b))),
    "div": (2, lambda a, b: "PANIC" if b == 0 else tag(tdiv(a, b))),
    "div_floor": (2, lambda a, b: "PANIC" if b == 0 else tag(a // b)),
    "div_ceil": (2, lambda a, b: "PANIC" if b == 0 else tag(-((-a) // b))),
    "bitand": (2, lambda a, b: tag(a & b)),
    "bitor": (2, lambda a, b: tag(a | b)),
    "bitxor": (2, lambda a, b: tag(a ^ b)),
    "abs": (1, lambda a: tag(abs(a))),
    "signum": (1, lambda a: tag((a > 0) - (a < 0))),
    "is_zero": (1, lambda a: str(a == 0).lower()),
    "is_one": (1, lambda a: str(a == 1).lower()),
    "is_positive": (1, lambda a: str(a > 0).lower()),
    "is_negative": (1, lambda a: str(a < 0).lower()),
    "eq": (2, lambda a, b: str(a == b).lower()),
    "cmp": (2, lambda a, b: "Less" if a < b else ("Greater" if a > b else "Equal")),
    "to_u64": (1, lambda a: f"Some({a})" if 0 <= a < 2**64 else "None"),
    "to_i64": (1, lambda a: f"Some({a})" if fits(a) else "None"),
    "first_u64_digit": (1, lambda a: tag(a % 2**64 if fits(a) else abs(a) % 2**64)),
    "bits": (1, lambda a: str(bitlen_bits(a))),
}


# ---------------------------------------------------------------- text conversion: oracles and generators
DIGITS36 = "0123456789abcdefghijklmnopqrstuvwxyz"


def to_radix(n, r):
    """independent positional conversion (magnitude only)"""
    n = abs(n)
    if n == 0:
        return "0"
    out = []
    while n:
        out.append(DIGITS36[n % r]); n //= r
    return "".join(reversed(out))


def parse_radix(s, r):
    """the documented grammar of to_int: optional sign, then one or more digits valid in the radix
    (letters in either case); anything else is an error. Returns int or None."""
    body = s[1:] if s[:1] in "+-" else s
    if not body:
        return None
    v = 0
    for ch in body:
        d = DIGITS36.find(ch.lower()) if ch.isascii() and ch.isalnum() else -1
        if d < 0 or d >= r:
            return None
        v = v * r + d
    return -v if s[0] == "-" else v


def enc_str(s):
    return "s:" + ".".join(str(ord(c)) for c in s)


def dec_str(m):
    """model answer str:<code points> -> python str (None if not a string answer)"""
    if not m.startswith("str:"):
        return None
    b = m[4:]
    return "".join(chr(int(t)) for t in b.split(".")) if b else ""


def dump_str(s):
    out = []
    for c in s:
        if c == '"':
            out.append('\\"')
        elif c == "\\":
            out.append("\\\\")
        elif ord(c) < 0x20 or ord(c) > 0x7e:
            out.append("\\u{%x}" % ord(c))
        else:
            out.append(c)
    return '(str "' + "".join(out) + '")'


def gen_numeral(rng, pool, radix):
    """a text for to_int / from_str_radix: mostly canonical numerals of pool values, then mutated"""
    v = rng.choice(pool)
    s = ("-" if v < 0 else "") + to_radix(v, radix)
    k = rng.random()
    if k < 0.45:
        pass
    elif k < 0.55:
        s = s.upper()
    elif k < 0.62:
        s = ("+" + s) if v >= 0 else s
    elif k < 0.70:   # leading zeros
        z = "0" * rng.choice([1, 5, 40, 130])
        s = (s[0] + z + s[1:]) if s[0] == "-" else z + s
    elif k < 0.92:   # one mutation: insert / replace a character
        ch = rng.choice(["_", " ", "-", "+", "z", "Z", "9", "g", "/", ":", "@", "`", "{", "é", "٣", ".", "e"])
        i = rng.randrange(len(s) + 1)
        s = s[:i] + ch + (s[i:] if rng.random() < 0.7 else s[i + 1:])
    else:
        s = rng.choice(["", "+", "-", "-+5", "+-5", "++5", "--5", "_", "_5", "5_", "0", "-0", "+0", "00", "0x10", " 5"])
    return s


ALIGN = {"<": "left", ">": "right", "^": "center", "=": "rws"}


def gen_spec(rng):
    """structured format spec (fields as in the documented grammar) and its text"""
    sp = {"fill": None, "align": None, "sign": None, "alt": False, "zero": False, "width": None,
          "grouping": None, "precision": False, "ty": None}
    if rng.random() < 0.5:
        sp["align"] = rng.choice("<>^=")
        if rng.random() < 0.6:
            sp["fill"] = rng.choice("!*0 x<>=^+-#_,.aZ")
    if rng.random() < 0.4:
        sp["sign"] = rng.choice("+- ")
    sp["alt"] = rng.random() < 0.3
    sp["zero"] = rng.random() < 0.3
    if rng.random() < 0.65:
        sp["width"] = rng.choice([1, 2, 3, 5, 8, 12, 20, 33, 70, 140])
    if rng.random() < 0.4:
        sp["grouping"] = rng.choice(",_")
    sp["precision"] = rng.random() < 0.04
    if rng.random() < 0.7:
        sp["ty"] = rng.choice("xXoObBxob" + "dqe")
    text = ((sp["fill"] or "") + sp["align"] if sp["align"] else "") + (sp["sign"] or "") + ("#" if sp["alt"] else "") + \
        ("0" if sp["zero"] else "") + (str(sp["width"]) if sp["width"] else "") + (sp["grouping"] or "") + \
        (".3" if sp["precision"] else "") + (sp["ty"] or "")
    return sp, text


def spec_model_args(sp):
    o = lambda c: "-" if c is None else str(ord(c))
    return " ".join([o(sp["fill"]), sp["align"] or "-", {None: "n", "+": "+", "-": "-", " ": "s"}[sp["sign"]],
                     "1" if sp["alt"] else "0", "1" if sp["zero"] else "0", str(sp["width"]) if sp["width"] else "-",
                     o(sp["grouping"]), "1" if sp["precision"] else "0", o(sp["ty"])])


def format_oracle(a, sp):
    """the book's formatting rules (lang/std_conventions.md#formatting, std/int.md format), written independently"""
    if sp["precision"]:
        return ERR
    ty = sp["ty"]
    if ty is None:
        radix = 10
    elif ty in "xX":
        radix = 16
    elif ty in "oO":
        radix = 8
    elif ty in "bB":
        radix = 2
    else:
        return ERR
    body = to_radix(a, radix)
    if sp["grouping"]:
        parts = []
        while len(body) > 3:
            parts.append(body[-3:]); body = body[:-3]
        parts.append(body)
        body = sp["grouping"].join(reversed(parts))
    sign = "-" if a < 0 else {"+": "+", " ": " "}.get(sp["sign"], "")
    if sp["alt"]:
        if ty is None:
            return ERR
        sign += "0" + ty
    out = sign + body
    w = sp["width"]
    if w is not None and w > len(out):
        pad = w - len(out)
        fc = sp["fill"] if sp["fill"] is not None else ("0" if sp["zero"] else " ")
        al = sp["align"] or ("=" if sp["zero"] else ">")
        if al == "<":
            out = out + fc * pad
        elif al == ">":
            out = fc * pad + out
        elif al == "=":
            out = sign + fc * pad + body
        else:
            out = fc * (pad // 2) + out + fc * (pad - pad // 2)
    return dump_str(out)


# ---------------------------------------------------------------- the xray-written library functions (include.rs)
INCLUDE_FNS = {
    "abs": "fn abs(i: int)", "sign": "fn sign(a: int)", "gcd": "fn gcd(a: int, b: int)", "lcm": "fn lcm(a: int, b: int)",
    "factorial": "fn factorial(n: int", "floor_root": "fn floor_root(a: int", "ceil_root": "fn ceil_root(a: int",
    "bisect": "fn bisect<T>(",
}
SNAPSHOT = os.path.join(os.path.dirname(os.path.abspath(__file__)), "c14_include_snapshot.json")


def extract_include_fns():
    """current source text (whitespace/comment-normalised) of the library functions the hand model mirrors"""
    src = open(os.path.join(REPO, "src", "builtin", "include.rs")).read()
    out = {}
    for name, head in INCLUDE_FNS.items():
        i = src.find(head)
        if i < 0 or src.find(head, i + 1) >= 0:
            out[name] = None     # missing or ambiguous
            continue
        j = src.index("{", i)
        depth, k = 0, j
        while True:
            if src[k] == "{":
                depth += 1
            elif src[k] == "}":
                depth -= 1
                if depth == 0:
                    break
            k += 1
        text = re.sub(r"//[^\n]*", "", src[i:k + 1])
        out[name] = re.sub(r"\s+", " ", text).strip()
    return out


def iroot(a, b):
    """floor of the b-th root of a >= 0 (b >= 1), by integer Newton/bisection — independent oracle"""
    lo, hi = 0, 1
    while hi ** b <= a:
        hi *= 2
    while hi - lo > 1:
        m = (lo + hi) // 2
        if m ** b <= a:
            lo = m
        else:
            hi = m
    return lo


def fhex(x):
    import struct
    return "(float " + struct.pack(">d", x).hex() + ")"


def to_float_oracle(a):
    """int -> float must be the nearest double (ties to even), exact when representable; beyond the range: an error value"""
    try:
        return fhex(float(a))
    except OverflowError:
        return ERR


def pow_exp(rng, a, lang=False):
    """exponents that keep a**b computable: huge exponents only for bases 0, 1, -1"""
    if abs(a) <= 1:
        return rng.choice([0, 1, 2, 63, 64, 1000, 2**32 - 1, 2**32, 2**40, 2**64, -1] + ([-2**64] if lang else []))
    if lang and rng.random() < 0.1:
        return rng.choice([2**64, 2**64 + 5, 2**127, 2**200])     # beyond the machine word: "exponent too large"
    if abs(a) > 2**70:
        return rng.choice([0, 1, 2, 3, 7, -1, -5])
    return rng.choice([0, 1, 2, 3, 5, 31, 62, 63, 64, 65, 127, 130, -1, -5])


def pow_oracle(a, b):
    if b < 0:
        return "PANIC"
    return tag(a ** b)


# ---- language-level builtins: (xray expression template, model op, oracle)
def o_int(v):
    return f"(int {tag(v)})"


def o_bool(b):
    return "(bool true)" if b else "(bool false)"


ERR = "ERR"  # any error value


def lang_ops():
    def mod(a, b): return ERR if b == 0 else o_int(a % b)
    def dfl(a, b): return ERR if b == 0 else o_int(a // b)
    def dce(a, b): return ERR if b == 0 else o_int(-((-a) // b))
    return {
        "b.add": ("{a} + {b}", 2, lambda a, b: o_int(a + b)),
        "b.sub": ("{a} - {b}", 2, lambda a, b: o_int(a - b)),
        "b.mul": ("{a} * {b}", 2, lambda a, b: o_int(a * b)),
        "b.neg": ("-{a}", 1, lambda a: o_int(-a)),
        "b.mod": ("{a} % {b}", 2, mod),
        "b.bit_and": ("bit_and({a}, {b})", 2, lambda a, b: o_int(a & b)),
        "b.bit_or": ("bit_or({a}, {b})", 2, lambda a, b: o_int(a | b)),
        "b.bit_xor": ("bit_xor({a}, {b})", 2, lambda a, b: o_int(a ^ b)),
        "b.div_floor": ("div_floor({a}, {b})", 2, dfl),
        "b.div_ceil": ("div_ceil({a}, {b})", 2, dce),
        "b.lt": ("{a} < {b}", 2, lambda a, b: o_bool(a < b)),
        "b.gt": ("{a} > {b}", 2, lambda a, b: o_bool(a > b)),
        "b.le": ("{a} <= {b}", 2, lambda a, b: o_bool(a <= b)),
        "b.ge": ("{a} >= {b}", 2, lambda a, b: o_bool(a >= b)),
        "b.eq": ("{a} == {b}", 2, lambda a, b: o_bool(a == b)),
        "b.ne": ("{a} != {b}", 2, lambda a, b: o_bool(a != b)),
        "b.cmp": ("cmp({a}, {b})", 2, lambda a, b: o_int((a > b) - (a < b))),
    }


def model_to_dump(s):
    """model response -> the harness' canonical dump form"""
    if s.startswith("S ") or s.startswith("L "):
        return f"(int {s})"
    if s in ("true", "false"):
        return f"(bool {s})"
    if s.startswith("err "):
        return ERR
    if s.startswith("str:"):
        return dump_str(dec_str(s))
    if s.startswith("["):
        inner = s[1:-1]
        if not inner:
            return "(seq)"
        return "(seq " + " ".join(f"(int {x})" for x in inner.split(",")) + ")"
    if s.startswith("panic"):
        return "PANIC"
    return "?" + s


def canon_impl(d):
    if d.startswith("(error "):
        return ERR
    if d.startswith("panic "):
        return "PANIC"
    return d


# ---------------------------------------------------------------- exhaustive boundary square
def square_pool():
    """the fixed boundary pool B (no randomness): every ordered pair of it goes through every binary operation"""
    pos = [1, 2, 3, 2**31 - 1, 2**31, 2**31 + 1, 2**32 - 1, 2**32, 2**32 + 1, 2**53 - 1, 2**53, 2**53 + 1, 2**62,
           2**63 - 2, 2**63 - 1, 2**63, 2**63 + 1, 2**63 + 2, 2**64 - 1, 2**64, 2**64 + 1, 2**65, 2**127 - 1, 2**127, 2**128,
           10**18, 10**19]
    return sorted(set([0] + pos + [-v for v in pos]))     # contains -2^63 and -2^63 ± 1


SQUARE_UNIT_BIN = ["add", "add_ref", "add_assign", "sub", "mul", "mul_assign", "rem", "rem_ref", "div", "div_floor", "div_ceil",
                   "bitand", "bitor", "bitxor", "eq", "cmp"]
SQUARE_POW_EXP = [0, 1, 2, 3, 5, 63, 64, 65]
# language level: (name, template, model op or None, oracle)
SQUARE_LANG_INT = [   # never an error value: one sequence literal per pair
    ("b.add", "{a} + {b}", "b.add", lambda a, b: a + b), ("b.sub", "{a} - {b}", "b.sub", lambda a, b: a - b),
    ("b.mul", "{a} * {b}", "b.mul", lambda a, b: a * b), ("b.bit_and", "bit_and({a}, {b})", "b.bit_and", lambda a, b: a & b),
    ("b.bit_or", "bit_or({a}, {b})", "b.bit_or", lambda a, b: a | b), ("b.bit_xor", "bit_xor({a}, {b})", "b.bit_xor", lambda a, b: a ^ b),
    ("b.cmp", "cmp({a}, {b})", "b.cmp", lambda a, b: (a > b) - (a < b)), ("lib.gcd", "gcd({a}, {b})", "lib.gcd", lambda a, b: math.gcd(a, b)),
    ("lib.lcm", "lcm({a}, {b})", "lib.lcm", lambda a, b: abs(a * b) // math.gcd(a, b) if a and b else 0),
    ("max", "max({a}, {b})", None, lambda a, b: max(a, b)), ("min", "min({a}, {b})", None, lambda a, b: min(a, b)),
]
SQUARE_LANG_BOOL = [
    ("b.lt", "{a} < {b}", "b.lt", lambda a, b: a < b), ("b.gt", "{a} > {b}", "b.gt", lambda a, b: a > b),
    ("b.le", "{a} <= {b}", "b.le", lambda a, b: a <= b), ("b.ge", "{a} >= {b}", "b.ge", lambda a, b: a >= b),
    ("b.eq", "{a} == {b}", "b.eq", lambda a, b: a == b), ("b.ne", "{a} != {b}", "b.ne", lambda a, b: a != b),
]
SQUARE_LANG_DIV = [   # error value iff b == 0
    ("b.div_floor", "div_floor({a}, {b})", "b.div_floor", lambda a, b: a // b),
    ("b.div_ceil", "div_ceil({a}, {b})", "b.div_ceil", lambda a, b: -((-a) // b)),
    ("b.mod", "{a} % {b}", "b.mod", lambda a, b: a % b),
]
_ELEM = re.compile(r"\((?:int [SL] -?\d+|bool (?:true|false)|float [0-9a-f]{16})\)")


def run_model_par(lines, jobs=8):
    """run_model over several xmodel processes (the square sends > 100k lines)"""
    if len(lines) < 4000:
        return run_model(lines)
    size = (len(lines) + jobs - 1) // jobs
    chunks = [lines[i:i + size] for i in range(0, len(lines), size)]
    with ThreadPoolExecutor(max_workers=jobs) as ex:
        res = list(ex.map(run_model, chunks))
    return [r for c in res for r in c]


def boundary_square(chk):
    """EXHAUSTIVE: every ordered pair of the boundary pool B through every binary integer operation, at both levels,
    three-way (implementation = Python exact integers = model).  Same in the quick and the thorough tier."""
    B = square_pool()
    pairs = [(a, b) for a in B for b in B]
    # ---------------- LazyBigint directly
    cases = []
    for f in SQUARE_UNIT_BIN:
        orc = UNIT_OPS[f][1]
        for a, b in pairs:
            cases.append((f, {"op": "int", "f": f, "a": str(a), "b": str(b)}, f"int {f} {a} {b}", orc(a, b), (a, b)))
    for f, (ar, orc) in UNIT_OPS.items():
        if ar == 1:
            for a in B:
                cases.append((f, {"op": "int", "f": f, "a": str(a)}, f"int {f} {a}", orc(a), (a,)))
    for a in B:
        for e in SQUARE_POW_EXP:
            cases.append(("pow", {"op": "int", "f": "pow", "a": str(a), "b": str(e)}, f"int pow {a} {e}", tag(a ** e), (a, e)))
    impl = run_harness([c[1] for c in cases])
    model = run_model_par([c[2] for c in cases])
    for (f, req, line, want, inp), ri, rm in zip(cases, impl, model):
        chk.evaluations += 1
        chk.count("square:unit:" + f)
        got = "PANIC" if "panic" in ri else ri.get("r", json.dumps(ri))
        gm = "PANIC" if rm.startswith("panic") else rm
        if any(abs(x) > I64_MAX for x in inp):
            chk.nontrivial.add(("sq", f) + tuple(inp))
        if want == "PANIC":
            if got != gm:
                chk.violation(f"tie:square:unit:{f}:precondition", f"model/impl disagree outside the precondition of {f}{inp}: impl={got} model={gm}",
                              {"harness": req, "model": line, "impl": got, "model_out": gm}, no_input=True)
        elif got != want:
            chk.violation(f"square:unit:{f}:{'panic' if got == 'PANIC' else 'wrong'}",
                          f"LazyBigint {f}{inp} = {got if got != 'PANIC' else ri.get('panic')}, exact result is {want} (boundary square)",
                          {"harness": req, "expected": want, "got": ri})
        elif gm != got:
            chk.violation(f"tie:square:unit:{f}", f"model disagrees with implementation (which is right) on {f}{inp}: model={gm} impl={got}",
                          {"harness": req, "model": line, "impl": got, "model_out": gm}, no_input=True)
    # ---------------- through the language: grouped expressions (one sequence literal per pair and family)
    groups = []    # (expr, [(name, single_expr, model_line, want_dump, inputs)])
    def grp(ops, a, b, conv):
        items = [(nm, t.format(a=lit(a), b=lit(b)), (f"int {mo} {a} {b}" if mo else None), conv(o(a, b)), (a, b)) for nm, t, mo, o in ops]
        groups.append(("[" + ", ".join(i[1] for i in items) + "]", items))
    for a, b in pairs:
        grp(SQUARE_LANG_INT, a, b, o_int)
        grp(SQUARE_LANG_BOOL, a, b, o_bool)
        if b != 0:
            grp(SQUARE_LANG_DIV, a, b, o_int)
            f = a / b
            groups.append((f"{lit(a)} / {lit(b)}", [("true_div", f"{lit(a)} / {lit(b)}", None, fhex(f) if f != 0 else "ZERO", (a, b))]))
        else:
            for nm, t, mo, o in SQUARE_LANG_DIV + [("true_div", "{a} / {b}", None, None)]:
                e = t.format(a=lit(a), b=lit(b))
                groups.append((e, [(nm, e, (f"int {mo} {a} {b}" if mo else None), ERR, (a, b))]))
    for a in B:
        es = [e for e in SQUARE_POW_EXP if not (a == 0 and e == 0)]
        items = [("b.pow", f"{lit(a)} ** {e}", f"int b.pow {a} {e}", o_int(a ** e), (a, e)) for e in es]
        groups.append(("[" + ", ".join(i[1] for i in items) + "]", items))
        items = [("b.neg", f"-{lit(a)}", f"int b.neg {a}", o_int(-a), (a,)), ("lib.abs", f"abs({lit(a)})", f"int lib.abs {a}", o_int(abs(a)), (a,)),
                 ("lib.sign", f"sign({lit(a)})", f"int lib.sign {a}", o_int((a > 0) - (a < 0)), (a,)),
                 ("b.hash", f"hash({lit(a)})", f"int b.hash {a}", o_int(a if 0 <= a < 2**64 else (a % 2**64 if fits(a) else abs(a) % 2**64)), (a,))]
        groups.append(("[" + ", ".join(i[1] for i in items) + "]", items))
        groups.append((f"to_str({lit(a)})", [("b.to_str", f"to_str({lit(a)})", f"int b.to_str {a}", dump_str(str(a)), (a,))]))
        groups.append((f"to_float({lit(a)})", [("to_float", f"to_float({lit(a)})", None, to_float_oracle(a), (a,))]))
    groups.append(("0 ** 0", [("b.pow", "0 ** 0", "int b.pow 0 0", ERR, (0, 0))]))
    dumps = eval_exprs([g[0] for g in groups], chunk=40)
    flat, redo = [], []     # flat: (item, impl_dump)
    for (expr, items), d in zip(groups, dumps):
        if len(items) == 1:
            flat.append((items[0], d))
            continue
        parts = _ELEM.findall(d) if d.startswith("(seq") else []
        if len(parts) == len(items):
            flat.extend(zip(items, parts))
        else:               # one element failed: evaluate the elements one by one to localise it
            redo.extend(items)
    if redo:
        flat.extend(zip(redo, eval_exprs([i[1] for i in redo], chunk=20)))
    mlines = [(k, it[2]) for k, (it, _) in enumerate(flat) if it[2]]
    mres = dict(zip([k for k, _ in mlines], run_model_par([l for _, l in mlines])))
    lang_ops_seen = set()
    for k, ((name, expr, mline, want, inp), d) in enumerate(flat):
        chk.evaluations += 1
        chk.count("square:lang:" + name)
        lang_ops_seen.add(name)
        if any(abs(x) > I64_MAX for x in inp):
            chk.nontrivial.add(("sq", name) + tuple(inp))
        got = canon_impl(d)
        if want == "ZERO":
            want = got if got in ("(float 0000000000000000)", "(float 8000000000000000)") else "(float 0000000000000000)"
        replay = {"src": f"let r = {expr};", "get": ["r"], "expected": want, "got": d}
        if got != want:
            kind = "panic" if got == "PANIC" else ("hang" if d == "hang" else "wrong")
            chk.violation(f"square:lang:{name}:{kind}", f"{expr} evaluates to {d}; the exact result is {want} (boundary square)", replay)
        elif k in mres and model_to_dump(mres[k]) != got:
            chk.violation(f"tie:square:lang:{name}", f"model disagrees with the implementation (which matches the oracle) on {expr}: model={mres[k]} impl={d}",
                          {"src": replay["src"], "model": mline, "model_out": mres[k], "impl": d}, no_input=True)
    n_ops = len(SQUARE_UNIT_BIN) + len(SQUARE_LANG_INT) + len(SQUARE_LANG_BOOL) + len(SQUARE_LANG_DIV) + 1
    return {"boundary_square": {"pool": len(B), "ops": n_ops, "pairs": len(pairs), "exhaustive": True,
                                "unit_binary_ops": SQUARE_UNIT_BIN,
                                "language_binary_ops": [o[0] for o in SQUARE_LANG_INT + SQUARE_LANG_BOOL + SQUARE_LANG_DIV] + ["true_div"],
                                "unary_over_pool": sorted(k for k, v in UNIT_OPS.items() if v[0] == 1) + ["b.neg", "lib.abs", "lib.sign", "b.hash", "b.to_str", "to_float"],
                                "pow_exponents": SQUARE_POW_EXP, "evaluations": len(cases) + len(flat),
                                "note": "every ordered pair of the pool through every listed operation, in both tiers, three-way "
                                        "(implementation = Python exact integers = model; max/min/true_div/to_float: implementation = Python)"}}


# ---------------------------------------------------------------- exhaustive pow cross product
POW_BASES = [0, 1, -1, 2, -2, 3, 10, 2**63, -2**63, 2**64]
POW_SMALL_EXP = [0, 1, 2, 3, 63, 64, 65]
POW_NEG_EXP = [-1, -2, -3, -63, -64, -65]
POW_MID_EXP = [2**31 - 1, 2**31 + 1, 2**32 - 1, 2**32 + 1, 2**62, 2**63 - 1, 2**63, 2**63 + 1, 2**64 - 1]     # fit a machine word
POW_HUGE_EXP = [2**64, 2**64 + 1, 2**64 + 2, 2**65, 2**127, 2**127 + 1, 2**128, 2**128 + 1]                    # do not
POW_SIZE_LIMIT = 10_000_000
VIOL_ALLOC = "viol AllocationLimitReached"


def unit_power(a, e):
    """closed form for the bases 0, 1, -1 (any exponent >= 0)"""
    return (1 if e == 0 else 0) if a == 0 else (1 if a == 1 or e % 2 == 0 else -1)


def pow_cross(chk):
    """EXHAUSTIVE (both tiers): bases x exponents through `**`, `pow(a, b)` and LazyBigint::pow (canonical and forced-Long
    operands).  Documented outcomes: negative exponent and 0**0 are error values; bases 0, 1, -1 have the closed form for every
    exponent; other bases: exact up to exponent 65, "exponent too large" beyond the machine word, and for a huge exponent that
    still fits a machine word the allocation pre-flight must stop the run under a size limit."""
    exps = POW_SMALL_EXP + POW_MID_EXP + POW_HUGE_EXP + POW_NEG_EXP
    # ---------------- LazyBigint::pow directly
    cases = []
    for a in POW_BASES:
        for e in exps:
            if abs(a) > 1 and e > 65:
                continue                      # would really be computed (no guard at this level)
            want = "PANIC" if e < 0 else tag(unit_power(a, e) if abs(a) <= 1 else a ** e)
            cases.append(("pow", {"op": "int", "f": "pow", "a": str(a), "b": str(e)}, f"int pow {a} {e}", want, (a, e)))
            if e >= 0:
                for la, lb in ((True, False), (False, True), (True, True)):     # representations `From` never produces
                    cases.append(("pow_nc", {"op": "int", "f": "pow_nc", "a": str(a), "b": str(e), "la": la, "lb": lb},
                                  f"int pow_nc {int(la)} {int(lb)} {a} {e}", "VAL " + str(unit_power(a, e) if abs(a) <= 1 else a ** e), (a, e)))
    impl = run_harness([c[1] for c in cases])
    model = run_model([c[2] for c in cases])
    for (f, req, line, want, inp), ri, rm in zip(cases, impl, model):
        chk.evaluations += 1
        chk.count("powx:unit:" + f)
        got = "PANIC" if "panic" in ri else ri.get("r", json.dumps(ri))
        gm = "PANIC" if rm.startswith("panic") else rm
        if any(abs(x) > I64_MAX for x in inp):
            chk.nontrivial.add(("powx", f) + tuple(inp))
        if want == "PANIC":
            if got != gm:
                chk.violation(f"tie:powx:unit:{f}:precondition", f"model/impl disagree outside the precondition of {f}{inp}: impl={got} model={gm}",
                              {"harness": req, "model": line, "impl": got, "model_out": gm}, no_input=True)
            continue
        ok = (got == want) if not want.startswith("VAL ") else (got[:2] in ("S ", "L ") and got[2:] == want[4:])
        if not ok:
            chk.violation(f"powx:unit:{f}:{'panic' if got == 'PANIC' else 'wrong'}",
                          f"LazyBigint {f}{inp} = {got if got != 'PANIC' else ri.get('panic')}, exact result is {want} (pow cross product)",
                          {"harness": req, "expected": want, "got": ri})
        elif gm != got:
            chk.violation(f"tie:powx:unit:{f}", f"model disagrees with implementation (which is right) on {f}{inp}: model={gm} impl={got}",
                          {"harness": req, "model": line, "impl": got, "model_out": gm}, no_input=True)
    # ---------------- through the language
    plain, limited = [], []      # (name, expr, model_line, want, inputs)
    for a in POW_BASES:
        for e in exps:
            for sp, tmpl in (("b.pow", "{a} ** {b}"), ("b.pow.fn", "pow({a}, {b})")):
                expr = tmpl.format(a=lit(a), b=lit(e))
                mline = f"int b.pow {a} {e}"
                if e < 0 or (a == 0 and e == 0):
                    plain.append((sp, expr, mline, ERR, (a, e)))
                elif abs(a) <= 1:
                    plain.append((sp, expr, mline, o_int(unit_power(a, e)), (a, e)))
                elif e <= 65:
                    plain.append((sp, expr, mline, o_int(a ** e), (a, e)))
                elif e >= 2**64:
                    plain.append((sp, expr, mline, ERR, (a, e)))
                else:
                    limited.append((sp + ".limit", expr, None, VIOL_ALLOC, (a, e)))
    # equal integers by different routes: (b**e1)**e2, b**(e1*e2) and the closed form, compared by ==, cmp, hash, to_str
    for a in (0, 1, -1):
        for e1, e2 in ((2**32, 2**32), (2**32 + 1, 2**32 + 1), (2**63, 2), (3, 2**64), (2**64 + 1, 2**64 + 1), (2**64 + 1, 2**64), (5, 7)):
            x, y, z = f"({lit(a)} ** {e1}) ** {e2}", f"{lit(a)} ** {e1 * e2}", lit(unit_power(a, e1 * e2))
            for nm, expr in (("eq", f"{x} == {y}"), ("eq", f"{y} == {z}"), ("cmp", f"cmp({x}, {z}) == 0"), ("cmp", f"cmp({y}, {x}) == 0"),
                             ("hash", f"hash({y}) == hash({z})"), ("hash", f"hash({x}) == hash({z})"),
                             ("to_str", f"to_str({y}) == to_str({z})"), ("to_str", f"to_str({x}) == to_str({z})")):
                plain.append(("route.pow." + nm, expr, None, o_bool(True), (a, e1, e2)))
    dumps = eval_exprs([c[1] for c in plain], chunk=40) + eval_exprs([c[1] for c in limited], limits={"size": POW_SIZE_LIMIT}, chunk=1)
    allc = plain + limited
    mlines = [(k, c[2]) for k, c in enumerate(allc) if c[2]]
    mres = dict(zip([k for k, _ in mlines], run_model([l for _, l in mlines])))
    for k, ((name, expr, mline, want, inp), d) in enumerate(zip(allc, dumps)):
        chk.evaluations += 1
        chk.count("powx:lang:" + name)
        if any(abs(x) > I64_MAX for x in inp):
            chk.nontrivial.add(("powx", name) + tuple(inp))
        got = d if d.startswith("viol ") else canon_impl(d)
        replay = {"src": f"let r = {expr};", "get": ["r"], "expected": want, "got": d}
        if want == VIOL_ALLOC:
            replay["limits"] = {"size": POW_SIZE_LIMIT}
        if got != want:
            kind = "panic" if got == "PANIC" else ("hang" if d == "hang" else "wrong")
            chk.violation(f"powx:lang:{name}:{kind}", f"{expr} evaluates to {d}; the documented exact outcome is {want} (pow cross product)", replay)
        elif k in mres and model_to_dump(mres[k]) != got:
            chk.violation(f"tie:powx:lang:{name}", f"model disagrees with the implementation (which matches the oracle) on {expr}: model={mres[k]} impl={d}",
                          {"src": replay["src"], "model": mline, "model_out": mres[k], "impl": d}, no_input=True)
    return {"pow_cross_product": {"bases": [str(b) for b in POW_BASES], "exponents": [str(e) for e in exps], "exhaustive": True,
                                  "levels": ["LazyBigint::pow (canonical operands)", "LazyBigint::pow (operands forced to Long)", "a ** b", "pow(a, b)"],
                                  "evaluations": len(cases) + len(allc),
                                  "note": "every base x exponent pair in both tiers; |base| >= 2 with a word-sized exponent above 65 only through the language "
                                          "under a size limit (expected: allocation violation); routes (b**e1)**e2 = b**(e1*e2) = closed form by ==, cmp, hash, to_str"}}


def run(chk):
    rng = chk.rng
    quick = chk.tier == "quick"
    chk.trusted += [
        "Python's int as the independent arbitrary-precision oracle for the verdict",
        "float-valued results (true division, to_float) are outside the model; only their finiteness is checked (C13)",
    ]
    ok = chk.prove()
    if not ok:
        handle_broken(chk)

    square_cov = boundary_square(chk)
    square_cov.update(pow_cross(chk))

    pool = boundary_pool(rng, 24 if quick else 120)
    small_pool = [v for v in pool if abs(v) <= 2**65]

    # ------------------------------------------------------------------ unit level
    cases = []   # (key, harness_req, model_line, oracle, inputs)
    n_pairs = 900 if quick else 20000
    pairs = [(rng.choice(pool), rng.choice(pool)) for _ in range(n_pairs)]
    # all boundary pairs around 2^63 exhaustively
    edge = [v for v in pool if 2**62 <= abs(v) <= 2**64 + 2 or abs(v) <= 3]
    pairs += [(a, b) for a in edge for b in edge] if not quick else [(rng.choice(edge), rng.choice(edge)) for _ in range(600)]
    for f, (ar, orc) in UNIT_OPS.items():
        if ar == 1:
            for a in pool:
                cases.append((f, {"op": "int", "f": f, "a": str(a)}, f"int {f} {a}", orc(a), (a,)))
        else:
            sel = pairs if not quick else rng.sample(pairs, 350)
            for a, b in sel:
                cases.append((f, {"op": "int", "f": f, "a": str(a), "b": str(b)}, f"int {f} {a} {b}", orc(a, b), (a, b)))
    for _ in range(300 if quick else 5000):
        a = rng.choice(pool)
        b = pow_exp(rng, a)
        cases.append(("pow", {"op": "int", "f": "pow", "a": str(a), "b": str(b)}, f"int pow {a} {b}", pow_oracle(a, b), (a, b)))

    # text conversion, directly on LazyBigint
    for a in pool:
        cases.append(("to_string", {"op": "int", "f": "to_string", "a": str(a)}, f"int to_string {a}", "STR" + str(a), (a,)))
        for radix in (2, 8, 10, 16, rng.choice([3, 5, 7, 36, 1, 0, 37])):
            if fits(a):
                want = "STR" + to_radix(a, radix) if radix in (2, 8, 10, 16) else "PANIC"
            else:
                want = "STR" + to_radix(a, radix) if 2 <= radix <= 36 else "PANIC"
            cases.append(("magnitude_to_str", {"op": "int", "f": "magnitude_to_str", "a": str(a), "radix": radix},
                          f"int magnitude_to_str {a} {radix}", want, (a, radix)))
    for _ in range(1500 if quick else 40000):
        radix = rng.choice([2, 8, 10, 16, 36, 3, 7, 11, 35, rng.randint(2, 36)])
        t = gen_numeral(rng, pool, radix)
        v = parse_radix(t, radix)
        cases.append(("from_str_radix", {"op": "int", "f": "from_str_radix", "a": "0", "s": t, "radix": radix},
                      f"int from_str_radix {enc_str(t)} {radix}", "none" if v is None else tag(v), (t, radix)))
        chk.count("text:from_str_radix:" + ("valid" if v is not None else "invalid"))
    impl = run_harness([c[1] for c in cases])
    model = run_model([c[2] for c in cases])
    for (f, req, line, want, inp), ri, rm in zip(cases, impl, model):
        chk.evaluations += 1
        got = "PANIC" if "panic" in ri else ri.get("r", json.dumps(ri))
        gm = "PANIC" if rm.startswith("panic") else rm
        if gm.startswith("str:"):
            gm = "STR" + dec_str(gm)
        if f in ("to_string", "magnitude_to_str") and got != "PANIC":
            got = "STR" + got
        if any(isinstance(x, int) and abs(x) > I64_MAX for x in inp):
            chk.nontrivial.add((f,) + tuple(inp))
        chk.count("unit:" + f)
        if want == "PANIC":
            # outside the operation's precondition (callers guard): only the correspondence is compared
            if got != gm:
                chk.violation(f"tie:unit:{f}:precondition", f"model/impl disagree outside the precondition of {f}{inp}: impl={got} model={gm}",
                              {"harness": req, "model": line, "impl": got, "model_out": gm}, no_input=True)
            continue
        if got != want:
            chk.violation(f"unit:{f}:{'panic' if got == 'PANIC' else 'wrong'}",
                          f"LazyBigint {f}{inp} = {got if got != 'PANIC' else ri['panic']}, exact result is {want}",
                          {"harness": req, "expected": want, "got": ri})
        elif gm != got:
            chk.violation(f"tie:unit:{f}", f"model disagrees with implementation (which is right) on {f}{inp}: model={gm} impl={got}",
                          {"harness": req, "model": line, "impl": got, "model_out": gm}, no_input=True)
    chk.sample({"unit": cases[0][1], "expected": cases[0][3]})
    chk.sample({"unit": cases[-1][1], "expected": cases[-1][3]})

    # ------------------------------------------------------------------ language level
    lops = lang_ops()
    lcases = []  # (name, expr, model_line or None, oracle, inputs)
    n = 120 if quick else 2500
    for name, (tmpl, ar, orc) in lops.items():
        for _ in range(n):
            a, b = rng.choice(pool), rng.choice(pool)
            if ar == 1:
                lcases.append((name, tmpl.format(a=lit(a)), f"int {name} {a}", orc(a), (a,)))
            else:
                lcases.append((name, tmpl.format(a=lit(a), b=lit(b)), f"int {name} {a} {b}", orc(a, b), (a, b)))
    # regression corpus: the witness of every defect fixed in /repo for this property (always run)
    big33 = int("1" + "0" * 32, 16)
    for expr, want in [
        ("1 - 2**64", o_int(1 - 2**64)), ("binom(70, 35)", o_int(math.comb(70, 35))), ("multinom([30, 20, 13])", o_int(math.factorial(63) // (math.factorial(30) * math.factorial(20) * math.factorial(13)))),
        ("2**63 * (-1)", o_int(-2**63)), ("div_floor(-(2**63), -1)", o_int(2**63)), ("div_ceil(-(2**63), -1)", o_int(2**63)),
        ("1 / 2**80", fhex(1 / 2**80)), ("div_floor(1, 2**80)", o_int(0)), ("(-7) % 3", o_int(2)), ("7 % (-3)", o_int(-2)),
        ("digits(5, 1)", ERR), ("digits(5, 0)", ERR), ('format(-(2**63), "x")', dump_str("-8000000000000000")),
        ("1 ** 2**40", o_int(1)), ("(2**64)**0 == 1", o_bool(True)), ("to_float(10**400)", ERR),
        ("170141183460469231731687303715884105728", o_int(2**127)), ("0x1" + "0" * 32, o_int(big33)),
        ("lcm(2**63+1, 2**65-1)", o_int((2**63 + 1) * (2**65 - 1) // math.gcd(2**63 + 1, 2**65 - 1))),
        ('to_int("' + "1" * 40 + '_1")', ERR), ('to_int("1_1")', ERR),
        ("floor_root(1)", o_int(1)), ("floor_root(5, 1)", o_int(5)), ("ceil_root(2)", o_int(2)),
        ("to_float(2**64 + 2049)", fhex(float(2**64 + 2049))), ("9007199254740995 / 7", fhex(9007199254740995 / 7)),
    ]:
        lcases.append(("regress", expr, None, want, ()))
    # pow with guards
    for _ in range(n):
        a = rng.choice(pool)
        b = pow_exp(rng, a, lang=True)
        want = ERR if (b < 0 or (a == 0 and b == 0) or (b >= 2**64 and abs(a) > 1)) else o_int(a ** b)
        lcases.append(("b.pow", f"{lit(a)} ** {lit(b)}", f"int b.pow {a} {b}", want, (a, b)))
    # hash: range, and the same value whatever route produced the operand
    for _ in range(n):
        a, b = rng.choice(pool), rng.choice(pool)
        lcases.append(("b.hash", f"hash({lit(a)})", f"int b.hash {a}", "HASH", (a,)))
        lcases.append(("route.hash", f"hash(({lit(a)} + {lit(b)}) - {lit(b)}) == hash({lit(a)})", None, o_bool(True), (a, b)))
        lcases.append(("route.sub", f"({lit(a)} + {lit(b)}) - {lit(b)}", None, o_int(a), (a, b)))
        lcases.append(("route.mul", f"div_floor({lit(a)} * {lit(b)}, {lit(b)})", None, ERR if b == 0 else o_int(a), (a, b)))
        lcases.append(("route.str", f"to_str(({lit(a)} - {lit(b)}) + {lit(b)}) == to_str({lit(a)})", None, o_bool(True), (a, b)))
        lcases.append(("to_str", f"to_str({lit(a)})", None, f'(str "{a}")', (a,)))
    # binom / digits / gcd / lcm / factorial / abs / sign / multinom
    for _ in range(n):
        nn = rng.choice([0, 1, 2, 5, 10, 20, 30, 40, 62, 66, 67, 70, 100, 130, -3, 2**64])
        kk = rng.choice([0, 1, 2, nn // 2, nn - 1, nn, nn + 1, -1, 35, 33]) if nn < 1000 else rng.choice([0, 1, 2, 3, -1])
        if 0 <= kk <= nn:
            want = o_int(math.comb(nn, kk))
        else:
            want = ERR
        lcases.append(("b.binom", f"binom({lit(nn)}, {lit(kk)})", f"int b.binom {nn} {kk}", want, (nn, kk)))
        x = rng.choice(pool)
        base = rng.choice([2, 3, 7, 10, 16, 36, 2**32, 2**63, 2**64, 2**64 + 1, 1, 0, -1, -2])
        if base >= 2:
            ds = []
            t = x
            while t != 0:
                ds.append(trem(t, base)); t = tdiv(t, base)
            want = "(seq" + "".join(" " + o_int(d) for d in ds) + ")"
        else:
            want = ERR
        lcases.append(("b.digits", f"digits({lit(x)}, {lit(base)})", f"int b.digits {x} {base}", want, (x, base)))
        a, b = rng.choice(small_pool), rng.choice(small_pool)
        lcases.append(("lib.gcd", f"gcd({lit(a)}, {lit(b)})", f"int lib.gcd {a} {b}", o_int(math.gcd(a, b)), (a, b)))
        lcases.append(("lib.lcm", f"lcm({lit(a)}, {lit(b)})", f"int lib.lcm {a} {b}", o_int(abs(a * b) // math.gcd(a, b) if a and b else 0), (a, b)))
        lcases.append(("lib.abs", f"abs({lit(a)})", f"int lib.abs {a}", o_int(abs(a)), (a,)))
        lcases.append(("lib.sign", f"sign({lit(a)})", f"int lib.sign {a}", o_int((a > 0) - (a < 0)), (a,)))
        f = rng.choice([0, 1, 2, 5, 20, 21, 25, 30, 50, 171, -1, -2**64])
        lcases.append(("lib.factorial", f"factorial({lit(f)})", f"int lib.factorial {f} 1", o_int(math.factorial(f)) if f >= 0 else ERR, (f,)))
        f, st = rng.choice([0, 1, 5, 6, 20, 33]), rng.choice([1, 2, 3, 7])
        mf = 1
        for t in range(f, 0, -st):
            mf *= t
        lcases.append(("lib.factorial", f"factorial({f}, {st})", f"int lib.factorial {f} {st}", o_int(mf), (f, st)))
        ra = rng.choice([0, 1, 2, 3, 4, 8, 9, 24, 25, 26, 27, 63, 64, 65, 10**6, 10**6 - 1, 2**31, 2**32 - 1, 2**53 + 1, 2**62, 2**62 - 1,
                         2**63 - 2, 3**39, 3**39 - 1, 7**22, rng.getrandbits(rng.choice([10, 30, 50, 62])), -1, -2**64])
        rb = rng.choice([1, 2, 2, 2, 3, 3, 4, 5, 7, 13, 62, 64, 100])
        lcases.append(("lib.floor_root", f"floor_root({lit(ra)}, {rb})" if rb != 2 or rng.random() < 0.5 else f"floor_root({lit(ra)})",
                       f"int lib.floor_root {ra} {rb}", o_int(iroot(ra, rb)) if ra >= 0 else ERR, (ra, rb)))
        ra = ra if ra != 2**63 - 2 else 2**63 - 1
        cr = ERR if ra < 0 else o_int(0 if ra == 0 else iroot(ra - 1, rb) + 1)
        lcases.append(("lib.ceil_root", f"ceil_root({lit(ra)}, {rb})", f"int lib.ceil_root {ra} {rb}", cr, (ra, rb)))
        ks = [rng.choice([0, 0, 1, 2, 3, 5, 8, 13, 20, 30, 41]) for _ in range(rng.choice([0, 1, 2, 3, 4, 5]))]
        if rng.random() < 0.15 and ks:
            ks[rng.randrange(len(ks))] = rng.choice([-1, -7, -2**64])
        if rng.random() < 0.1 and ks:
            ks[rng.randrange(len(ks))] = rng.choice([2**63 - 1, 2**63, 2**64, 2**127])   # one huge entry: still cheap
            ks = [k if abs(k) > 2**62 else min(k, 3) for k in ks]
            if sum(1 for k in ks if abs(k) > 2**62) > 1:
                ks = ks[:1]
        if len(ks) <= 1:
            mn = 1
        elif min(ks) < 0:
            mn = None
        else:
            big = max(ks)
            mn, tot = 1, big
            for k in sorted(ks, reverse=True)[1:]:      # (tot+1)...(tot+k)/k!  — exact, avoids huge factorials
                for i in range(k):
                    mn = mn * (tot + i + 1)
                mn //= math.factorial(k)
                tot += k
        lcases.append(("b.multinom", f"multinom([{', '.join(lit(k) for k in ks)}])" if ks else "multinom([].map((x:int)->{x}))",
                       "int b.multinom" + "".join(f" {k}" for k in ks), ERR if mn is None else o_int(mn), tuple(ks)))
    # text: to_int (with and without base), format, to_str through the model as well
    for _ in range(4 * n):
        base = rng.choice([10, 10, 16, 2, 8, 36, 3, 7, 35, rng.randint(2, 36), 1, 0, -5, 37, 2**64])
        radix = base if 2 <= base <= 36 else 10
        t = gen_numeral(rng, pool, radix)
        if 2 <= base <= 36:
            v = parse_radix(t, base)
            want = ERR if v is None else o_int(v)
        else:
            want = ERR
        if base == 10 and rng.random() < 0.5:
            lcases.append(("b.to_int", f'to_int("{t}")', f"int b.to_int {enc_str(t)} 10", want, (t,)))
        else:
            lcases.append(("b.to_int", f'to_int("{t}", {lit(base)})', f"int b.to_int {enc_str(t)} {base}", want, (t, base)))
        a = rng.choice(pool)
        sp, text = gen_spec(rng)
        lcases.append(("b.format", f'format({lit(a)}, "{text}")', f"int b.format {a} {spec_model_args(sp)}", format_oracle(a, sp), (a, text)))
        lcases.append(("b.to_str", f"to_str({lit(a)})", f"int b.to_str {a}", dump_str(str(a)), (a,)))
        lcases.append(("route.text", f"to_int(to_str({lit(a)})) == {lit(a)}", None, o_bool(True), (a,)))
        lcases.append(("route.format_empty", f'format({lit(a)}, "") == to_str({lit(a)})', None, o_bool(True), (a,)))
        b2 = rng.choice(pool)
        lcases.append(("route.divmod", f"div_floor({lit(a)}, {lit(b2)}) * {lit(b2)} + {lit(a)} % {lit(b2)} == {lit(a)}", None,
                       ERR if b2 == 0 else o_bool(True), (a, b2)))
        lcases.append(("route.divceil", f"div_ceil({lit(a)}, {lit(b2)}) == -div_floor(-{lit(a)}, {lit(b2)})", None,
                       ERR if b2 == 0 else o_bool(True), (a, b2)))
        r2 = rng.choice([("x", 16), ("o", 8), ("b", 2), ("", 10)])
        lcases.append(("route.format", f'to_int(format({lit(a)}, "{r2[0]}"), {r2[1]}) == {lit(a)}', None, o_bool(True), (a, r2[1])))
    # float conversions and chr (Python oracle only; float results are outside the Lean model)
    from fractions import Fraction
    fl_pool = pool + [2**53 + 1, 2**53 + 3, 2**54 + 2, 2**64 + 2049, 2**64 + 2048, 2**64 + 2047, -(2**64 + 2049), 2**63 + 1025,
                      2**200 + 1, 2**200 + 2**147, 2**200 + 2**147 + 1, 2**1023, 2**1024 - 2**970 - 1, 2**1024 - 2**970, 2**1024, 10**400]
    for _ in range(3 * n):
        a = rng.choice(fl_pool)
        if rng.random() < 0.3:
            a = rng.getrandbits(rng.choice([54, 64, 65, 100, 130, 1000])) * rng.choice([1, -1])
        lcases.append(("to_float", f"to_float({lit(a)})", None, to_float_oracle(a), (a,)))
        try:
            fa = float(a)
            fop, pyf = rng.choice([("floor", math.floor), ("ceil", math.ceil), ("trunc", math.trunc)])
            lcases.append(("float." + fop, f"{fop}(to_float({lit(a)}) / 2.0)", None, o_int(pyf(fa / 2.0)), (a,)))
        except OverflowError:
            pass
        b = rng.choice(pool)
        if b != 0:
            try:
                f = a / b              # CPython: correctly rounded quotient of the exact integers
                kind = "exact" if Fraction(f) == Fraction(a, b) else "nearest"
                lcases.append(("true_div." + kind, f"{lit(a)} / {lit(b)}", None, fhex(f) if f != 0 else "ZERO", (a, b)))
            except OverflowError:
                lcases.append(("true_div.overflow", f"{lit(a)} / {lit(b)}", None, ERR, (a, b)))
        else:
            lcases.append(("true_div.zero", f"{lit(a)} / {lit(b)}", None, ERR, (a, b)))
        v = abs(rng.choice(fl_pool[:len(pool)]))
        form = rng.choice(["hex", "bin", "us"])
        if form == "hex":
            ltxt = f"0x{v:x}" if rng.random() < 0.5 else f"0x{v:X}"
        elif form == "bin":
            ltxt = f"0b{v:b}"
        else:
            d = str(v)
            ltxt = d[0] + "".join(("_" if rng.random() < 0.3 else "") + ch for ch in d[1:])
        lcases.append(("literal." + form, ltxt, None, o_int(v), (v,)))
        c = rng.choice([0, 65, 0x7f, 0xe9, 0x3b1, 0xd7ff, 0xd800, 0xdfff, 0xe000, 0xffff, 0x10000, 0x1f600, 0x10ffff, 0x110000,
                        2**32 - 1, 2**32, 2**32 + 65, -1, 2**64, -2**64, rng.randrange(0x110000)])
        ok = 0 <= c <= 0x10ffff and not (0xd800 <= c <= 0xdfff)
        lcases.append(("chr", f"chr({lit(c)})", None, dump_str(chr(c)) if ok else ERR, (c,)))
    dumps = eval_exprs([c[1] for c in lcases])
    mlines = [(i, c[2]) for i, c in enumerate(lcases) if c[2]]
    mres = dict(zip([i for i, _ in mlines], run_model([l for _, l in mlines])))
    for i, ((name, expr, mline, want, inp), d) in enumerate(zip(lcases, dumps)):
        chk.evaluations += 1
        chk.count("lang:" + name)
        if any(isinstance(x, int) and abs(x) > I64_MAX for x in inp) or any(isinstance(x, str) and len(x) > 19 for x in inp):
            chk.nontrivial.add((name,) + tuple(inp))
        got = canon_impl(d)
        replay = {"src": f"let r = {expr};", "get": ["r"], "expected": want, "got": d}
        if want == "ZERO":     # a zero quotient (0 / b, or below the subnormal range): the sign of a float zero is not an integer fact
            want = got if got in ("(float 0000000000000000)", "(float 8000000000000000)") else "(float 0000000000000000)"
        if want == "HASH":
            bad = not (got.startswith("(int ") and 0 <= int(got.split()[2].rstrip(")")) < 2**64)
            if bad:
                chk.violation(f"lang:{name}:range", f"{expr} = {d}: not an int in [0, 2^64)", replay)
        elif got != want:
            kind = "panic" if got == "PANIC" else ("hang" if d == "hang" else "wrong")
            chk.violation(f"lang:{name}:{kind}", f"{expr} evaluates to {d}; the exact result is {want}", replay)
            continue
        if i in mres:
            gm = model_to_dump(mres[i])
            if gm != got:
                chk.violation(f"tie:lang:{name}", f"model disagrees with the implementation (which matches the oracle) on {expr}: model={mres[i]} impl={d}",
                              {"src": replay["src"], "model": mline, "model_out": mres[i], "impl": d}, no_input=True)
    for c in lcases[:3]:
        chk.sample({"lang": c[1], "expected": c[3]})

    # ------------------------------------------------------------------ drift guard for the hand model of include.rs
    cur = extract_include_fns()
    snap = json.load(open(SNAPSHOT)) if os.path.exists(SNAPSHOT) else {}
    for name in INCLUDE_FNS:
        chk.count("include-snapshot:" + ("same" if cur.get(name) == snap.get(name) and cur.get(name) else "changed"))
        if not cur.get(name) or cur.get(name) != snap.get(name):
            chk.violation(f"tie:include:{name}",
                          f"the source of `{name}` in src/builtin/include.rs is no longer the text the hand model XrayModel/IntLib.lean was "
                          f"written from (the Python-oracle cases above ran against the current code): now {cur.get(name)!r}, modelled {snap.get(name)!r}",
                          {"function": name, "current": cur.get(name), "modelled": snap.get(name)}, no_input=True)

    return chk.finish(rule="operand tuples over the boundary pool {0,±1,small,±2^31,±2^53,±2^62..2^65,±2^127,±2^128 and neighbours, random 1-400 bit} "
                           "for every LazyBigint operation (direct) and every integer builtin (through the language); "
                           "non-trivial = distinct (operation, operands) with at least one operand outside the i64 range; "
                           "plus the exhaustive boundary square (coverage.boundary_square)", extra_cov=square_cov)


def replay(path):
    """./check C14 --replay FILE : re-run the single input recorded in a replay file against the current tree."""
    rec = json.load(open(path))
    r = rec.get("replay", {})
    key = rec.get("key", "?")
    if "src" in r and "expected" in r:
        rq = {"op": "run", "src": r["src"], "get": r.get("get", ["r"])}
        if "limits" in r:
            rq["limits"] = r["limits"]
        resp = run_harness([rq])[0]
        from .common import _resp_fail
        f = _resp_fail(resp)
        got = canon_impl(f if f is not None else resp["vals"][r.get("get", ["r"])[0]])
        want = r["expected"]
        ok = (got == want) if want != "HASH" else got.startswith("(int ")
        print(f"replay {key}: {r['src']}  ->  {got}   (expected {want})")
    elif "harness" in r and "expected" in r:
        resp = run_harness([r["harness"]])[0]
        got = "PANIC" if "panic" in resp else resp.get("r", json.dumps(resp))
        want = r["expected"]
        if want.startswith("STR"):
            got = "STR" + got
        ok = got == want
        print(f"replay {key}: {json.dumps(r['harness'])}  ->  {got}   (expected {want})")
    elif "harness" in r and "model" in r:
        resp = run_harness([r["harness"]])[0]
        got = "PANIC" if "panic" in resp else resp.get("r", json.dumps(resp))
        gm = run_model([r["model"]])[0]
        gm = "PANIC" if gm.startswith("panic") else ("STR" + dec_str(gm) if gm.startswith("str:") else gm)
        if r["harness"].get("f") in ("to_string", "magnitude_to_str") and got != "PANIC":
            got = "STR" + got
        ok = got == gm
        print(f"replay {key}: implementation {got}, model {gm}")
    else:
        print(f"replay {key}: nothing executable recorded ({rec.get('what', '')[:200]})")
        return 1
    if ok:
        print(f"OK property=C14 replay passes on the current tree")
        return 0
    print(f"VIOLATION property=C14 replay={path}")
    return 1
