"""C11 — Side effects happen only with permission.
Proofs: lean/Props/C11.lean over lean/XrayModel/Perm.lean and the table lean/Generated/Permissions.lean that
translate/perm_sites.py regenerates from /repo/src on every run (permission constants + effect-site table).
Tie: the compiled model (`xmodel`, engine `perm`) and the implementation (harness op `run`, recording doubles for
writer / clock / random source) are run on the same programs under all 64 permission assignments; an independent
Python oracle (plain recursion over the program shape) says what the property demands."""
import itertools
import os
import sys
from .common import *

TRANSLATOR = os.path.join(VERIF, "translate", "perm_sites.py")
PERM_ORDER_DOC = ["now", "print", "print_debug", "random", "regex", "sleep"]   # documented ids
DOC_DEFAULTS = {"now": True, "print": True, "print_debug": True, "random": True, "regex": False, "sleep": False}
KINDS = ["writer", "clock", "rng"]     # the three recording doubles, in the order of `touches`


def translate():
    rc, out = sh([sys.executable, TRANSLATOR])
    if rc != 0:
        raise BuildError("perm_sites.py failed (the sources no longer have a shape the translator recognises):\n" + out[-3000:])


# --------------------------------------------------------------------------- program shapes
# A program shape is a nested tuple, independent of both the model and the implementation:
#   ("lit",) ("bad",)
#   ("atom", name, [arg shapes])              an effectful builtin or documented library function
#   ("seq", a, b) ("wrap", [args], body) ("thunk", body, calls)
# ATOMS: name -> (xray text with {0},{1} for arguments, static type, permission id, double index or None,
#                 site key (file, registered name), number of library wrapper layers around the native call,
#                 native argument list builder)

class Atom:
    def __init__(self, name, text, typ, perm, kind, site, layers, nargs, native_args, lenient=None, effect_error=None):
        self.name, self.text, self.typ, self.perm, self.kind = name, text, typ, perm, kind
        self.site, self.layers, self.nargs, self.native_args = site, layers, nargs, native_args
        # when may a call with the permission off legitimately NOT end in the violation?
        #   "none": never - the builtin checks first (the table has `check` before every `arg`): whatever the argument
        #           (edge value, invalid value, error value), the outcome is the violation
        #   "bad" : only if an argument is an error value (a user-level call / an `arg` step before the check propagates it)
        #   "both": also for edge / invalid argument values (the code validates an argument before the check)
        self.lenient = lenient if lenient is not None else ("none" if layers == 0 else "bad")
        # text of an error value that only the effect itself can have produced
        self.effect_error = effect_error


G, D, C, DI, S, RX = ("builtin/generic.rs", "builtin/datetime.rs", "builtin/cont_distributions.rs",
                      "builtin/disc_distributions.rs", "builtin/sequence.rs", "builtin/regex.rs")
ATOMS = {a.name: a for a in [
    # name, text, type, permission, double, site, wrapper layers, #shape args, positions of the shape args in the native call
    Atom("display", "display({0})", "int", "print", 0, (G, "display"), 0, 1, [0]),
    Atom("display2", "display({0}, 'p: ')", "int", "print", 0, (G, "display"), 0, 1, [0, None]),
    Atom("debug", "debug({0})", "int", "print_debug", 0, (G, "debug"), 0, 1, [0]),
    Atom("debug2", "debug({0}, 'd: ')", "int", "print_debug", 0, (G, "debug"), 0, 1, [0, None]),
    Atom("now", "now()", "Datetime", "now", 1, (D, "__std_unix_now"), 1, 0, []),
    Atom("unix_now", "__std_unix_now()", "float", "now", 1, (D, "__std_unix_now"), 0, 0, []),
    Atom("random", "random()", "float", "random", 2, (C, "sample"), 2, 0, [None, None]),
    Atom("cont_random", "normal_distribution(0.0, 1.0).random()", "float", "random", 2, (C, "sample"), 1, 0, [None, None]),
    Atom("cont_sample", "standard_uniform_distribution().sample({0})", "Sequence<float>", "random", 2, (C, "sample"), 0, 1, [None, 0], lenient="both"),
    Atom("disc_random", "binomial_distribution(3, 0.5).random()", "int", "random", 2, (DI, "sample"), 1, 0, [None, None]),
    Atom("disc_sample", "uniform_distribution(1, 6).sample({0})", "Sequence<int>", "random", 2, (DI, "sample"), 0, 1, [None, 0], lenient="both"),
    Atom("seq_sample", "[1, 2, 3, 4].sample({0})", "Sequence<int>", "random", 2, (S, "sample"), 0, 1, [None, 0]),
    # long sequences take the index-picking branch of XSequence::sample (len > 6 + 4^(bits(3k)/2)), short ones the pool branch
    Atom("seq_sample_pick3", "range(30).sample(3)", "Sequence<int>", "random", 2, (S, "sample"), 0, 0, [None, None]),
    Atom("seq_sample_pick1", "range(12).sample(1)", "Sequence<int>", "random", 2, (S, "sample"), 0, 0, [None, None]),
    Atom("seq_sample_pick10", "range(200).map((i: int) -> {{i * 2}}).sample(10)", "Sequence<int>", "random", 2, (S, "sample"), 0, 0, [None, None]),
    Atom("shuffle_long", "range(40).shuffle()", "Sequence<int>", "random", 2, (S, "sample"), 1, 0, [None, None]),
    Atom("shuffle", "[1, 2, 3].shuffle()", "Sequence<int>", "random", 2, (S, "sample"), 1, 0, [None, None]),
    Atom("sample_counts", "sample([1, 2, 3], 2, [1, 1, 1])", "Sequence<int>", "random", 2, (S, "sample"), 3, 0, [None, None]),
    Atom("random_choices", "[1, 2, 3].random_choices(2)", "Sequence<int>", "random", 2, (DI, "sample"), 1, 0, [None, None]),
    Atom("random_choices_w", "random_choices([1, 2, 3], 2, [1.0, 2.0, 1.0])", "Sequence<int>", "random", 2, (DI, "sample"), 2, 0, [None, None]),
    Atom("regex", "regex({0})", "Regex", "regex", None, (RX, "regex"), 0, 1, [0], effect_error="error compiling regex"),
    Atom("regex_match", "regex('a+').match('aaa')", "Optional<Match>", "regex", None, (RX, "regex"), 1, 0, [None]),
    Atom("sleep", "sleep(seconds(0.0))", "()", "sleep", None, (G, "__std_sleep"), 1, 0, [None, None]),
    Atom("sleep_value", "sleep(seconds(0.0), {0})", "int", "sleep", None, (G, "__std_sleep"), 1, 1, [None, 0]),
    # atoms that exist for their edge / invalid arguments (EDGE below)
    Atom("sleep_d", "sleep(seconds({0}))", "()", "sleep", None, (G, "__std_sleep"), 1, 1, [0, None]),
    Atom("seq_sample_empty", "range(0).sample({0})", "Sequence<int>", "random", 2, (S, "sample"), 0, 1, [None, 0]),
    Atom("shuffle_empty", "range(0).shuffle()", "Sequence<int>", "random", 2, (S, "sample"), 1, 0, [None, None]),
    Atom("random_choices_n", "[1, 2, 3].random_choices({0})", "Sequence<int>", "random", 2, (DI, "sample"), 1, 1, [None, None], lenient="both"),
    Atom("random_choices_empty", "range(0).random_choices({0})", "Sequence<int>", "random", 2, (DI, "sample"), 1, 1, [None, None], lenient="both"),
    Atom("sample_counts_k", "sample([1, 2, 3], {0}, [1, 0, 1])", "Sequence<int>", "random", 2, (S, "sample"), 3, 1, [None, None], lenient="both"),
    Atom("cont_param", "normal_distribution(0.0, {0}).random()", "float", "random", 2, (C, "sample"), 1, 1, [None, None], lenient="both"),
    Atom("disc_param", "uniform_distribution({0}, 6).random()", "int", "random", 2, (DI, "sample"), 1, 1, [None, None], lenient="both"),
    Atom("now_scaled", "(__std_unix_now() * {0})", "float", "now", 1, (D, "__std_unix_now"), 0, 1, []),
    Atom("now_plus", "(now() + seconds({0}))", "Datetime", "now", 1, (D, "__std_unix_now"), 1, 1, []),
]}
# atoms whose receiver is itself the edge case: only used with the arguments of EDGE
EDGE_ONLY = {"random_choices_empty"}
# edge / invalid (but not error-valued) arguments that make the builtin take an early-return or unusual path:
# atom -> [(argument text, static type of the call if it differs from the atom's)]
EDGE = {
    "regex": [("'('", None), ("'['", None), ("'a{2,1}'", None), ("'\\\\'", None), ("'(?P<'", None), ("'a' * 10000", None),
              ("''", None), ("'(a|b)*c'", None)],
    "display": [("2**4000", None), ("'x' * 10000", "str"), ("[1, 2, 3]", "Sequence<int>"), ("1.5", "float"), ("(1, 'a')", "(int, str)")],
    "display2": [("-(2**4000)", None), ("''", "str")],
    "debug": [("2**4000", None), ("'x' * 10000", "str"), ("[[1], [2, 3]]", "Sequence<Sequence<int>>")],
    "debug2": [("range(3)", "Sequence<int>")],
    "sleep_d": [("0.0", None), ("-1.0", None), ("-0.0", None), ("1e-9", None), ("(-1e308)", None)],
    "sleep_value": [("2**200", None)],
    "seq_sample": [("0", None), ("5", None), ("-1", None), ("4", None), ("2**70", None)],
    "seq_sample_empty": [("0", None), ("1", None)],
    "cont_sample": [("0", None), ("-1", None), ("2**70", None)],
    "disc_sample": [("0", None), ("-1", None), ("2**70", None)],
    "random_choices_n": [("0", None), ("-1", None), ("2**70", None)],
    "random_choices_empty": [("2", None), ("0", None)],
    "sample_counts_k": [("0", None), ("3", None), ("-1", None)],
    "cont_param": [("0.0", None), ("-1.0", None), ("1e308", None), ("5e-324", None)],
    "disc_param": [("6", None), ("7", None), ("-(2**62)", None)],
    "now_scaled": [("1e308", None), ("0.0", None), ("-1.0", None)],
    "now_plus": [("1e308", None), ("-1e18", None)],
}
ARG_LIT = {"display": "7", "display2": "8", "debug": "9", "debug2": "10", "cont_sample": "2", "disc_sample": "2",
           "seq_sample": "2", "regex": "'a+b'", "sleep_value": "11", "sleep_d": "0.0", "seq_sample_empty": "0",
           "random_choices_n": "2", "sample_counts_k": "2", "cont_param": "1.0", "disc_param": "1", "now_scaled": "1.0",
           "now_plus": "1.0", "random_choices_empty": "2"}
# atoms whose shape argument may be an error value (the native closure `xraise!`s it)
BAD_OK = {"debug", "debug2", "display", "display2", "cont_sample", "disc_sample", "seq_sample", "seq_sample_empty", "regex"}
INT_ATOMS = ["display", "display2", "debug", "debug2", "disc_random", "sleep_value"]


class Gen:
    """builds xray text for a shape; declarations (wrappers, closures) are hoisted in front of the statement"""
    def __init__(self):
        self.decls = []
        self.n = 0

    def fresh(self, p):
        self.n += 1
        return f"{p}{self.n}"

    def text(self, sh):
        """-> (expression text, type)"""
        t = sh[0]
        if t == "lit":
            return "5", "int"
        if t == "bad":
            return "error('e')", None
        if t == "atom":
            a = ATOMS[sh[1]]
            args = []
            typ = a.typ
            for x in sh[2]:
                if x[0] == "lit":
                    args.append(ARG_LIT[a.name])
                elif x[0] == "edge":
                    args.append(x[1])
                    typ = x[2] or typ
                elif x[0] == "bad" and a.name in ARG_LIT and self.fresh("b")[-1] in "02468":
                    # an error value of the argument's own type: an out-of-range index
                    args.append(f"[{ARG_LIT[a.name]}][7]")
                else:
                    args.append(self.text(x)[0])
            return a.text.format(*args), typ
        if t == "wrap":
            body, typ = self.text(sh[2])
            f = self.fresh("w")
            params = ", ".join(f"p{i}: int" for i in range(len(sh[1])))
            args = ", ".join(self.text(x)[0] for x in sh[1])
            self.decls.append(f"fn {f}({params}) -> {typ} {{ {body} }}")
            return f"{f}({args})", typ
        if t == "thunk":
            how = sh[3]
            body, typ = self.text(sh[1])
            n = sh[2]
            if how == "closure":
                f = self.fresh("c")
                self.decls.append(f"let {f} = () -> {{ {body} }};")
                if n == 0:
                    return "0", "int"
                # called n times
                return "[" + ", ".join(f"is_error({f}())" for _ in range(n)) + "].len()", "int"
            els = ", ".join(str(i) for i in range(max(n, 1)))
            if how == "map":
                return (f"[{els}].map((i: int) -> {{ {body} }}).to_array().len()", "int") if n else \
                       (f"[{els}].map((i: int) -> {{ {body} }}).len()", "int")
            if how == "filter":
                return (f"[{els}].filter((i: int) -> {{ is_error({body}) }}).to_array().len()", "int") if n else \
                       (f"[{els}].filter((i: int) -> {{ is_error({body}) }}).len() + 0", "int")
            if how == "reduce":
                return f"[{els}].reduce(0, (a: int, b: int) -> {{ if(is_error({body}), a, b) }})", "int"
            if how == "untaken":
                return f"if(true, 0, if(is_error({body}), 1, 2))", "int"
            if how == "default":
                # evaluated once, when the function is declared, however often it is called
                f = self.fresh("d")
                if "error(" in body or "][7]" in body:
                    # an error-valued argument makes the static type unknown: give the default a definite type
                    body, typ = f"if(is_error({body}), 1, 2)", "int"
                self.decls.append(f"fn {f}(x: {typ} ?= {body}) -> int {{ 1 }}")
                return f"{f}() + {f}()", "int"
            raise ValueError(how)
        if t == "seq":
            a, _ = self.text(sh[1])
            v = self.fresh("s")
            self.decls.append(f"let {v} = {a};")
            return self.text(sh[2])
        raise ValueError(t)


def program_text(shape):
    g = Gen()
    e, _ = g.text(shape)
    return "\n".join(g.decls + [f"let result = {e};"])


def model_tokens(sh, site_idx):
    t = sh[0]
    if t in ("lit", "edge"):
        return ["L"]
    if t == "bad":
        return ["B"]
    if t == "atom":
        a = ATOMS[sh[1]]
        if a.layers == 0:
            nat = [["L"] if pos is None else model_tokens(sh[2][pos], site_idx) for pos in a.native_args]
            return ["N", str(site_idx[a.site]), str(len(nat))] + [x for n in nat for x in n]
        # a library function written in xray: its arguments are evaluated at the (outermost) user-level call
        toks = ["N", str(site_idx[a.site]), str(len(a.native_args))] + ["L"] * len(a.native_args)
        for _ in range(a.layers - 1):
            toks = ["W", "0"] + toks
        return ["W", str(len(sh[2]))] + [x for arg in sh[2] for x in model_tokens(arg, site_idx)] + toks
    if t == "wrap":
        return ["W", str(len(sh[1]))] + [x for a in sh[1] for x in model_tokens(a, site_idx)] + model_tokens(sh[2], site_idx)
    if t == "thunk":
        how, n = sh[3], sh[2]
        calls = {"default": 1, "untaken": 0}.get(how, n)
        return ["T", str(calls)] + model_tokens(sh[1], site_idx)
    if t == "seq":
        return ["S"] + model_tokens(sh[1], site_idx) + model_tokens(sh[2], site_idx)
    raise ValueError(t)


def shape_size(sh):
    t = sh[0]
    if t in ("lit", "bad", "edge"):
        return 1
    if t == "atom":
        return 4 + ATOMS[sh[1]].layers + sum(shape_size(x) for x in sh[2])
    if t == "wrap":
        return 1 + sum(shape_size(x) for x in sh[1]) + shape_size(sh[2])
    if t == "thunk":
        return 1 + shape_size(sh[1])
    return 1 + shape_size(sh[1]) + shape_size(sh[2])


# --------------------------------------------------------------------------- the independent oracle
class Stop(Exception):
    def __init__(self, perm):
        self.perm = perm


def oracle(shape, on, choices):
    """what the property demands: the first effectful builtin reached whose permission is off ends the evaluation in
    a violation naming it; a double may only be touched by a builtin reached while its permission is on.
    `on`: permission id -> bool.  Where an argument of the builtin is an error value the property allows either
    outcome (the builtin is not 'reached' if its argument already failed): `choices` enumerates them.
    Returns (violation permission or None, set of doubles that may have been touched)."""
    may = set()
    ch = iter(choices)

    def go(sh):
        t = sh[0]
        if t in ("lit", "bad", "edge"):
            return
        if t == "atom":
            a = ATOMS[sh[1]]
            has_bad = any(x[0] == "bad" for x in sh[2])
            has_edge = any(x[0] == "edge" for x in sh[2])
            # may the call legitimately not reach the permission check?
            excused = (has_bad and a.lenient in ("bad", "both")) or (has_edge and a.lenient == "both")
            if a.layers > 0:
                # a library function written in xray: a user-level call evaluates its arguments first
                for x in sh[2]:
                    go(x)
                if not on[a.perm]:
                    if excused and next(ch, 0) == 1:
                        return
                    raise Stop(a.perm)
                if a.kind is not None and not has_bad:
                    may.add(a.kind)
                return
            if not on[a.perm]:
                if excused and next(ch, 0) == 1:
                    for x in sh[2]:
                        go(x)
                    return
                raise Stop(a.perm)
            for x in sh[2]:
                go(x)
            if a.kind is not None and not has_bad:
                may.add(a.kind)
            return
        if t == "wrap":
            for x in sh[1]:
                go(x)
            go(sh[2])
            return
        if t == "thunk":
            how, n = sh[3], sh[2]
            calls = {"default": 1, "untaken": 0}.get(how, n)
            for _ in range(calls):
                go(sh[1])
            return
        if t == "seq":
            go(sh[1])
            go(sh[2])
            return
        raise ValueError(t)

    try:
        go(shape)
        return None, may
    except Stop as s:
        return s.perm, may


def n_bad(sh):
    """number of places where the oracle admits two outcomes"""
    if sh[0] == "bad":
        return 1
    if sh[0] == "atom":
        return sum(n_bad(x) for x in sh[2]) + (1 if any(x[0] == "edge" for x in sh[2]) and ATOMS[sh[1]].lenient == "both" else 0)
    if sh[0] == "wrap":
        return sum(n_bad(x) for x in sh[1]) + n_bad(sh[2])
    if sh[0] == "thunk":
        return n_bad(sh[1]) * max(1, sh[2])
    if sh[0] == "seq":
        return n_bad(sh[1]) + n_bad(sh[2])
    return 0


def has_lenient_edge(sh):
    if sh[0] == "atom":
        return (ATOMS[sh[1]].lenient == "both" and any(x[0] == "edge" for x in sh[2])) or any(has_lenient_edge(x) for x in sh[2])
    if sh[0] == "wrap":
        return any(has_lenient_edge(x) for x in sh[1]) or has_lenient_edge(sh[2])
    if sh[0] == "thunk":
        return has_lenient_edge(sh[1])
    if sh[0] == "seq":
        return has_lenient_edge(sh[1]) or has_lenient_edge(sh[2])
    return False


def atoms_in(sh):
    if sh[0] == "atom":
        return [sh[1]] + [a for x in sh[2] for a in atoms_in(x)]
    if sh[0] == "wrap":
        return [a for x in sh[1] for a in atoms_in(x)] + atoms_in(sh[2])
    if sh[0] == "thunk":
        return atoms_in(sh[1])
    if sh[0] == "seq":
        return atoms_in(sh[1]) + atoms_in(sh[2])
    return []


# --------------------------------------------------------------------------- generators
PATHS = ["direct", "wrapper", "wrapper_arg", "closure", "closure_uncalled", "map", "map_unforced", "filter",
         "reduce", "untaken", "default", "nested"]


def mk_atom(name, rng=None, bad=False):
    a = ATOMS[name]
    args = []
    for _ in range(a.nargs):
        args.append(("bad",) if bad else ("lit",))
    return ("atom", name, args)


def on_path(at, path, rng):
    if path == "direct":
        return at
    if path == "wrapper":
        return ("wrap", [], at)
    if path == "wrapper_arg":
        # the effect sits in an argument of a user function
        inner = at if ATOMS[at[1]].typ == "int" else ("thunk", at, 1, "filter")
        return ("wrap", [inner], ("lit",))
    if path == "closure":
        return ("thunk", at, rng.choice([1, 2]), "closure")
    if path == "closure_uncalled":
        return ("thunk", at, 0, "closure")
    if path == "map":
        return ("thunk", at, rng.choice([1, 3]), "map")
    if path == "map_unforced":
        return ("thunk", at, 0, "map")
    if path == "filter":
        return ("thunk", at, rng.choice([1, 2]), "filter")
    if path == "reduce":
        return ("thunk", at, rng.choice([1, 3]), "reduce")
    if path == "untaken":
        return ("thunk", at, 0, "untaken")
    if path == "default":
        return ("thunk", at, 1, "default")
    if path == "nested":
        return ("wrap", [], ("thunk", ("wrap", [("lit",)], at), 2, "map"))
    raise ValueError(path)


def random_shape(rng, depth=0, top=True):
    r = rng.random()
    if depth >= 3 or r < 0.35:
        name = rng.choice([n for n in ATOMS if n not in EDGE_ONLY])
        a = ATOMS[name]
        bad = a.name in BAD_OK and rng.random() < 0.12
        sh = mk_atom(name, rng, bad)
        if not bad and a.nargs == 1 and name in ("display", "debug", "sleep_value") and rng.random() < 0.25 and depth < 3:
            # an effect inside the argument of an effectful builtin
            inner = mk_atom(rng.choice(INT_ATOMS[:4]))
            sh = ("atom", name, [inner])
        return sh
    if r < 0.55:
        if not top:
            return random_shape(rng, depth + 1, False)
        # `let` statements (and declaration-time defaults) only at the top level of the program
        return ("seq", random_shape(rng, depth + 1, False), random_shape(rng, depth + 1, True))
    if r < 0.7:
        k = rng.choice([0, 1])
        args = [("atom", rng.choice(INT_ATOMS[:4]), [("lit",)]) if rng.random() < 0.5 else ("lit",) for _ in range(k)]
        return ("wrap", args, random_shape(rng, depth + 1, False))
    how = rng.choice(["closure", "map", "filter", "reduce", "untaken", "map", "closure"] + (["default", "default"] if top else []))
    n = {"untaken": 0, "default": 1}.get(how, rng.choice([0, 1, 2, 3]))
    if how in ("filter", "reduce") and n == 0:
        n = 1
    return ("thunk", random_shape(rng, depth + 1, False), n, how)


def cfg_limits(cfg):
    """cfg: dict id -> True/False/None(not configured)"""
    return {"allow": [p for p, v in cfg.items() if v is True], "forbid": [p for p, v in cfg.items() if v is False]}


def effective(cfg):
    return {p: (DOC_DEFAULTS[p] if cfg[p] is None else cfg[p]) for p in PERM_ORDER_DOC}


def run(chk):
    rng = chk.rng
    quick = chk.tier == "quick"
    chk.trusted += [
        "translate/perm_sites.py reads the Rust sources faithfully (token-level scan: effect tokens, statement-level "
        "`check_permission(&CONST)?` guards in an enclosing closure, `eval(&args[i])` argument evaluations, textual order); "
        "it fails closed (an effect without such a guard makes `sites_guarded` unprovable)",
        "textual order inside a closure is taken for execution order (the guards are the first statements of their closures)",
        "the effect-trace model abstracts programs to the shapes `lit | bad | nat | seq | wrap | thunk`; the regex engine, "
        "thread::sleep and the std::io writer are not modelled; Instant::now used for the host's time limit is not an effect "
        "a program can observe and is not covered by a permission",
        "recording doubles for Write / TimeProvider / RngCore in the harness; regex compilation and sleeping have no double "
        "(only the violation is observed for them)",
    ]
    ok = chk.prove()

    # ---- the generated table as the model sees it
    table, perms = run_model(["perm table", "perm perms"])
    site_idx, unguarded = {}, []
    for row in table.split(";"):
        if not row:
            continue
        i, f, name, guarded = row.split("|")
        site_idx[(f, name)] = int(i)
        if guarded != "true":
            unguarded.append((f, name))
    perm_rows = [r.split("|") for r in perms.split(";") if r]
    gen_ids = [r[1] for r in perm_rows]
    chk.coverage["generated_sites"] = sorted(f"{f}:{n}" for f, n in site_idx)
    chk.coverage["generated_permissions"] = perms
    table_ok = True
    if sorted(gen_ids) != sorted(PERM_ORDER_DOC):
        table_ok = False
        chk.violation("table:permissions", f"the permission constants in the sources are {gen_ids}, the documented ones {PERM_ORDER_DOC}",
                      {"generated": perms}, no_input=True)
    for a in ATOMS.values():
        if a.site not in site_idx:
            table_ok = False
            chk.violation(f"table:site-missing:{a.site[1]}", f"no effect site {a.site} in the generated table (the translator found no effect token "
                          f"in the builtin `{a.site[1]}` any more)", {"table": table}, no_input=True)

    # ---- cases
    cases = []   # (shape, cfg, label)
    all_cfgs = [dict(zip(PERM_ORDER_DOC, bits)) for bits in itertools.product([True, False], repeat=6)]
    unset = {p: None for p in PERM_ORDER_DOC}
    # (1) systematic: every effectful function x every path x {only its permission off, everything on, defaults,
    #     everything off, only its permission on}
    for name, a in ATOMS.items():
        if name in EDGE_ONLY:
            continue
        for path in PATHS:
            if path == "default" and a.typ.startswith("Optional"):
                continue
            sh = on_path(mk_atom(name), path, rng)
            allon = {p: True for p in PERM_ORDER_DOC}
            alloff = {p: False for p in PERM_ORDER_DOC}
            for cfg in (dict(allon, **{a.perm: False}), allon, unset, alloff, dict(alloff, **{a.perm: True}),
                        dict(unset, **{a.perm: False}), dict(unset, **{a.perm: True})):
                cases.append((sh, cfg, f"{name}/{path}"))
        if name in BAD_OK:
            sh = mk_atom(name, bad=True)
            for cfg in ({p: True for p in PERM_ORDER_DOC}, {p: False for p in PERM_ORDER_DOC}, unset):
                cases.append((sh, cfg, f"{name}/bad-arg"))
    # (1b) edge / invalid argument values (early-return paths of the builtins) and error values at every argument position
    allon = {p: True for p in PERM_ORDER_DOC}
    alloff = {p: False for p in PERM_ORDER_DOC}
    for name, pool in EDGE.items():
        a = ATOMS[name]
        for txt, ty in pool:
            at = ("atom", name, [("edge", txt, ty)])
            for path in ("direct", "wrapper", "map", "default"):
                if path == "default" and (ty or a.typ).startswith("Optional"):
                    continue
                sh = on_path(at, path, rng)
                for cfg in (dict(allon, **{a.perm: False}), allon, unset, alloff):
                    cases.append((sh, cfg, f"{name}/edge-{path}"))
    for name in sorted(BAD_OK):
        for path in ("wrapper", "map", "default"):
            sh = on_path(mk_atom(name, bad=True), path, rng)
            for cfg in (dict(allon, **{ATOMS[name].perm: False}), allon, unset):
                cases.append((sh, cfg, f"{name}/bad-{path}"))
    # (2) random programs x all 64 assignments (+ the unconfigured set)
    n_prog = 40 if quick else 500
    progs = []
    while len(progs) < n_prog:
        sh = random_shape(rng)
        if shape_size(sh) > 60 or n_bad(sh) > 3 or not atoms_in(sh):
            continue
        progs.append(sh)
    for sh in progs:
        for cfg in all_cfgs + [unset]:
            cases.append((sh, cfg, "random"))
    # (3) partially configured sets (3^6 assignments) on a few programs
    tri = [dict(zip(PERM_ORDER_DOC, bits)) for bits in itertools.product([True, False, None], repeat=6)]
    for sh in progs[: (2 if quick else 12)]:
        for cfg in (rng.sample(tri, 80) if quick else tri):
            cases.append((sh, cfg, "random3"))

    if not table_ok:
        cases = [c for c in cases if all(ATOMS[a].site in site_idx for a in atoms_in(c[0]))]

    reqs, mlines = [], []
    for sh, cfg, label in cases:
        src = program_text(sh)
        reqs.append({"op": "run", "src": src, "get": ["result"] if label.endswith("/edge-direct") else [], "limits": cfg_limits(cfg)})
        cfgs = "".join({True: "1", False: "0", None: "-"}[cfg[pid]] for pid in gen_ids) if table_ok else "------"
        mlines.append(f"perm run {cfgs} {shape_size(sh) * 2 + 8} " + " ".join(model_tokens(sh, site_idx)))
    impl = run_harness(reqs, per_req_timeout=20.0)
    model = run_model(mlines)

    impl_violation = False
    for (sh, cfg, label), req, ri, rm in zip(cases, reqs, impl, model):
        chk.evaluations += 1
        chk.count("path:" + label.split("/")[-1] if "/" in label else "path:" + label)
        on = effective(cfg)
        atoms = atoms_in(sh)
        for a in set(atoms):
            chk.count("atom:" + a)
        replay = {"src": req["src"], "limits": req["limits"], "get": []}
        fail = _resp_fail_c11(ri)
        if fail is not None:
            chk.violation(f"run:{label}:{fail.split()[0]}", f"program did not run: {fail}", dict(replay, got=ri))
            impl_violation = True
            continue
        inst = ri["inst"]
        got_viol = None
        if inst != "ok":
            v = inst["viol"]
            got_viol = v[len('PermissionError("'):-2] if v.startswith("PermissionError(") else "other:" + v
        touches = ri["touches"]
        # the oracle's admissible outcomes
        outcomes = []
        for ch in itertools.product([0, 1], repeat=min(n_bad(sh), 3)):
            o = oracle(sh, on, ch)
            if o not in outcomes:
                outcomes.append(o)
        denied_atoms = [a for a in atoms if not on[ATOMS[a].perm]]
        if denied_atoms:
            chk.nontrivial.add((label, tuple(sorted(cfg.items(), key=str))))
        match = [o for o in outcomes if o[0] == got_viol]
        if not match:
            want = outcomes[0][0]
            first = next((a for a in atoms if ATOMS[a].perm == (want or got_viol)), atoms[0])
            kind = "no-violation" if got_viol is None else ("unexpected-violation" if want is None else "wrong-violation")
            chk.violation(f"effect:{ATOMS[first].site[1]}:{ATOMS[first].perm}:{kind}",
                          f"under permissions {on} the program must end in {('PermissionError(' + want + ')') if want else 'no permission violation'}"
                          f" but the implementation gave {inst}", dict(replay, expected=want, got=inst, touches=touches))
            impl_violation = True
            continue
        may = set().union(*[o[1] for o in match])
        bad_touch = [KINDS[i] for i in range(3) if touches[i] > 0 and i not in may]
        if bad_touch:
            first = next((a for a in atoms if ATOMS[a].kind is not None and KINDS[ATOMS[a].kind] in bad_touch), atoms[0])
            chk.violation(f"effect:{ATOMS[first].site[1]}:{ATOMS[first].perm}:touched",
                          f"under permissions {on} the {bad_touch} double(s) were touched ({touches}) although no builtin using them was "
                          f"reached with its permission enabled", dict(replay, touches=touches, got=inst,
                                                                        must_not_touch=[i for i in range(3) if KINDS[i] in bad_touch]))
            impl_violation = True
            continue
        if ri.get("compile_touches") != [0, 0, 0]:
            chk.violation("effect:compile:touched", f"compilation touched a double: {ri.get('compile_touches')}", replay)
            impl_violation = True
            continue
        # ---- tie: the model predicts the same outcome, and every touched double is touched in the model
        parts = rm.split()
        m_res = parts[0] if parts else "?"
        m_viol = m_res[5:] if m_res.startswith("viol:") else None
        m_cnt = {p.split("=")[0]: int(p.split("=")[1]) for p in parts[1:]} if len(parts) == 6 else None
        tie_bad = None
        if has_lenient_edge(sh):
            pass      # the table does not describe argument validation before the check: nothing to compare
        elif m_cnt is None or m_res in ("stuck", "bad-op"):
            tie_bad = f"model answered {rm!r}"
        elif m_viol != got_viol:
            tie_bad = f"model predicts {m_res}, implementation gives {inst}"
        else:
            for i, key in enumerate(["w", "c", "r"]):
                if touches[i] > 0 and m_cnt[key] == 0:
                    tie_bad = f"the {KINDS[i]} double was touched ({touches}) but the model's trace has no such effect ({rm})"
        if tie_bad:
            chk.violation(f"tie:perm:{label.split('/')[0] if '/' in label else 'random'}", f"model and implementation disagree (the implementation satisfies the oracle): {tie_bad}",
                          dict(replay, model=mlines[cases.index((sh, cfg, label))], model_out=rm, impl=inst, touches=touches), no_input=True)
    # ---- metamorphic, model-free: if a call under "everything allowed" reaches the effect (its double is touched) or returns
    # an error that only the attempted effect can have produced (a regex compile error), the same call with the permission
    # switched off must end in the violation naming it and leave the doubles alone
    by_shape = {}
    for (sh, cfg, label), req, ri in zip(cases, reqs, impl):
        if label.endswith("/edge-direct") and _resp_fail_c11(ri) is None:
            by_shape.setdefault(req["src"], {})["allow" if all(v is True for v in cfg.values()) else
                                                 ("deny" if list(cfg.values()).count(False) == 1 and None not in cfg.values() else "other")] = (sh, cfg, label, req, ri)
    for src, d in by_shape.items():
        if "allow" not in d or "deny" not in d:
            continue
        sh, _, label, _, ra = d["allow"]
        _, dcfg, _, dreq, rd = d["deny"]
        a = ATOMS[sh[1]]
        chk.evaluations += 1
        chk.count("metamorphic:" + a.name)
        res = str(ra.get("vals", {}).get("result", ""))
        attempted = (a.kind is not None and ra["touches"][a.kind] > 0) or \
            (a.effect_error is not None and res.startswith("(error ") and a.effect_error in res)
        if not attempted:
            continue
        dv = rd["inst"]["viol"] if rd.get("inst") != "ok" else None
        if dv != f'PermissionError("{a.perm}")' or any(rd["touches"]):
            chk.violation(f"meta:{a.site[1]}:{a.perm}:effect-without-permission",
                          f"`{src}` with everything allowed attempts the effect (result {res[:120]}, touches {ra['touches']}); with `{a.perm}` switched off "
                          f"the same program must end in PermissionError({a.perm}) and leave the doubles alone, but it gives {rd.get('inst')} with touches {rd['touches']}",
                          {"src": src, "limits": dreq["limits"], "get": [], "expected": a.perm, "got": rd.get("inst"), "allowed_run": {"result": res[:200], "touches": ra["touches"]}})
            impl_violation = True
    for c in cases[:2] + cases[-2:]:
        chk.sample({"src": program_text(c[0]), "limits": cfg_limits(c[1])})

    if unguarded and not impl_violation:
        for f, n in unguarded:
            chk.violation(f"table:unguarded:{n}", f"the translator finds an effect token in {f} (builtin `{n}`) that is not preceded by a recognised "
                          f"`check_permission(&…)?` guard; no program of the generator made it misbehave", {"site": [f, n], "table": table}, no_input=True)
    if not ok:
        # a proof obligation no longer checks; the violations found above (if any) are its replay
        handle_broken(chk, search_fn=lambda b: impl_violation)

    chk.coverage["exhaustive_note"] = "all 64 permission assignments for every random program; 7 assignments for every (function, path) pair"
    return chk.finish(rule="(effectful library function, path to it, permission assignment) triples; non-trivial = distinct (path label, "
                           "assignment) pairs in which at least one reached function's permission is off")


def _resp_fail_c11(r):
    if "panic" in r:
        return "panic " + r["panic"]
    if "abort" in r:
        return "abort " + str(r["abort"])
    if "hang" in r:
        return "hang"
    if r.get("compile") != "ok":
        c = r.get("compile")
        return "compile-err " + (c.get("msg", "?")[:300] if isinstance(c, dict) else str(c))
    return None


def replay(path):
    """./check C11 --replay FILE: re-run the recorded program under the recorded permissions on the current tree"""
    d = json.load(open(path))
    r = d["replay"]
    if "src" not in r:
        print(f"replay {d.get('key')}: nothing executable recorded ({d.get('what', '')[:200]})")
        return 1
    out = run_harness([{"op": "run", "src": r["src"], "get": r.get("get", []), "limits": r.get("limits", {})}])[0]
    inst = out.get("inst")
    got = None
    if isinstance(inst, dict):
        v = inst["viol"]
        got = v[len('PermissionError("'):-2] if v.startswith("PermissionError(") else "other:" + v
    ok = _resp_fail_c11(out) is None
    if ok and "expected" in r:
        ok = got == r["expected"]
    if ok and "must_not_touch" in r:
        ok = all(out["touches"][i] == 0 for i in r["must_not_touch"])
    print(f"replay {d.get('key')}: outcome {inst}, touches {out.get('touches')} (expected violation: {r.get('expected', 'n/a')}, "
          f"doubles that must stay untouched: {[KINDS[i] for i in r.get('must_not_touch', [])]})")
    if ok:
        print("OK property=C11 replay passes on the current tree")
        return 0
    print(f"VIOLATION property=C11 replay={path}")
    return 1
