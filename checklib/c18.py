"""C18 — Strings are code-point sequences; literals mean what they say.
Proofs: lean/Props/C18.lean over lean/XrayModel/{FString,Lex}.lean.
Tie: (i) FencedString driven directly through the hook wrappers vs. the model, (ii) the string builtins and the
library functions written in xray, through the language, (iii) literal spellings compiled by the real compiler
vs. the model of the literal rules.  The independent oracle is Python: a string is a list of code points."""
from .common import *

ERR = "ERR"
WS = {9, 10, 11, 12, 13, 32, 0x85, 0xA0, 0x1680, 0x2028, 0x2029, 0x202F, 0x205F, 0x3000} | set(range(0x2000, 0x200B))

# alphabet: ASCII, 2-, 3-, 4-byte characters, combining marks, case-expanding characters, white space
ASCII = [ord(c) for c in "abAZz09 _-,"]
TWO = [0xE9, 0xDF, 0x130, 0x149, 0x1F0, 0x3A3, 0x3C3, 0xA0, 0x131, 0x17F]
THREE = [0x20AC, 0x4E2D, 0x301, 0x306, 0x2003, 0x1E9E, 0xFB01, 0x1F88]
FOUR = [0x1F600, 0x1D4B3, 0x10000, 0x10FFFF, 0x10400]
ALPHA = ASCII + TWO + THREE + FOUR


def cps(s):
    return ",".join(str(ord(c)) for c in s) if s else "_"


def lit(s):
    """xray literal denoting exactly s (every character as a \\u{..} escape)"""
    return '"' + "".join("\\u{%x}" % ord(c) for c in s) + '"'


def rand_str(rng, maxlen=8, alpha=None):
    kind = rng.random()
    n = rng.choice([0, 1, 1, 2, 3, 4, 5, 6, maxlen])
    if alpha is None and rng.random() < 0.15:
        # periodic strings (occurrences of a needle overlap)
        u = rng.choice(["a", "ab", "aab", "\u65e5\u672c", "\xe9\U0001F600", "\xdfa"])
        return (u * 8)[:max(n, 3)]
    if alpha is None:
        if kind < 0.25:
            alpha = ASCII
        elif kind < 0.4:
            alpha = ASCII[:3] + TWO[:2]
        elif kind < 0.5:
            alpha = [0x61, 0xE9, 0x1F600]
        else:
            alpha = ALPHA
    return "".join(chr(rng.choice(alpha)) for _ in range(n))


def rand_needle(rng, s):
    r = rng.random()
    if len(s) >= 3 and r < 0.25:
        # a self-overlapping needle cut out of the haystack, if there is one
        c = [s[i:j] for i in range(len(s)) for j in range(i + 2, min(len(s), i + 4) + 1) if any(s[i:j][:k] == s[i:j][-k:] for k in range(1, j - i))]
        if c:
            return rng.choice(c)
    if s and r < 0.6:
        i = rng.randrange(len(s))
        j = min(len(s), i + rng.choice([1, 1, 2, 3]))
        return s[i:j]
    if r < 0.7:
        return ""
    return rand_str(rng, 2)


def idx_pool(rng, n):
    return [0, 1, 2, n - 2, n - 1, n, n + 1, n + 2, -1, -2, -n, -n - 1, -n + 1, 2 ** 64, -2 ** 64, 2 ** 63, rng.randrange(0, n + 1)]


# ---------------------------------------------------------------- parsing of the harness' value dumps

def parse_dump(d):
    """'(str "a\\u{e9}")' -> 'aé'; ints -> int; (seq ..) -> list; (struct ..) -> tuple; (some x) -> ('some', x);
    (none) -> None; (error ..) -> ERR; anything else (panic, compile-err, viol) is returned as the raw text"""
    if not d.startswith("("):
        return d
    pos = [0]

    def ws():
        while pos[0] < len(d) and d[pos[0]] == " ":
            pos[0] += 1

    def string():
        assert d[pos[0]] == '"'
        pos[0] += 1
        out = []
        while d[pos[0]] != '"':
            c = d[pos[0]]
            if c == "\\":
                n = d[pos[0] + 1]
                if n == "u":
                    j = d.index("}", pos[0])
                    out.append(chr(int(d[pos[0] + 3:j], 16)))
                    pos[0] = j + 1
                else:
                    out.append(n)
                    pos[0] += 2
            else:
                out.append(c)
                pos[0] += 1
        pos[0] += 1
        return "".join(out)

    def item():
        ws()
        assert d[pos[0]] == "(", d
        pos[0] += 1
        j = pos[0]
        while d[j] not in " )":
            j += 1
        head = d[pos[0]:j]
        pos[0] = j
        ws()
        if head == "str":
            v = string()
        elif head == "error":
            string()
            v = ERR
        elif head == "int":
            j = d.index(")", pos[0])
            v = int(d[pos[0]:j].split()[1])
            pos[0] = j
        elif head == "bool":
            j = d.index(")", pos[0])
            v = d[pos[0]:j] == "true"
            pos[0] = j
        elif head == "none":
            v = None
        elif head == "some":
            v = ("some", item())
        elif head in ("seq", "struct", "stack"):
            xs = []
            while True:
                ws()
                if d[pos[0]] == ")":
                    break
                xs.append(item())
            v = xs if head != "struct" else tuple(xs)
        else:
            j = d.index(")", pos[0])
            v = "?" + head + d[pos[0]:j]
            pos[0] = j
        ws()
        assert d[pos[0]] == ")", (d, pos[0])
        pos[0] += 1
        return v

    try:
        return item()
    except Exception:
        return "?unparsed " + d


# ---------------------------------------------------------------- oracles (plain Python over code-point sequences)

def o_show(s):
    """the outside view of a FencedString holding s: text|len|probe (the table length is tie-only)"""
    return (cps(s), len(s), ";".join(cps(c) for c in s) if s else "_")


def split_show(r):
    """'text|len|tablen|probe' -> ((text, len, probe), tablen) or the raw answer"""
    p = r.split("|")
    if len(p) != 4:
        return r, None
    return (p[0], int(p[1]), p[3]), int(p[2])


def o_get(s, i):
    n = len(s)
    return s[i] if -n <= i < n else ERR


def o_substring(s, a, b):
    n = len(s)
    if b is not None and b < 0:
        b += n
    if b is None:
        b = n
    if a < 0 or b < 0 or b < a or a > n or b >= 2 ** 64 or a >= 2 ** 64:
        return ERR          # an end past the length is clipped (list slicing), an index that is no machine index is an error
    return s[a:min(b, n)]


def o_find(s, nd, st):
    if nd == "":
        return ERR
    if st is None:
        st = 0
    if st < 0 or st > len(s):
        return ERR
    i = s.find(nd, st)
    return None if i < 0 else ("some", i)


def o_rfind(s, nd, e):
    if nd == "":
        return ERR
    if e is not None and (e < 0 or e >= 2 ** 64):
        return ERR
    i = (s if e is None else s[:e]).rfind(nd)
    return None if i < 0 else ("some", i)


def o_strip(s, left=True, right=True):
    a, b = 0, len(s)
    if left:
        while a < b and ord(s[a]) in WS:
            a += 1
    if right:
        while b > a and ord(s[b - 1]) in WS:
            b -= 1
    return s[a:b]


def o_partition(s, sep):
    if sep == "":
        return ERR
    i = s.find(sep)
    return (s, "") if i < 0 else (s[:i], s[i + len(sep):])


def o_rpartition(s, sep):
    if sep == "":
        return ERR
    i = s.rfind(sep)
    return ("", s) if i < 0 else (s[:i], s[i + len(sep):])


def o_cmp(a, b):
    la, lb = [ord(c) for c in a], [ord(c) for c in b]
    return (la > lb) - (la < lb)


# ---------------------------------------------------------------- literal rules (independent reading of the book + grammar)

import re as _re


def py_escapes(s):
    """escape rules of string_literals.md; None = BadEscapeSequence"""
    out, pos = [], 0
    for m in _re.finditer(r"\\(u\{.+?\}|.)", s):
        out.append(s[pos:m.start()])
        pos = m.end()
        g = m.group(1)
        if len(g) > 1:
            h = g[2:-1]
            if not _re.fullmatch(r"[a-fA-F0-9]{1,6}", h):
                return None
            v = int(h, 16)
            if v > 0x10FFFF or 0xD800 <= v <= 0xDFFF:
                return None
            out.append(chr(v))
        else:
            tbl = {"n": "\n", "t": "\t", "r": "\r", "0": "\0", "\\": "\\", '"': '"', "'": "'"}
            if g not in tbl:
                return None
            out.append(tbl[g])
    out.append(s[pos:])
    return "".join(out)


def scan_literal(sp):
    """where does the literal that starts at sp[0] end?  -> (kind, content, end) or None.
    `#`*n quote … quote `#`*n; inside a non-raw literal a backslash takes the following backslash or quote with it."""
    i = 0
    raw = False
    if sp[:1] == "r":
        raw, i = True, 1
    n = 0
    while sp[i:i + 1] == "#":
        n += 1
        i += 1
    q = sp[i:i + 1]
    if q not in ("'", '"'):
        return None
    i += 1
    start = i
    close = q + "#" * n
    while i < len(sp):
        if sp.startswith(close, i):
            return ("raw" if raw else "str", sp[start:i], i + len(close))
        if not raw and sp[i] == "\\" and sp[i + 1:i + 2] in (q, "\\"):
            i += 2
        else:
            i += 1
    return None


def o_literal(sp):
    r = scan_literal(sp)
    if r is None or r[2] != len(sp):
        return "compile-err Syntax"
    kind, content, _ = r
    if kind == "raw":
        return content
    v = py_escapes(content)
    return "compile-err BadEscapeSequence" if v is None else v


LIT_ALPHA = ["a", "n", "u", "4", "1", "\\", "\\", '"', "'", "#", "{", "}", "é", "😀", " ", "\\n", "\\\\", "\\\"", "\\'", "\\u{41}", "\\u{1F600}", "\\q", "\\0", "\\t", "0", "\n"]


def gen_literal(rng):
    content = "".join(rng.choice(LIT_ALPHA) for _ in range(rng.choice([0, 1, 2, 3, 5, 8])))
    n = rng.choice([0, 0, 0, 1, 2, 3])
    q = rng.choice(["'", '"'])
    n2 = n if rng.random() < 0.9 else rng.choice([0, 1, 2, 3])
    return rng.choice(["", "", "r"]) + "#" * n + q + content + q + "#" * n2


def gen_fstring(rng):
    """(spelling, expected value)"""
    q = rng.choice(["'", '"'])
    n = rng.choice([0, 0, 1, 2])
    sp, val = [], []
    for _ in range(rng.choice([0, 1, 2, 3, 4])):
        k = rng.random()
        if k < 0.4:
            t = "".join(rng.choice(["a", "b", " ", "é", "😀", "#", "{{", "}}", "\\n", "\\\\", "\\t", ":", "\\" + q]) for _ in range(rng.choice([1, 2, 4])))
            sp.append(t)
            val.append(py_escapes(t).replace("{{", "{").replace("}}", "}"))
        elif k < 0.6:
            v = rng.choice([0, 7, 42, 12345])
            sp.append("{%d}" % v)
            val.append(str(v))
        elif k < 0.8:
            v = rng.choice([0, 7, 42, 12345])
            spec = rng.choice([">5", "<4", "^6", "05", "*^7", "", "3"])
            sp.append("{%d:%s}" % (v, spec))
            val.append(format(v, spec))
        elif k < 0.9:
            a, b = rng.choice([1, 2, 30]), rng.choice([4, 5])
            sp.append("{%d+%d*2}" % (a, b))
            val.append(str(a + b * 2))
        else:
            other = "'" if q == '"' else '"'
            w = rng.choice(["s", "é", ""])
            sp.append("{" + other + w + other + "}")
            val.append(w)
    return "f" + "#" * n + q + "".join(sp) + q + "#" * n, "".join(val)


def to_model_show(v):
    """model answer for an FS-valued builtin -> python string / ERR / 'PANIC'"""
    if v.startswith("err "):
        return ERR
    if v.startswith("panic"):
        return "PANIC"
    t = v.split("|")[0]
    return "" if t == "_" else "".join(chr(int(x)) for x in t.split(","))


def to_model_literal(v):
    if v.startswith("value "):
        t = v.split(" ", 1)[1]
        return "" if t == "_" else "".join(chr(int(x)) for x in t.split(","))
    if v.startswith("error "):
        return "compile-err " + v.split(" ", 1)[1]
    if v == "noparse":
        return "compile-err Syntax"
    return "?" + v


def to_model_opt(v):
    if v.startswith("err "):
        return ERR
    if v.startswith("panic"):
        return "PANIC"
    if v == "none":
        return None
    return ("some", int(v.split()[1]))


def run(chk):
    rng = chk.rng
    quick = chk.tier == "quick"
    chk.trusted += [
        "Python str (a sequence of code points) as the independent oracle; Python's lower()/upper() for the case tables on the chosen alphabet",
        "Rust std: String/str (UTF-8 validity, find/rfind, char_indices, to_lowercase/to_uppercase), regex crate; the model reads them as list operations",
        "the pest parser engine (the literal rules of xray.pest are modelled as scanners and compared on sampled literals)",
    ]
    ok = chk.prove()
    if not ok:
        handle_broken(chk)

    # ================================================================== unit level: FencedString through the hooks
    cases = []   # (opname, harness req, model line, oracle or None (= outside the precondition), description)

    def add(f, req, line, want, desc):
        req = dict(req, op="str", f=f)
        cases.append((f, req, "str " + f + " " + line, want, desc))

    def L(s):
        return [ord(c) for c in s]

    n_str = 250 if quick else 6000
    strings = ["", "a", "é", "😀", "abc", "aé", "éa", "a😀b", "és", "ßİŉǰ"] + [rand_str(rng) for _ in range(n_str)]
    for s in strings:
        n = len(s)
        add("from", {"s": L(s)}, cps(s), o_show(s), s)
        add("len", {"s": L(s)}, cps(s), str(n), s)
        add("bytes", {"s": L(s)}, cps(s), ",".join(str(b) for b in s.encode("utf-8")) or "_", s)
        idx = sorted(set(i for i in [0, 1, 2, n - 1, n, n + 1, n + 3, rng.randrange(0, n + 2)] if i >= 0))
        for a in idx:
            for b in idx + [None]:
                if not quick or rng.random() < 0.4:
                    inpre = a <= n and (b is None or a <= b)
                    bb = "none" if b is None else str(b)
                    add("substring", {"s": L(s), "a": a, "b": b}, f"{cps(s)} {a} {bb}",
                        o_show(s[a:b]) if inpre else None, (s, a, b))
                    add("substr", {"s": L(s), "a": a, "b": b}, f"{cps(s)} {a} {bb}",
                        cps(s[a:b]) if inpre else None, (s, a, b))
        t = rand_str(rng)
        add("push", {"s": L(s), "t": L(t)}, f"{cps(s)} {cps(t)}", o_show(s + t), (s, t))
        ta = rand_str(rng, alpha=ASCII)
        add("push_ascii", {"s": L(s), "t": L(ta)}, f"{cps(s)} {cps(ta)}", o_show(s + ta), (s, ta))
        # composites reaching non-canonical representations
        for _ in range(2):
            a = rng.randrange(0, n + 1)
            b = rng.choice([rng.randrange(a, n + 2), None])
            bb = "none" if b is None else str(b)
            sub = s[a:b]
            add("sub_push", {"s": L(s), "a": a, "b": b, "t": L(t)}, f"{cps(s)} {a} {bb} {cps(t)}", o_show(sub + t), (s, a, b, t))
            add("push_sub", {"s": L(s), "a": a, "b": b, "t": L(t)}, f"{cps(t)} {cps(s)} {a} {bb}", o_show(t + sub), (t, s, a, b))
            m = len(sub)
            c = rng.randrange(0, m + 1)
            d = rng.choice([rng.randrange(c, m + 2), None])
            dd = "none" if d is None else str(d)
            add("sub_sub", {"s": L(s), "a": a, "b": b, "c": c, "d": d}, f"{cps(s)} {a} {bb} {c} {dd}", o_show(sub[c:d]), (s, a, b, c, d))
            add("sub_len", {"s": L(s), "a": a, "b": b}, f"{cps(s)} {a} {bb}", str(m), (s, a, b))

    impl = run_harness([c[1] for c in cases])
    model = run_model([c[2] for c in cases])
    for (f, req, line, want, desc), ri, rm in zip(cases, impl, model):
        chk.evaluations += 1
        chk.count("unit:" + f)
        got = "PANIC" if "panic" in ri else ri.get("r", json.dumps(ri))
        gm = "PANIC" if rm.startswith("panic") else rm
        s0 = desc if isinstance(desc, str) else desc[0]
        if any(ord(ch) > 127 for ch in s0):
            chk.nontrivial.add((f, str(desc)))
        if want is None:
            chk.count("unit:outside-precondition")
            if got != gm:
                chk.violation(f"tie:unit:{f}:precondition", f"model/impl disagree outside the precondition of {f}{desc!r}: impl={got} model={gm}",
                              {"harness": req, "model": line, "impl": got, "model_out": gm}, no_input=True)
            continue
        view, _tab = split_show(got) if isinstance(want, tuple) else (got, None)
        if view != want:
            chk.violation(f"unit:{f}:{'panic' if got == 'PANIC' else 'wrong'}",
                          f"FencedString {f}{desc!r} shows {ri.get('panic', got)}; as a code-point sequence it is {want}",
                          {"harness": req, "expected": want, "got": ri})
        elif gm != got:
            chk.violation(f"tie:unit:{f}", f"model disagrees with the implementation (which is right) on {f}{desc!r}: model={gm} impl={got}",
                          {"harness": req, "model": line, "impl": got, "model_out": gm}, no_input=True)
    chk.sample({"unit": cases[5][1], "expected": cases[5][3]})

    # ---- case mapping: the std tables are parameters of the model (asked from the harness), Python is the oracle
    cm = []
    for s in strings[: (200 if quick else 3000)]:
        for upper in (False, True):
            cm.append((s, upper))
    std = run_harness([{"op": "str", "f": "stdcase", "s": L(s), "upper": u} for s, u in cm])
    impl = run_harness([{"op": "str", "f": "casemap", "s": L(s), "upper": u} for s, u in cm])
    model = run_model([f"str casemap {cps(s)} {1 if st.get('flag') else 0} {st.get('mapped', '_')}" for (s, u), st in zip(cm, std)])
    for (s, u), st, ri, rm in zip(cm, std, impl, model):
        chk.evaluations += 1
        name = "upper" if u else "lower"
        chk.count("unit:" + name)
        want = s.upper() if u else s.lower()
        got = "PANIC" if "panic" in ri else ri.get("r", json.dumps(ri))
        view = o_show(s) if got == "same" else split_show(got)[0]
        if want != s:
            chk.nontrivial.add((name, s))
        replay = {"harness": {"op": "str", "f": "casemap", "s": L(s), "upper": u}, "expected": o_show(want), "got": ri}
        if view != o_show(want):
            chk.violation(f"unit:{name}:{'panic' if got == 'PANIC' else 'wrong'}",
                          f"FencedString {name} of {s!r} shows {ri.get('panic', got)}; the case-mapped code-point sequence is {o_show(want)}", replay)
        elif rm != got:
            chk.violation(f"tie:unit:{name}", f"model disagrees with the implementation on {name}({s!r}): model={rm} impl={got}", replay, no_input=True)

    # ================================================================== language level
    lcases = []   # (name, expr, model line or None, oracle, to_model fn, inputs)

    def ladd(name, expr, want, mline=None, conv=None, inp=()):
        lcases.append((name, expr, mline, want, conv, inp))

    def oi(v):
        return "none" if v is None else str(v)

    n_l = 60 if quick else 1500
    for _ in range(n_l):
        s = rand_str(rng)
        n = len(s)
        nd = rand_needle(rng, s)
        t = rand_str(rng, 3)
        S, ND, T = lit(s), lit(nd), lit(t)
        ladd("len", f"{S}.len()", n, inp=(s,))
        for i in rng.sample(idx_pool(rng, n), 5):
            ladd("get", f"{S}[{common_lit(i)}]", o_get(s, i), f"str b.get {cps(s)} {i}", to_model_show, (s, i))
        for _ in range(4):
            a, b = rng.choice(idx_pool(rng, n)), rng.choice(idx_pool(rng, n))
            ladd("substring", f"{S}.substring({common_lit(a)}, {common_lit(b)})", o_substring(s, a, b),
                 f"str b.substring {cps(s)} {a} {b}", to_model_show, (s, a, b))
        a = rng.choice(idx_pool(rng, n))
        ladd("substring1", f"{S}.substring({common_lit(a)})", o_substring(s, a, None), inp=(s, a))
        ladd("find", f"{S}.find({ND})", o_find(s, nd, None), f"str b.find {cps(s)} {cps(nd)} none", to_model_opt, (s, nd))
        ladd("rfind", f"{S}.rfind({ND})", o_rfind(s, nd, None), f"str b.rfind {cps(s)} {cps(nd)} none", to_model_opt, (s, nd))
        for i in rng.sample(idx_pool(rng, n), 4):
            ladd("find", f"{S}.find({ND}, {common_lit(i)})", o_find(s, nd, i), f"str b.find {cps(s)} {cps(nd)} {i}", to_model_opt, (s, nd, i))
            ladd("rfind", f"{S}.rfind({ND}, {common_lit(i)})", o_rfind(s, nd, i), f"str b.rfind {cps(s)} {cps(nd)} {i}", to_model_opt, (s, nd, i))
        st = rng.randrange(0, n + 1)
        ladd("contains", f"{S}.contains({ND}, {st})", ERR if nd == "" else (s.find(nd, st) >= 0), inp=(s, nd, st))
        ladd("starts_with", f"{S}.starts_with({ND})", s.startswith(nd), inp=(s, nd))
        ladd("ends_with", f"{S}.ends_with({ND})", s.endswith(nd), inp=(s, nd))
        ladd("remove_prefix", f"{S}.remove_prefix({ND})", s[len(nd):] if s.startswith(nd) else s, inp=(s, nd))
        ladd("remove_suffix", f"{S}.remove_suffix({ND})", s[:len(s) - len(nd)] if s.endswith(nd) else s, inp=(s, nd))
        ladd("split", f"{S}.split({ND}).to_array()", ERR if nd == "" else s.split(nd), inp=(s, nd))
        k = rng.choice([0, 1, 2, 3])
        ladd("splitn", f"{S}.split({ND}, {k}).to_array()", ERR if nd == "" and k > 0 else ([s] if k == 0 else s.split(nd, k)), inp=(s, nd, k))
        ladd("rsplitn", f"{S}.rsplit({ND}, {k}).to_array()", ERR if nd == "" and k > 0 else ([s] if k == 0 else s.rsplit(nd, k)), inp=(s, nd, k))
        ladd("replace", f"{S}.replace({ND}, {T})", ERR if nd == "" else s.replace(nd, t), inp=(s, nd, t))
        ladd("replacen", f"{S}.replace({ND}, {T}, {k})", ERR if nd == "" and k > 0 else s.replace(nd, t, k), inp=(s, nd, t, k))
        ladd("partition", f"{S}.partition({ND})", o_partition(s, nd), inp=(s, nd))
        ladd("rpartition", f"{S}.rpartition({ND})", o_rpartition(s, nd), inp=(s, nd))
        w = "".join(chr(rng.choice([32, 9, 0x2003, 0xA0, 10])) for _ in range(rng.choice([0, 1, 2])))
        w2 = "".join(chr(rng.choice([32, 9, 0x2003, 0xA0, 10])) for _ in range(rng.choice([0, 1, 2])))
        ws = w + s + w2
        ladd("strip", f"{lit(ws)}.strip()", o_strip(ws), inp=(ws,))
        ladd("lstrip", f"{lit(ws)}.lstrip()", o_strip(ws, right=False), inp=(ws,))
        ladd("rstrip", f"{lit(ws)}.rstrip()", o_strip(ws, left=False), inp=(ws,))
        ladd("chars", f"{S}.chars().to_array()", list(s), inp=(s,))
        ladd("reverse", f"{S}.reverse()", s[::-1], inp=(s,))
        m = rng.choice([0, 1, 2, 3, -1])
        ladd("mul", f"{S} * {common_lit(m)}", ERR if m < 0 else s * m, inp=(s, m))
        ladd("add", f"{S} + {T}", s + t, inp=(s, t))
        ladd("add_len", f"({S} + {T}).len()", n + len(t), inp=(s, t))
        ladd("add_get", f"({S} + {T})[{n}]", (s + t)[n] if t else ERR, inp=(s, t))
        ladd("cmp", f"cmp({S}, {T})", o_cmp(s, t), inp=(s, t))
        ladd("lt", f"{S} < {T}", o_cmp(s, t) < 0, inp=(s, t))
        ladd("eq", f"{S} == {T}", s == t, inp=(s, t))
        ladd("eq_route", f"({S} + {T}).substring({n}) == {T}", True, inp=(s, t))
        ladd("lower", f"{S}.lower()", s.lower(), inp=(s,))
        ladd("upper", f"{S}.upper()", s.upper(), inp=(s,))
        ladd("lower_chars", f"{S}.lower().chars().to_array()", list(s.lower()), inp=(s,))
        ladd("upper_len", f"{S}.upper().len()", len(s.upper()), inp=(s,))
        ladd("code_point", f"{S}.code_point()", ord(s) if n == 1 else ERR, inp=(s,))
        ladd("join", f"[{S}, {T}, {S}].join({ND})", nd.join([s, t, s]), inp=(s, t, nd))
        wd = rng.choice([1, max(1, n), n + 1, n + 3])
        fill = chr(rng.choice([0x2A, 0x2A, 0x7A, 0xE9]))
        al = rng.choice("<>^")
        pad = max(0, wd - n)
        want = {"<": s + fill * pad, ">": fill * pad + s, "^": fill * (pad // 2) + s + fill * (pad - pad // 2)}[al]
        if ord(fill) > 127:
            want = ERR      # only ASCII fill characters are accepted (xformatter.rs: "invalid format spec")
        ladd("format", f"{S}.format({lit(fill + al + str(wd))})", want, inp=(s, fill, al, wd))

    # ---- overlapping occurrences: periodic haystacks, self-overlapping needles (a proper prefix is also a suffix), EVERY
    # start / end index 0 .. len+1 for the three-argument forms of find, rfind and contains
    def bordered(n):
        return any(n[:k] == n[-k:] for k in range(1, len(n)))
    units = ["a", "ab", "aab", "aba", "\u65e5", "\u65e5\u672c", "\xe9\U0001F600", "\xdf\xdfa", "\U0001F600"]
    sweeps = []
    for u in units:
        for Ln in (3, 4, 5, 6, 7):
            hs = (u * 8)[:Ln]
            nds = sorted({hs[i:j] for i in range(Ln) for j in range(i + 2, min(Ln, i + 5) + 1) if bordered(hs[i:j]) and hs.count(hs[i:j][:1]) > 1})
            for nd in nds:
                sweeps.append((hs, nd))
    sweeps = sorted(set(sweeps))
    sweeps = [("banana", "ana"), ("aaa", "aa"), ("\u65e5\u672c\u65e5\u672c\u65e5", "\u65e5\u672c\u65e5")] + (rng.sample(sweeps, min(len(sweeps), 150)) if quick else sweeps)
    for hs, nd in sweeps:
        HS, NDL = lit(hs), lit(nd)
        for i in range(0, len(hs) + 2):
            ladd("find_sweep", f"{HS}.find({NDL}, {i})", o_find(hs, nd, i), f"str b.find {cps(hs)} {cps(nd)} {i}", to_model_opt, (hs, nd, i))
            ladd("rfind_sweep", f"{HS}.rfind({NDL}, {i})", o_rfind(hs, nd, i), f"str b.rfind {cps(hs)} {cps(nd)} {i}", to_model_opt, (hs, nd, i))
            ladd("contains_sweep", f"{HS}.contains({NDL}, {i})", ERR if i > len(hs) else (hs.find(nd, i) >= 0), inp=(hs, nd, i))
    chk.coverage["overlap_sweeps"] = len(sweeps)

    # ---- literal spellings: quotes, backslashes, braces, fences, raw and formatted strings
    for _ in range(500 if quick else 15000):
        sp = gen_literal(rng)
        want = o_literal(sp)
        ladd("literal", sp, want, f"lex literal {cps(sp)}", to_model_literal, (sp,))
    for sp, want in [("'it\\'s'", "it's"), ('f"a\\"b"', 'a"b'), ('"\\u{+41}"', "compile-err BadEscapeSequence"), ('"\\u{0000041}"', "compile-err BadEscapeSequence"),
                     ('#"a"b"#', 'a"b'), ('r"a\\nb"', "a\\nb"), ('##"x"#"##', 'x"#'), ('f"{{}}"', "{}"), ('f"{1}}}"', "1}")]:
        ladd("literal", sp, want, inp=(sp,))
    for _ in range(250 if quick else 8000):
        sp, want = gen_fstring(rng)
        ladd("fstring", sp, want, inp=(sp,))
    # witnesses of the repaired defects, replayed on every run
    for expr, want in [('"abc"[5]', ERR), ('"abc"[3]', ERR), ('"a\\u{130}b".lower()[2]', "\u0307"), ('"\\u{e9}a".find("a")', ("some", 1)),
                       ('"\\u{e9}a\\u{e9}".split("a").to_array()', ["é", "é"]), ('"\\u{e9}".substring(1)', ""), ('"\\u{e9}".ends_with("")', True),
                       ('"abc".substring(4, 5)', ERR), ('"abc".find("c", 4)', ERR),
                       ('format_replace("\\u{e9}%nz", (s: str)->{s + s})', "énnz")]:
        ladd("witness", expr, want, inp=(expr,))

    dumps = eval_exprs([c[1] for c in lcases])
    mlines = [(i, c[2]) for i, c in enumerate(lcases) if c[2]]
    mres = dict(zip([i for i, _ in mlines], run_model([l for _, l in mlines])))
    for i, ((name, expr, mline, want, conv, inp), d) in enumerate(zip(lcases, dumps)):
        chk.evaluations += 1
        chk.count("lang:" + name)
        if any(isinstance(x, str) and any(ord(ch) > 127 for ch in x) for x in inp):
            chk.nontrivial.add((name,) + tuple(map(str, inp)))
        got = parse_dump(d)
        replay = {"src": f"let r = {expr};", "get": ["r"], "expected": repr(want), "got": d, "inputs": [repr(x) for x in inp]}
        if got != want or type(got) != type(want):
            kind = "panic" if d.startswith("panic") else ("hang" if d == "hang" else "wrong")
            chk.violation(f"lang:{name}:{kind}", f"{name}{inp!r} evaluates to {d}; on code-point sequences the result is {want!r}", replay)
            continue
        if i in mres:
            gm = conv(mres[i])
            if gm != got:
                chk.violation(f"tie:lang:{name}", f"model disagrees with the implementation (which matches the oracle) on {name}{inp!r}: model={mres[i]} impl={d}",
                              {"src": replay["src"], "model": mline, "model_out": mres[i], "impl": d}, no_input=True)
    for c in lcases[:2]:
        chk.sample({"lang": c[1], "expected": repr(c[3])})

    return chk.finish(rule="strings over an alphabet of ASCII, 2-, 3-, 4-byte characters, combining marks, case-expanding characters and white space "
                           "(incl. the empty string); every index around 0 and len (and ±2^63, ±2^64); needles cut out of the haystack (overlapping, multi-byte), "
                           "empty and random; non-trivial = distinct (operation, inputs) whose string has a non-ASCII character")


def common_lit(n):
    return str(n) if n >= 0 else f"(-{-n})"


def replay(path):
    """re-run the input recorded in a replay file on the current tree and show what comes back"""
    rec = json.load(open(path))
    rp = rec.get("replay", {})
    if "harness" in rp:
        got = run_harness([rp["harness"]], per_req_timeout=30.0)[0]
        shown = got.get("r", got) if isinstance(got, dict) else got
    elif "src" in rp:
        got = run_harness([{"op": "run", "src": rp["src"], "get": rp.get("get", [])}], per_req_timeout=30.0)[0]
        shown = got.get("vals", got) if isinstance(got, dict) else got
    else:
        print("replay: nothing to run in", path, "(a broken proof obligation or correspondence, see 'what')")
        print(rec.get("what"))
        return 1
    print("key     :", rec.get("key"))
    print("what    :", rec.get("what"))
    print("expected:", rp.get("expected"))
    print("now     :", json.dumps(shown, ensure_ascii=False)[:2000])
    bad = isinstance(got, dict) and any(k in got for k in ("panic", "abort", "hang"))
    return 1 if bad else 0
