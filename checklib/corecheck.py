"""Shared driver for the core-language checks (C01, C02, C03, C06, C07, C08): run generated programs
three ways — implementation (harness), Lean model (xmodel, engine `core`), Python reference evaluator
(coregen.RefEval, the independent oracle of the documented semantics) — and turn differences into verdicts."""
import json
from . import coregen as cg
from .common import run_harness, run_model


def limits_json(depth=None, calls=None, rec=None):
    d = {}
    if depth is not None:
        d["depth"] = depth
    if calls is not None:
        d["ud_calls"] = calls
    if rec is not None:
        d["recursion"] = rec
    return d


class Case:
    def __init__(self, ds, tag, depth=None, calls=None, rec=None, printer_rng=None, sugar=True, src=None,
                 model=True, oracle_tco=True, fuel=3000000):
        self.ds, self.tag = ds, tag
        self.depth, self.calls, self.rec = depth, calls, rec
        self.src = src if src is not None else cg.Printer(printer_rng, sugar=sugar).program(ds)
        self.model = model
        self.oracle_tco = oracle_tco
        self.fuel = fuel
        self.names = cg.let_names(ds)

    def req(self):
        return cg.harness_req(self.ds, self.src, limits_json(self.depth, self.calls, self.rec))

    def line(self):
        return cg.model_line(self.ds, self.depth, self.calls, self.rec, True, self.fuel)

    def oracle(self):
        ev = cg.RefEval(self.depth, self.calls, self.rec, tco=self.oracle_tco)
        try:
            r = ev.run(self.ds)
        except cg.Stuck as e:
            return {"outcome": "oracle-stuck " + str(e)}, ev
        except RecursionError:
            return {"outcome": "oracle-recursion"}, ev
        return cg.canon_oracle(r, self.names), ev

    def replay(self, extra=None):
        d = {"src": self.src, "get": self.names, "limits": limits_json(self.depth, self.calls, self.rec),
             "model_request": self.line()}
        if extra:
            d.update(extra)
        return d


def three_way(chk, cases, prop_prefix, with_calls=False, nontrivial=None, per_req_timeout=20.0):
    """Runs all cases; reports violations on chk. Returns list of (case, impl, model, oracle, evaluator)."""
    impl = run_harness([c.req() for c in cases], per_req_timeout=per_req_timeout)
    midx = [i for i, c in enumerate(cases) if c.model]
    mres = dict(zip(midx, run_model([cases[i].line() for i in midx], timeout=1800))) if midx else {}
    out = []
    for i, (c, r) in enumerate(zip(cases, impl)):
        chk.evaluations += 1
        chk.count(f"{prop_prefix}:{c.tag}")
        ci = cg.canon_impl(r, c.names)
        co, ev = c.oracle()
        cm = cg.canon_model(mres[i], c.names) if i in mres else None
        chk.count("outcome:" + ci["outcome"].split(" ")[0].split(":")[0])
        if nontrivial is not None and nontrivial(c, ev):
            chk.nontrivial.add(c.src + json.dumps(limits_json(c.depth, c.calls, c.rec)))
        if co["outcome"].startswith("oracle-"):
            chk.count("oracle-skipped")
            out.append((c, ci, cm, co, ev))
            continue
        if not cg.same(ci, co, with_calls):
            kind = ci["outcome"].split(" ")[0].split(":")[0]
            if kind == "ok":
                kind = "wrong-output" if ci.get("out") != co.get("out") else ("wrong-calls" if ci.get("vals") == co.get("vals") else "wrong-value")
                if co["outcome"] != "ok":
                    kind = "missed-" + co["outcome"]
            elif kind == "viol":
                kind = "viol-" + ci["outcome"][5:] + ("-unexpected" if co["outcome"] == "ok" else "-instead-of-" + co["outcome"])
            chk.violation(f"{prop_prefix}:{c.tag}:{kind}",
                          f"implementation deviates from the documented semantics on a generated program ({c.tag}): impl={json.dumps(ci)[:600]} expected={json.dumps(co)[:600]}",
                          c.replay({"impl": ci, "expected": co}))
        elif cm is not None and not cg.same(cm, ci, with_calls):
            chk.violation(f"tie:{prop_prefix}:{c.tag}",
                          f"Lean core model disagrees with the implementation (which matches the reference evaluator) on a generated program ({c.tag}): model={json.dumps(cm)[:600]} impl={json.dumps(ci)[:600]}",
                          c.replay({"impl": ci, "model": cm}), no_input=True)
        out.append((c, ci, cm, co, ev))
    return out


def replay_file(path, prop):
    """./check Cxx --replay file : re-run the recorded program on the implementation and print what it does."""
    d = json.load(open(path))
    rp = d.get("replay", {})
    if "src" not in rp:
        print("replay file has no program; it names a broken obligation:", json.dumps(rp)[:2000])
        return 1
    r = run_harness([{"op": "run", "src": rp["src"], "get": rp.get("get", []), "limits": rp.get("limits", {})}])[0]
    ci = cg.canon_impl(r, rp.get("get", []))
    print("implementation now:", json.dumps(ci))
    print("expected          :", json.dumps(rp.get("expected")))
    if rp.get("expected") is not None and not cg.same(ci, rp["expected"]):
        print(f"VIOLATION property={prop} replay={path}")
        return 1
    print("replay: the recorded input no longer fails")
    return 0
