"""C08 — Depth, recursion, call and search limits are exact and transparent.
Proofs: lean/Props/C08.lean over lean/XrayModel/Core.lean.
Tie: for generated core programs the Python reference evaluator computes the needs (max frame height, user calls,
max consecutive tail calls); every limit value from 1 to need+2 is then run (each limit alone and combined) on the
implementation, the Lean model and the oracle; host histories run_function* / reset on one runtime (implementation vs
oracle); the search limit through searching builtins (implementation vs Python oracle)."""
from .common import *
from . import coregen as cg
from .corecheck import Case, three_way, replay_file
from .c07 import templates, build, I, V, C, CARRIERS


def run(chk):
    rng = chk.rng
    quick = chk.tier == "quick"
    chk.trusted += [
        "checklib/coregen.py RefEval: independent Python evaluator of the documented semantics incl. the limit rules as the property states them (oracle)",
        "theorems are about the named-level core model (XrayModel/Core.lean); the search limit is covered by the tie only",
    ]
    if not chk.prove():
        handle_broken(chk)
    progs = []
    for i in range(14 if quick else 300):
        g = cg.Gen(rng, max_depth=4)
        ds = g.program(rng.choice([4, 6, 8]))
        progs.append(("random", ds))
    for tm in templates():
        for n in ([3, 6] if quick else [0, 1, 3, 6, 12]):
            progs.append(("tmpl-" + tm[0], build(tm, n)))
    cases = []
    for tag, ds in progs:
        ev = cg.RefEval()
        try:
            ev.run(ds)
        except Exception:
            continue
        if ev.all_calls == 0:
            continue
        src = cg.Printer(rng).program(ds)
        cap = 14 if quick else 80
        for l in range(1, min(ev.max_depth, cap) + 3):
            cases.append(Case(ds, f"{tag}:depth", depth=l, src=src))
        for l in range(1, min(ev.all_calls, cap) + 3):
            cases.append(Case(ds, f"{tag}:calls", calls=l, src=src))
        for l in range(0, min(ev.max_rec, cap) + 2):
            cases.append(Case(ds, f"{tag}:rec", rec=l, src=src))
        for _ in range(3 if quick else 12):
            cases.append(Case(ds, f"{tag}:combined", depth=rng.randrange(1, ev.max_depth + 3), calls=rng.randrange(1, ev.all_calls + 3),
                              rec=rng.randrange(0, ev.max_rec + 2), src=src))
        cases.append(Case(ds, f"{tag}:unlimited", src=src))
    res = three_way(chk, cases, "c08", with_calls=True, nontrivial=lambda c, ev: True)
    nv = sum(1 for c, ci, cm, co, ev in res if ci["outcome"].startswith("viol"))
    chk.coverage["runs_ending_in_violation"] = nv
    chk.coverage["runs_passing_under_a_limit"] = sum(1 for c, ci, cm, co, ev in res if ci["outcome"] == "ok" and (c.depth or c.calls or c.rec is not None))
    for c, ci, cm, co, ev in res[:1] + res[-1:]:
        chk.sample({"program": c.src, "limits": {"depth": c.depth, "calls": c.calls, "rec": c.rec}, "impl": ci["outcome"]})

    # ---- host histories: run_function* ; reset on one runtime (implementation vs oracle)
    hist = []
    for i in range(40 if quick else 600):
        k = rng.choice([1, 2, 3])
        fns = []
        for j in range(k):
            depth = rng.choice([0, 1, 2, 4])
            body = I(j)
            # m{j}() makes `depth` nested user calls through helper h
            for _ in range(depth):
                body = C('h', body)
            fns.append(('fn', f'm{j}', [], 'int', [], body))
        ds = [('fn', 'h', [('x', 'int', None)], 'int', [], C('add', V('x'), I(1)))] + fns
        L = rng.choice([2, 3, 4, 6, 9])
        seq = []
        for _ in range(rng.choice([2, 4, 7])):
            if rng.random() < 0.25:
                seq.append(('reset',))
            seq.append(('call', f'm{rng.randrange(k)}'))
        hist.append((ds, L, seq))
    reqs = []
    for ds, L, seq in hist:
        calls = []
        pending_reset = False
        for h in seq:
            if h[0] == 'reset':
                pending_reset = True
            else:
                calls.append({"fn": h[1], "reset": pending_reset})
                pending_reset = False
        reqs.append({"op": "run", "src": cg.Printer(None, sugar=False).program(ds), "get": [], "calls": calls, "limits": {"ud_calls": L}})
    impl = run_harness(reqs)
    for (ds, L, seq), req, r in zip(hist, reqs, impl):
        chk.evaluations += 1
        chk.count("c08:host-history")
        ev = cg.RefEval(calls=L)
        inst, outs = ev.run_host(ds, seq)
        got = [cg.strip_tags(x) for x in r.get("calls", [])] if "calls" in r else [json.dumps(r)[:200]]
        chk.nontrivial.add(json.dumps(req))
        if got != outs:
            chk.violation("c08:host-history:wrong", f"host history under ud_call_limit={L}: implementation answers {got}, the documented counting gives {outs}",
                          {"harness": req, "expected": outs, "got": got})
    chk.sample({"host_history": reqs[0], "answers": impl[0].get("calls")})

    # ---- search limit through searching builtins (implementation vs Python oracle)
    sexprs, want = [], []
    for L in ([1, 2, 5, 10] if quick else list(range(1, 25))):
        for k in [0, 1, L - 1, L, L + 1, L + 5]:
            if k < 0:
                continue
            # first element satisfying x >= k in count(): examines k+1 elements
            sexprs.append((L, f"count().nth(0, (x: int)->{{x >= {k}}})", "(some (int S %d))" % k if k + 1 <= L else "VIOL"))
            sexprs.append((L, f"range(1000).to_generator().skip_until((x: int)->{{x >= {k}}}).take(1).to_array()", None))
    byL = {}
    for L, e, w in sexprs:
        byL.setdefault(L, []).append((e, w))
    for L, items in byL.items():
        dumps = eval_exprs([e for e, w in items], limits={"search": L}, chunk=1)
        for (e, w), d in zip(items, dumps):
            chk.evaluations += 1
            chk.count("c08:search")
            if w is None:
                if d.startswith("panic") or d.startswith("abort") or d == "hang":
                    chk.violation("c08:search:crash", f"{e} under maximum_search={L}: {d}", {"src": f"let r = {e};", "limits": {"search": L}})
                continue
            got = "VIOL" if d.startswith("viol MaximumSearch") else d
            if got != w:
                chk.violation("c08:search:inexact", f"{e} under maximum_search={L} gives {d}; expected {w} (a search may examine at most L elements)",
                              {"src": f"let r = {e};", "get": ["r"], "limits": {"search": L}, "expected": w, "got": d})
    search_exactness(chk, rng, 60 if quick else 700)
    carrier_limits(chk, quick)
    # ---- the whole exported library surface: under any call / depth / search limit a call that runs user callbacks ends
    #      in that limit's violation or in exactly the unlimited outcome, monotonically in the limit
    from . import libprobe
    libprobe.limit_transparency(chk, rng, 1 if quick else 6, prefix="c08")
    return chk.finish(rule="for each generated program (random core programs and 14 recursion templates) the oracle computes max frame height, number of user calls and max consecutive "
                           "tail calls; every limit value 1..need+2 is run alone, plus random combinations and the unlimited run; host histories of run_function/reset under a call limit; "
                           "searching builtins under search limits around the number of examined elements; non-trivial = every run under a limit; distinct by source + limits")


def replay(path):
    return replay_file(path, "C08")


# ---------------------------------------------------------------------------------------------- search exactness
def _scan(vals, pred, i):
    """number of elements a scan for the (i+1)-th match (i >= 0: forward; i < 0: backward, |i|-th) examines"""
    order = list(vals) if i >= 0 else list(reversed(vals))
    want = i + 1 if i >= 0 else -i
    seen = 0
    for n, v in enumerate(order, 1):
        if pred(v):
            seen += 1
            if seen == want:
                return n
    return len(order)


def search_exactness(chk, rng, ncases):
    """Every searching builtin, in every direction and through the library wrappers: with maximum_search = L the
    evaluation is a MaximumSearch violation exactly when the scan has to examine more than L elements (the number is
    computed here, independently, from the list semantics of the call), and otherwise the result is the unlimited
    one.  Families: nth (forward and backward index), first / last / any / all (wrappers), take_while / skip_until on
    sequences, nth / first / any / all on finite and infinite generators, and the element-wise eq / cmp / to_str / hash
    of sequences."""
    cases = []      # (expression, examined)

    def pred_of():
        k = rng.choice(["ge", "lt", "mod", "eq"])
        if k == "ge":
            t = rng.randint(-2, 14)
            return f"(x: int)->{{x >= {lit(t)}}}", (lambda v, t=t: v >= t)
        if k == "lt":
            t = rng.randint(-2, 14)
            return f"(x: int)->{{x < {lit(t)}}}", (lambda v, t=t: v < t)
        if k == "eq":
            t = rng.randint(0, 12)
            return f"(x: int)->{{x == {t}}}", (lambda v, t=t: v == t)
        m = rng.choice([2, 3, 5]); r = rng.randrange(m)
        return f"(x: int)->{{x % {m} == {r}}}", (lambda v, m=m, r=r: v % m == r)

    def source():
        n = rng.choice([0, 1, 2, 3, 5, 8, 12, 20])
        kind = rng.choice(["range", "array", "rev", "mapped"])
        if kind == "range":
            return f"range({n})", list(range(n))
        if kind == "rev":
            return f"range({n}).reverse()", list(reversed(range(n)))
        vals = [rng.randint(0, 12) for _ in range(n)]
        if kind == "mapped" and n:
            return "[" + ", ".join(str(v - 1) for v in vals) + "].map((x: int)->{x + 1})", vals
        return ("[" + ", ".join(map(str, vals)) + "]") if n else "range(0)", vals

    for _ in range(ncases):
        fam = rng.choice(["nth", "nth", "nth-", "nth-", "first", "last", "any", "all", "take_while", "skip_until",
                          "gen-nth", "gen-first", "gen-any", "inf-nth", "eq", "cmp", "to_str", "hash"])
        src, vals = source()
        ptxt, pf = pred_of()
        if fam in ("nth", "nth-"):
            i = rng.randint(0, 4) if fam == "nth" else -rng.randint(1, 4)
            cases.append((f"nth({src}, {lit(i)}, {ptxt})", _scan(vals, pf, i)))
        elif fam == "first":
            cases.append((f"first({src}, {ptxt})", _scan(vals, pf, 0)))
        elif fam == "last":
            cases.append((f"last({src}, {ptxt})", _scan(vals, pf, -1)))
        elif fam == "any":
            cases.append((f"any({src}, {ptxt})", _scan(vals, pf, 0)))
        elif fam == "all":
            cases.append((f"all({src}, {ptxt})", _scan(vals, lambda v: not pf(v), 0)))
        elif fam == "take_while":
            cases.append((f"take_while({src}, {ptxt}).to_array()", _scan(vals, lambda v: not pf(v), 0)))
        elif fam == "skip_until":
            cases.append((f"skip_until({src}, {ptxt}).to_array()", _scan(vals, pf, 0)))
        elif fam == "gen-nth":
            i = rng.randint(0, 4)
            cases.append((f"nth({src}.to_generator(), {i}, {ptxt})", _scan(vals, pf, i)))
        elif fam == "gen-first":
            cases.append((f"first({src}.to_generator(), {ptxt})", _scan(vals, pf, 0)))
        elif fam == "gen-any":
            cases.append((f"any({src}.to_generator(), {ptxt})", _scan(vals, pf, 0)))
        elif fam == "inf-nth":
            t = rng.randint(0, 14); i = rng.randint(0, 3)
            cases.append((f"nth(count().to_generator(), {i}, (x: int)->{{x >= {t}}})", t + i + 1))
        else:
            src2, vals2 = source()
            if rng.random() < 0.6:          # mostly a copy with one element changed, or a prefix: long common prefixes
                vals2 = list(vals)
                if vals2 and rng.random() < 0.7:
                    j = rng.randrange(len(vals2)); vals2[j] += rng.choice([-1, 1])
                elif rng.random() < 0.5:
                    vals2 = vals2[:rng.randint(0, len(vals2))]
                src2 = ("[" + ", ".join(map(str, vals2)) + "]") if vals2 else "range(0)"
            common_prefix = 0
            for a, b in zip(vals, vals2):
                common_prefix += 1
                if a != b:
                    break
            if fam == "eq":
                cases.append((f"({src} == {src2})", common_prefix if len(vals) == len(vals2) else 0))
            elif fam == "cmp":
                cases.append((f"cmp({src}, {src2})", common_prefix))
            elif fam == "to_str":
                cases.append((f"to_str({src})", len(vals)))
            else:
                cases.append((f"hash({src})", len(vals)))
    runs = []
    for e, ex in cases:
        for L in sorted({1, 2, max(1, ex - 1), max(1, ex), ex + 1, ex + 3, rng.randint(1, 25)}):
            runs.append((e, ex, L))
    base = eval_exprs([e for e, ex in cases], limits={"ud_calls": 100000, "time_ms": 5000}, chunk=20)
    unl = {e: d for (e, ex), d in zip(cases, base)}
    byL = {}
    for e, ex, L in runs:
        byL.setdefault(L, []).append((e, ex))
    for L, items in sorted(byL.items()):
        dumps = eval_exprs([e for e, ex in items], limits={"search": L, "ud_calls": 100000, "time_ms": 5000}, chunk=1)
        for (e, ex), d in zip(items, dumps):
            chk.evaluations += 1
            chk.count("c08:search-exact")
            fam = e.split("(")[0] or "eq"
            chk.count(f"c08:search-exact:{fam}:{'over' if ex > L else 'within'}")
            want = "viol MaximumSearch" if ex > L else unl[e]
            if unl[e] in ("hang", "abort") or unl[e].startswith("panic") or unl[e].startswith("compile-err"):
                chk.count("c08:search-exact:skipped:" + unl[e].split()[0])
                continue
            chk.nontrivial.add(f"{e}@{L}")
            ok = d.startswith("viol MaximumSearch") if ex > L else d == want
            if not ok:
                chk.violation(f"c08:search:inexact:{fam}:{'missed' if ex > L else 'early'}",
                              f"`{e}` has to examine {ex} element(s); under maximum_search={L} the implementation gives {d}, expected {want} "
                              f"(a violation exactly when more than L elements are examined, else the unlimited result)",
                              {"src": f"let r = {e};", "get": ["r"], "limits": {"search": L}, "expected": want, "got": d, "examined": ex})
    chk.sample({"search-exact": cases[0][0], "examined": cases[0][1]})


# ---------------------------------------------------------------------------------------------- carriers under limits
def carrier_limits(chk, quick):
    """A tail self-call through each documented carrier of the tail slot outside the core model (cast, tuple `and`,
    optional or / map_or / and and their operator spellings, if_error with a specific message) is one frame, one user
    call and n tail iterations: under every limit configuration the outcome is MaximumRecursion exactly when n exceeds
    the recursion limit, and otherwise precisely the unlimited value (closed form) - never MaximumStackDepth or
    MaximumUDCall, whatever n."""
    reqs, meta = [], []
    for name, fn, want in CARRIERS:
        for n in [0, 1, 2, 10, 40] + ([] if quick else [1000, 20000]):
            lims = [{"depth": 3}, {"ud_calls": 3}, {"depth": 3, "ud_calls": 3}, {"recursion": n}, {"recursion": n + 1},
                    {"recursion": max(n - 1, 0), "depth": 3, "ud_calls": 3}, {"recursion": max(n // 2, 0)}, {"recursion": n + 5, "depth": 2 + 1, "ud_calls": 2 + 1}]
            for lim in lims:
                reqs.append({"op": "run", "src": fn + f"\nlet r = t({n}, 0);\n", "get": ["r"], "limits": lim})
                meta.append((name, n, lim, want(n)))
    for (name, n, lim, want), req, r in zip(meta, reqs, run_harness(reqs, per_req_timeout=60.0)):
        chk.evaluations += 1
        chk.count("c08:carrier:" + name)
        chk.nontrivial.add(("carrier", name, n, json.dumps(lim)))
        ci = cg.canon_impl(r, ["r"])
        expect_viol = "recursion" in lim and n > lim["recursion"]
        ok = (ci["outcome"] == "viol:MaximumRecursion") if expect_viol else (ci["outcome"] == "ok" and r["vals"]["r"] == want)
        if not ok:
            kind = ci["outcome"].split(" ")[0].replace(":", "-") if ci["outcome"] != "ok" else "wrong-value"
            chk.violation(f"c08:carrier:{name}:{kind}",
                          f"`t({n}, 0)` with the tail self-call inside the documented carrier `{name}` under limits {lim}: implementation {json.dumps(ci)[:300]}; "
                          f"expected {'MaximumRecursion' if expect_viol else want} (one frame, one user call, {n} tail iterations: only the recursion limit can end it)",
                          {"src": req["src"], "get": ["r"], "limits": lim,
                           "expected": {"outcome": "viol:MaximumRecursion"} if expect_viol else {"outcome": "ok", "vals": {"r": cg.strip_tags(want)}, "out": []}})
