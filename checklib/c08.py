"""C08 — Depth, recursion, call and search limits are exact and transparent.
Proofs: lean/Props/C08.lean over lean/XrayModel/Core.lean.
Tie: for generated core programs the Python reference evaluator computes the needs (max frame height, user calls,
max consecutive tail calls); every limit value from 1 to need+2 is then run (each limit alone and combined) on the
implementation, the Lean model and the oracle; host histories run_function* / reset on one runtime (implementation vs
oracle); the search limit through searching builtins (implementation vs Python oracle)."""
from .common import *
from . import coregen as cg
from .corecheck import Case, three_way, replay_file
from .c07 import templates, build, I, V, C


def run(chk):
    rng = chk.rng
    quick = chk.tier == "quick"
    chk.trusted += [
        "checklib/coregen.py RefEval: independent Python evaluator of the documented semantics incl. the limit rules as the property states them (oracle)",
        "theorems are about the named-level core model (XrayModel/Core.lean); the search limit is covered by the tie only",
    ]
    if not chk.prove():
        handle_broken(chk)
    progs = []
    for i in range(14 if quick else 300):
        g = cg.Gen(rng, max_depth=4)
        ds = g.program(rng.choice([4, 6, 8]))
        progs.append(("random", ds))
    for tm in templates():
        for n in ([3, 6] if quick else [0, 1, 3, 6, 12]):
            progs.append(("tmpl-" + tm[0], build(tm, n)))
    cases = []
    for tag, ds in progs:
        ev = cg.RefEval()
        try:
            ev.run(ds)
        except Exception:
            continue
        if ev.all_calls == 0:
            continue
        src = cg.Printer(rng).program(ds)
        cap = 14 if quick else 80
        for l in range(1, min(ev.max_depth, cap) + 3):
            cases.append(Case(ds, f"{tag}:depth", depth=l, src=src))
        for l in range(1, min(ev.all_calls, cap) + 3):
            cases.append(Case(ds, f"{tag}:calls", calls=l, src=src))
        for l in range(0, min(ev.max_rec, cap) + 2):
            cases.append(Case(ds, f"{tag}:rec", rec=l, src=src))
        for _ in range(3 if quick else 12):
            cases.append(Case(ds, f"{tag}:combined", depth=rng.randrange(1, ev.max_depth + 3), calls=rng.randrange(1, ev.all_calls + 3),
                              rec=rng.randrange(0, ev.max_rec + 2), src=src))
        cases.append(Case(ds, f"{tag}:unlimited", src=src))
    res = three_way(chk, cases, "c08", with_calls=True, nontrivial=lambda c, ev: True)
    nv = sum(1 for c, ci, cm, co, ev in res if ci["outcome"].startswith("viol"))
    chk.coverage["runs_ending_in_violation"] = nv
    chk.coverage["runs_passing_under_a_limit"] = sum(1 for c, ci, cm, co, ev in res if ci["outcome"] == "ok" and (c.depth or c.calls or c.rec is not None))
    for c, ci, cm, co, ev in res[:1] + res[-1:]:
        chk.sample({"program": c.src, "limits": {"depth": c.depth, "calls": c.calls, "rec": c.rec}, "impl": ci["outcome"]})

    # ---- host histories: run_function* ; reset on one runtime (implementation vs oracle)
    hist = []
    for i in range(40 if quick else 600):
        k = rng.choice([1, 2, 3])
        fns = []
        for j in range(k):
            depth = rng.choice([0, 1, 2, 4])
            body = I(j)
            # m{j}() makes `depth` nested user calls through helper h
            for _ in range(depth):
                body = C('h', body)
            fns.append(('fn', f'm{j}', [], 'int', [], body))
        ds = [('fn', 'h', [('x', 'int', None)], 'int', [], C('add', V('x'), I(1)))] + fns
        L = rng.choice([2, 3, 4, 6, 9])
        seq = []
        for _ in range(rng.choice([2, 4, 7])):
            if rng.random() < 0.25:
                seq.append(('reset',))
            seq.append(('call', f'm{rng.randrange(k)}'))
        hist.append((ds, L, seq))
    reqs = []
    for ds, L, seq in hist:
        calls = []
        pending_reset = False
        for h in seq:
            if h[0] == 'reset':
                pending_reset = True
            else:
                calls.append({"fn": h[1], "reset": pending_reset})
                pending_reset = False
        reqs.append({"op": "run", "src": cg.Printer(None, sugar=False).program(ds), "get": [], "calls": calls, "limits": {"ud_calls": L}})
    impl = run_harness(reqs)
    for (ds, L, seq), req, r in zip(hist, reqs, impl):
        chk.evaluations += 1
        chk.count("c08:host-history")
        ev = cg.RefEval(calls=L)
        inst, outs = ev.run_host(ds, seq)
        got = [cg.strip_tags(x) for x in r.get("calls", [])] if "calls" in r else [json.dumps(r)[:200]]
        chk.nontrivial.add(json.dumps(req))
        if got != outs:
            chk.violation("c08:host-history:wrong", f"host history under ud_call_limit={L}: implementation answers {got}, the documented counting gives {outs}",
                          {"harness": req, "expected": outs, "got": got})
    chk.sample({"host_history": reqs[0], "answers": impl[0].get("calls")})

    # ---- search limit through searching builtins (implementation vs Python oracle)
    sexprs, want = [], []
    for L in ([1, 2, 5, 10] if quick else list(range(1, 25))):
        for k in [0, 1, L - 1, L, L + 1, L + 5]:
            if k < 0:
                continue
            # first element satisfying x >= k in count(): examines k+1 elements
            sexprs.append((L, f"count().nth(0, (x: int)->{{x >= {k}}})", "(some (int S %d))" % k if k + 1 <= L else "VIOL"))
            sexprs.append((L, f"range(1000).to_generator().skip_until((x: int)->{{x >= {k}}}).take(1).to_array()", None))
    byL = {}
    for L, e, w in sexprs:
        byL.setdefault(L, []).append((e, w))
    for L, items in byL.items():
        dumps = eval_exprs([e for e, w in items], limits={"search": L}, chunk=1)
        for (e, w), d in zip(items, dumps):
            chk.evaluations += 1
            chk.count("c08:search")
            if w is None:
                if d.startswith("panic") or d.startswith("abort") or d == "hang":
                    chk.violation("c08:search:crash", f"{e} under maximum_search={L}: {d}", {"src": f"let r = {e};", "limits": {"search": L}})
                continue
            got = "VIOL" if d.startswith("viol MaximumSearch") else d
            if got != w:
                chk.violation("c08:search:inexact", f"{e} under maximum_search={L} gives {d}; expected {w} (a search may examine at most L elements)",
                              {"src": f"let r = {e};", "get": ["r"], "limits": {"search": L}, "expected": w, "got": d})
    # ---- the whole exported library surface: under any call / depth / search limit a call that runs user callbacks ends
    #      in that limit's violation or in exactly the unlimited outcome, monotonically in the limit
    from . import libprobe
    libprobe.limit_transparency(chk, rng, 1 if quick else 6, prefix="c08")
    return chk.finish(rule="for each generated program (random core programs and 14 recursion templates) the oracle computes max frame height, number of user calls and max consecutive "
                           "tail calls; every limit value 1..need+2 is run alone, plus random combinations and the unlimited run; host histories of run_function/reset under a call limit; "
                           "searching builtins under search limits around the number of examined elements; non-trivial = every run under a limit; distinct by source + limits")


def replay(path):
    return replay_file(path, "C08")
