"""C10 — adversarial-argument termination sweep over EVERY library function with numeric parameters.

The functions are enumerated from the signature hook (`c01.library_signatures`), so a new builtin is picked up without
touching this file.  Every int / float parameter position gets values from a boundary pool (0, ±1, ±2, 3, 10, 2^31±1,
2^32±1, 2^53, 2^61, 2^62, 2^63-1 … 2^64+1, 10^18, 10^19, 10^30 and their negatives; floats: 0, ±tiny, ±huge, 2^53) while
the other positions stay small; operator spellings (`**`, `*` on ints / strings / sequences, unary minus, `%`, `/`) and
length-like methods are added explicitly.  Every call runs under finite size / search / call / time limits in a watched
child whose address space is capped.  No value oracle: the only demand is the property's — the request returns (a value,
an error value or a violation) within the deadline and the process does not grow without bound.
  adv:<fn>:hang   no answer within the deadline (confirmed by a solo re-run with the long watchdog)
  adv:<fn>:abort  the child died (allocation failure under the address-space cap, stack overflow)
Panics are counted in the evidence only (they are C01's / C14's subject, not a termination failure)."""
import resource
from .common import *
from . import c01 as L
from . import c10 as base

LIMITS = {"search": 2000, "ud_calls": 10000, "size": 20_000_000, "time_ms": 300, "depth": 1000, "recursion": 20000}
ANSWER = 8.0          # seconds (times the measured slowdown) a call may stay silent before it is re-run alone
WATCHDOG = 40.0       # … and under this deadline (times the slowdown) a silent call is a hang
AS_CAP = 3 << 30      # address-space cap of a harness child (its serving thread reserves 1 GiB of stack)

POS = [0, 1, 2, 3, 10, 2**31 - 1, 2**31 + 1, 2**32 - 1, 2**32 + 1, 2**53, 2**61, 2**62, 2**63 - 1, 2**63, 2**63 + 1,
       2**64 - 1, 2**64, 2**64 + 1, 10**18, 10**19, 10**30]
INT_POOL = POS + [-v for v in POS if v]
HUGE = [v for v in INT_POOL if abs(v) >= 2**61]
FLOAT_POOL = ["0.0", "1.0", "-1.0", "0.5", "1e-300", "-1e-300", "1e300", "-1e300", "9007199254740992.0", "1e18", "-1e18", "123456.789"]

OPERATORS = [
    # (name, template over int placeholders {a} {b})
    ("op **", "{a} ** {b}"), ("op *", "{a} * {b}"), ("op str*", "'ab' * {a}"), ("op seq*", "[1, 2] * {a}"),
    ("op +", "{a} + {b}"), ("op -", "{a} - {b}"), ("op %", "{a} % {b}"), ("op /", "{a} / {b}"), ("op neg", "-{a}"),
    ("range.len", "range({a}).len()"), ("range.last", "range({a}).get({b})"), ("range3", "range({a}, {b}, 3).len()"),
    ("count.take.len", "count().take({a}).len()"), ("count.skip", "count().skip({a}).take(2).to_array()"),
    ("gen.take.skip", "count().to_generator().take({a}).skip({b}).take(1).to_array()"),
    ("gen.repeat(n)", "[1, 2].to_generator().repeat({a}).take(2).to_array()"),
    ("seq.repeat(n)", "[1, 2].repeat({a}).len()"), ("str.format", "format({a}, '0{b}')"),
    ("to_str.len", "({a} ** 3).to_str().len()"), ("digits", "digits({a}, {b}).len()"), ("bin-chain", "({a} * {a}) * ({b} * {b})"),
    ("pow-of-pow", "({a} ** 3) ** {b}"), ("shift-like", "{a} * 2 ** {b}"),
]


def lit(n):
    return str(n) if n >= 0 else f"(-{-n})"


PRODUCERS = {}


class Unsupported(Exception):
    pass


def small(t):
    """a small benign argument of type t (generics := int)"""
    if t == 'int' or (isinstance(t, tuple) and t[0] == 'G'):
        return "3"
    if t == 'float':
        return "1.5"
    if t == 'str':
        return "'ab'"
    if t == 'bool':
        return "true"
    if isinstance(t, tuple) and t[0] == 'N':
        if t[1] == 'Sequence':
            e = t[2][0]
            if e == 'int' or (isinstance(e, tuple) and e[0] == 'G'):
                return "[1, 2, 3]"
            if e == 'float':
                return "[1.5, 2.5, 3.5]"
            if e == 'str':
                return "['a', 'b']"
            if e == 'bool':
                return "[true, false]"
            raise Unsupported(L.ts(t))
        if t[1] == 'Generator':
            e = t[2][0]
            if e == 'int' or (isinstance(e, tuple) and e[0] == 'G'):
                return "[1, 2, 3].to_generator()"
            if e == 'float':
                return "[1.5, 2.5].to_generator()"
            raise Unsupported(L.ts(t))
        if L.ts(t) in PRODUCERS:
            fn, req = PRODUCERS[L.ts(t)][0]
            return f"{fn}(" + ", ".join(small(L.parse_type(q) if isinstance(q, str) and q not in ('int', 'float', 'str', 'bool') else q) for q in req) + ")"
        raise Unsupported(L.ts(t))
    if isinstance(t, tuple) and t[0] == 'T':
        return "(" + ", ".join(small(a) for a in t[1]) + ")"
    if isinstance(t, tuple) and t[0] == 'F':
        from . import c16_lazy
        try:
            return c16_lazy.lam(c16_lazy.subst(t), True)
        except c16_lazy.Unsupported as e:
            raise Unsupported(str(e))
    raise Unsupported(L.ts(t))


def calls_for(name, sig, rng, full):
    """[(function key, expression)] with an adversarial value in each int / float position"""
    gs, ps, ret = L.parse_sig(sig)
    req = [t for t, r in ps if r]
    opt = [t for t, r in ps if not r]
    variants = [req] + ([req + opt] if opt else [])
    out = []
    for params in variants:
        base_args = [small(t) for t in params]
        for i, t in enumerate(params):
            if t == 'int' or (isinstance(t, tuple) and t[0] == 'G' and len(gs) and False):
                pool = INT_POOL if full else [2**62, 2**64, rng.choice(HUGE), rng.choice(INT_POOL)]
                for v in pool:
                    args = list(base_args)
                    args[i] = lit(v)
                    out.append((name, f"{name}(" + ", ".join(args) + ")"))
            elif t == 'float':
                pool = FLOAT_POOL if full else [rng.choice(FLOAT_POOL), rng.choice(["1e300", "-1e300", "1e18"])]
                for v in pool:
                    args = list(base_args)
                    args[i] = v if not v.startswith("-") else f"(-{v[1:]})"
                    out.append((name, f"{name}(" + ", ".join(args) + ")"))
        # two huge ints at once (exponent and base, length and count, ...)
        ints = [i for i, t in enumerate(params) if t == 'int']
        if len(ints) >= 2:
            for _ in range(len(HUGE) if full else 2):
                args = list(base_args)
                for i in ints:
                    args[i] = lit(rng.choice(HUGE + [2, 3, 10]))
                out.append((name, f"{name}(" + ", ".join(args) + ")"))
    return out


def operator_calls(rng, full):
    out = []
    for name, tmpl in OPERATORS:
        n = len(INT_POOL) if full else 5
        for k in range(n):
            a = INT_POOL[k] if full else ([3, 2**62, 2**64][k] if k < 3 else rng.choice(INT_POOL))
            for b in ([2, 3, 10] + HUGE if full else [rng.choice([2, 3, 10]), 2**62, rng.choice(HUGE)]):
                out.append((name, tmpl.format(a=lit(a), b=lit(b))))
                if "{b}" not in tmpl:
                    break
    return out


def _capped_worker_start():
    resource.setrlimit(resource.RLIMIT_AS, (AS_CAP, AS_CAP))


def run_capped(reqs, timeout, jobs=None):
    """base.run_watched with an address-space cap on every child"""
    import subprocess as sp
    orig = sp.Popen

    def popen(*a, **kw):
        kw.setdefault("preexec_fn", _capped_worker_start)
        return orig(*a, **kw)
    sp.Popen = popen
    try:
        return base.run_watched(reqs, timeout, jobs=jobs)
    finally:
        sp.Popen = orig


def run_sweep(chk):
    rng = chk.rng
    full = chk.tier != "quick"
    sigs = L.library_signatures()
    calls, unsupported, nfun = [], [], 0
    PRODUCERS.clear()
    PRODUCERS.update(L.build_producers(sigs))
    for name in sorted(sigs):
        if name.startswith("__") or name in ("now", "sleep", "print", "display", "random", "error"):
            continue
        for s in sigs[name]:
            if s.startswith("dyn:"):
                continue
            try:
                cs = calls_for(name, s, rng, full)
            except (Unsupported, ValueError) as e:
                if "int" in s or "float" in s:
                    unsupported.append(f"{name} {s}")
                continue
            if cs:
                nfun += 1
                calls.extend(cs)
    calls.extend(operator_calls(rng, full))
    # the same expression may arise several times
    seen, uniq = set(), []
    for c in calls:
        if c[1] not in seen:
            seen.add(c[1])
            uniq.append(c)
    calls = uniq
    chk.count("adv:functions", nfun)
    chk.count("adv:calls", len(calls))
    chk.coverage["adv_unsupported_signatures"] = len(unsupported)
    chk.coverage["adv_unsupported_sample"] = unsupported[:12]
    _execute(chk, calls, "adv", LIMITS)


def _execute(chk, calls, prefix, limits):
    """run the calls [(key part, expression)] one request at a time in watched, memory-capped children; report silence
    (confirmed alone under the long deadline) and dead children as `<prefix>:<key part>:hang|abort`"""
    slow = L.slowdown()
    reqs = [{"op": "run", "src": f"let a = {e};", "get": ["a"], "limits": limits} for _, e in calls]
    res = run_capped(reqs, ANSWER * slow, jobs=8)
    again = [i for i, r in enumerate(res) if "hang" in r or "abort" in r]
    # a silent call is confirmed alone under the long deadline; only the first CONFIRM suspects are (a change that makes
    # many calls hang must still be reported in reasonable time), the others are counted, not reported
    CONFIRM = 6
    if again:
        res2 = run_capped([reqs[i] for i in again[:CONFIRM]], WATCHDOG * min(slow, 3.0), jobs=CONFIRM)
        for i, r in zip(again[:CONFIRM], res2):
            res[i] = r
        for i in again[CONFIRM:]:
            res[i] = {"unconfirmed": True}
            chk.count(f"{prefix}:silent-not-confirmed")
    for (fn, e), r in zip(calls, res):
        chk.evaluations += 1
        if "unconfirmed" in r:
            continue
        f = base.c16._fail(r)
        kind = ("hang" if f == "HANG" else "abort" if f and f.startswith("panic abort") else "panic" if f and f.startswith("panic")
                else "compile" if f and f.startswith("COMPILE") else "violation" if f and f.startswith("viol") else
                "error" if (f is None and str(r["vals"].get("a", "")).startswith("(error")) else "value")
        chk.count(f"{prefix}:" + kind)
        chk.nontrivial.add(e)
        if kind in ("hang", "abort"):
            chk.violation(f"{prefix}:{fn}:{kind}",
                          f"`let a = {e};` under {limits}: " + ("no answer within %.0f s" % (WATCHDOG * min(slow, 3.0)) if kind == "hang" else f"the interpreter process died ({f[:160]})"),
                          {"op": "run", "src": f"let a = {e};", "get": ["a"], "limits": limits, "got": f, "expect_answer": True})
        elif kind in ("panic", "compile"):
            chk.coverage.setdefault(f"{prefix}_{kind}s", [])
            if len(chk.coverage[f"{prefix}_{kind}s"]) < 20:
                chk.coverage[f"{prefix}_{kind}s"].append(f"{e} => {f[:140]}")


# ------------------------------------------------------------------------------------------ native-loop proportionality
LOOP_LIMITS = {"search": 1000, "ud_calls": 10000, "size": 20_000_000, "time_ms": 300, "depth": 1000, "recursion": 20000}
HUGE_SEQS = [("range", "range(0, 10**15)"), ("range.reverse", "range(10**15).reverse()"), ("count.take", "count().take(10**15)"),
             ("range.map", "range(10**15).map(neg{int})")]
INDEXES = [0, 1, -1, -2, 10**14, -(10**14)]
PREFERRED = {(1, 'bool'): ["is_error"], (2, 'bool'): ["eq", "lt", "ne"], (1, 'int'): ["neg", "hash"], (2, 'int'): ["add", "cmp"]}


def builtin_callbacks(sigs):
    """builtin function values by type (arity, result): turbofish-selected natives over ints — no user call happens when
    they are used as callbacks, so only the search limit can stop a native loop over them"""
    from . import c16_lazy
    found = {}
    for name in sorted(sigs):
        for s in sigs[name]:
            if s.startswith("dyn:"):
                continue
            try:
                gs, ps, ret = L.parse_sig(s)
            except ValueError:
                continue
            if any(not r for _, r in ps):
                continue
            pst = [c16_lazy.subst(t) for t, _ in ps]
            rt = c16_lazy.subst(ret)
            if pst and all(t == 'int' for t in pst) and rt in ('int', 'bool') and len(pst) <= 2:
                found.setdefault((len(pst), rt), []).append(name)
    found.setdefault((1, 'bool'), []).append("is_error")
    out = {}
    for k, names in found.items():
        pref = [n for n in PREFERRED.get(k, []) if n in names] or sorted(set(names))[:2]
        out[k] = [f"{n}{{{', '.join(['int'] * k[0])}}}" for n in pref[:2]]
    return out


def loop_calls(sigs):
    from . import c16_lazy
    cbs = builtin_callbacks(sigs)
    calls, skipped = [], []
    for name in sorted(sigs):
        for s in sigs[name]:
            if s.startswith("dyn:"):
                continue
            try:
                gs, ps, ret = L.parse_sig(s)
            except ValueError:
                continue
            ps = [(c16_lazy.subst(t), r) for t, r in ps if r]
            cpos = [i for i, (t, _) in enumerate(ps) if isinstance(t, tuple) and t[0] == 'N' and t[1] in ('Sequence', 'Generator') and t[2] == ['int']]
            fpos = [i for i, (t, _) in enumerate(ps) if isinstance(t, tuple) and t[0] == 'F']
            if not cpos or not fpos:
                continue
            # callback choices per function-typed parameter
            choices = []
            ok = True
            for i in fpos:
                t = ps[i][0]
                key = (len(t[1]), t[2]) if all(p == 'int' for p in t[1]) and t[2] in ('int', 'bool') else None
                if key is None or key not in cbs:
                    ok = False
                    break
                choices.append(cbs[key])
            if not ok:
                skipped.append(f"{name} {s}")
                continue
            ipos = [i for i, (t, _) in enumerate(ps) if t == 'int']
            for sname, src in HUGE_SEQS:
                for combo in itertools.product(*choices):
                    for idx in (INDEXES if ipos else [None]):
                        args = []
                        try:
                            for i, (t, _) in enumerate(ps):
                                if i == cpos[0]:
                                    args.append(src + (".to_generator()" if t[1] == 'Generator' else ""))
                                elif i in fpos:
                                    args.append(combo[fpos.index(i)])
                                elif t == 'int':
                                    args.append(lit(idx) if i == ipos[0] else "3")
                                else:
                                    args.append(small(t))
                        except Unsupported:
                            skipped.append(f"{name} {s}")
                            break
                        shape = sname + ("" if idx is None else ":idx" + ("-huge" if idx < -2 else "+huge" if idx > 2 else str(idx)))
                        calls.append((f"{name}:{shape}", f"{name}(" + ", ".join(args) + ")"))
    return calls, sorted(set(skipped))


def run_loop_sweep(chk):
    """every library function with a sequence/generator and a function-typed parameter over a HUGE finite lazy source with a
    BUILTIN callback (no user call: only the search limit can stop a native loop) and every index/direction argument: it
    must answer — a searching builtin by MaximumSearch, an eager one by AllocationLimitReached, a lazy one with its value"""
    import itertools as _it
    globals().setdefault("itertools", _it)
    sigs = L.library_signatures()
    calls, skipped = loop_calls(sigs)
    seen, uniq = set(), []
    for c in calls:
        if c[1] not in seen:
            seen.add(c[1])
            uniq.append(c)
    chk.count("loop:functions", len({c[0].split(":")[0] for c in uniq}))
    chk.count("loop:calls", len(uniq))
    chk.coverage["loop_skipped_signatures"] = skipped
    _execute(chk, uniq, "loop", LOOP_LIMITS)
