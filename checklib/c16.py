"""C16 — Generators denote fixed lazy streams.
Proofs: lean/Props/C16.lean over lean/XrayModel/Gen.lean (a step machine of src/builtin/generators.rs).
Tie: generated pipelines of generator operations over finite and infinite sources run (a) through the
real interpreter with the generic `run` op, every pipeline value consumed twice, (b) through the
compiled model (`xmodel gen …`), (c) through an independent oracle: the same pipeline over plain Python
lists / itertools, which also counts the calls of the callbacks a lazy evaluation needs."""
import itertools
import random as _random
from .common import *

I64_MIN, I64_MAX = -2**63, 2**63 - 1
SEARCH = 6000            # search limit of the implementation runs (finite, so nothing can hang; > ORACLE_BUDGET)
UD_CALLS = 600_000       # > the calls of two lazy consumptions within the oracle's budget
ORACLE_BUDGET = 3000     # pulls of any one source the oracle is willing to do
FUEL = 400000            # steps of the model
PRODUCT_IN_MODEL = True   # `gen ptoarray … product:k` (XrayModel/GenProduct.lean): to_array of a product without trailing operations
WATCHDOG = 60.0          # seconds before a single request counts as a hang (generous: the machine may be loaded)


class Diverge(Exception):
    pass


class _Err:
    def __repr__(self):
        return "ERR"


ERR = _Err()


def tag(v):
    return ("S " if I64_MIN <= v <= I64_MAX else "L ") + str(v)


def dump(v):
    """python value -> the harness' canonical dump"""
    if v is ERR:
        return "ERR"
    if isinstance(v, Some):
        return "(none)" if v.v is None else f"(some {dump(v.v)})"
    if isinstance(v, bool):
        return "(bool true)" if v else "(bool false)"
    if isinstance(v, int):
        return f"(int {tag(v)})"
    if isinstance(v, tuple):
        return "(struct" + "".join(" " + dump(x) for x in v) + ")"
    if isinstance(v, list):
        return "(seq" + "".join(" " + dump(x) for x in v) + ")"
    raise ValueError(v)


def parse_model(s):
    """model answer -> canonical dump / 'ERR' / 'VIOL' / 'FUEL'"""
    if s == "err":
        return "ERR"
    if s == "viol":
        return "VIOL"
    if s == "fuel":
        return "FUEL"
    if not s.startswith("ok "):
        return "?" + s
    if s in ("ok true", "ok false"):
        return f"(bool {s[3:]})"
    if s == "ok none":
        return "(none)"
    if s.startswith("ok some "):
        inner = parse_model("ok " + s[8:])
        return inner if inner.startswith("?") else f"(some {inner})"
    toks = s[3:].replace("(", " ( ").replace(")", " ) ").replace("[", " [ ").replace("]", " ] ").split()
    pos = [0]

    def rd():
        t = toks[pos[0]]
        pos[0] += 1
        if t == "(" or t == "[":
            kind = toks[pos[0]]
            pos[0] += 1
            items = []
            while toks[pos[0]] not in (")", "]"):
                items.append(rd())
            pos[0] += 1
            return tuple(items) if kind == "t" else items
        return int(t)
    try:
        return dump(rd())
    except Exception:
        return "?" + s


def canon_impl(d):
    if d.startswith("(error "):
        return "ERR"
    if d.startswith("viol "):
        return "VIOL"
    if d.startswith("panic "):
        return "PANIC"
    return d


# ------------------------------------------------------------------------------------------ oracle
class Ctx:
    """counts source pulls (budget) and callback calls of one consumption"""

    def __init__(self):
        self.calls = 0
        self.pulls = 0
        self.starts = 0   # iterators created (an adaptor's constant look-ahead is per iterator)

    def start(self):
        self.starts += 1

    def pull(self):
        self.pulls += 1
        if self.pulls > ORACLE_BUDGET:
            raise Diverge()


def counted(factory):
    def it(ctx):
        ctx.start()
        return factory(ctx)
    return it


def strict(f, weight=1):
    def g(ctx, *a):
        ctx.calls += weight
        if any(x is ERR for x in a):
            return ERR
        return f(*a)
    return g


def o_arr(xs):
    def it(ctx):
        for x in xs:
            ctx.pull()
            yield x
    return counted(it)


def o_count(f=None):
    def it(ctx):
        for i in itertools.count():
            ctx.pull()
            yield i if f is None else f(ctx, i)
    return counted(it)


def o_succ(init, f, until=None):
    # successors(i, f) is successors_until(i, (t) -> {some(f(t))}): two user calls per step
    def it(ctx):
        x = init
        while True:
            ctx.pull()
            yield x
            if until is not None:
                ctx.calls += 1
                if x is ERR:
                    x = ERR
                    continue
                if not (x < until):
                    return
                x = f(ctx, x)
                ctx.calls -= 1  # the lambda of successors_until calls nothing else here
                ctx.calls += 0
            else:
                ctx.calls += 1
                x = f(ctx, x)
    return counted(it)


def o_map(g, f):
    return counted(lambda ctx: (f(ctx, x) for x in g(ctx)))


def o_filter(g, p):
    def it(ctx):
        for x in g(ctx):
            r = p(ctx, x)
            if r is ERR:
                yield ERR
            elif r:
                yield x
    return counted(it)


def o_take_while(g, p):
    def it(ctx):
        for x in g(ctx):
            r = p(ctx, x)
            if r is ERR:
                yield ERR
            elif r:
                yield x
            else:
                return
    return counted(it)


def o_skip_until(g, p):
    def it(ctx):
        found = False
        for x in g(ctx):
            if found:
                yield x
                continue
            r = p(ctx, x)
            if r is ERR:
                yield ERR
            elif r:
                found = True
                yield x
    return counted(it)


def o_slice(g, a, b):
    return counted(lambda ctx: itertools.islice(g(ctx), a, b))


def o_chain(gs):
    return counted(lambda ctx: itertools.chain.from_iterable(g(ctx) for g in gs))


def o_repeat(g):
    def it(ctx):
        while True:
            ctx.pull()  # a pass counts against the oracle's budget
            empty = True
            for x in g(ctx):
                empty = False
                yield x
            if empty:
                return
    return counted(it)


def o_aggregate(g, init, f):
    def it(ctx):
        st = init
        ctx.pull()      # an element that costs no source pull: it still counts against the oracle's budget
        yield st
        for x in g(ctx):
            st = f(ctx, st, x)
            yield st
    return counted(it)


def o_with_count(g):
    def it(ctx):
        seen = {}
        for x in g(ctx):
            if x is ERR:
                yield ERR
                continue
            k = repr(x)
            seen[k] = seen.get(k, 0) + 1
            yield (x, seen[k])
    return counted(it)


def o_distinct(g):
    def it(ctx):
        for t in o_with_count(g)(ctx):
            ctx.calls += 1
            if t is ERR:
                yield ERR
            elif t[1] == 1:
                ctx.calls += 1
                yield t[0]
    return counted(it)


def o_group(g, eq):
    def it(ctx):
        cur = []
        for x in g(ctx):
            if x is ERR:
                yield ERR
                continue
            if not cur:
                cur = [x]
                continue
            r = eq(ctx, cur[0], x)
            if r is ERR:
                yield ERR
            elif r:
                cur.append(x)
            else:
                yield cur
                cur = [x]
        if cur:
            yield cur
    return counted(it)


def o_windows(g, n):
    def it(ctx):
        mem = []
        for x in g(ctx):
            if x is ERR:
                yield ERR
                continue
            mem.append(x)
            if len(mem) == n:
                yield list(mem)
                mem.pop(0)
    return counted(it)


def o_zip(gs):
    def it(ctx):
        for t in zip(*[g(ctx) for g in gs]):
            yield ERR if any(x is ERR for x in t) else tuple(t)
    return counted(it)


def o_chunks(g, n):
    # library code (include.rs:165): per element the aggregate callback and its inner lambda, the filter
    # callback; per emitted chunk the map callback
    def it(ctx):
        cur = []
        for x in g(ctx):
            ctx.calls += 3
            if len(cur) == n:
                cur = []
            cur.append(x)
            if len(cur) == n:
                ctx.calls += 1
                yield list(cur)
        ctx.calls += 2
        if cur and len(cur) < n:
            ctx.calls += 1
            yield cur
    return counted(it)


def o_product(gs):
    """cartesian product, last part fastest (itertools.product); every part is a generator VALUE and is started
    over for every combination of the parts before it; empty as soon as one part is empty"""
    def it(ctx):
        for g in gs[1:]:
            if next(iter(g(ctx)), None) is None:
                return
        def rec(i, prefix):
            if i == len(gs):
                yield tuple(prefix)
                return
            for x in gs[i](ctx):
                yield from rec(i + 1, prefix + [x])
        yield from rec(0, [])
    return counted(it)


def consume(kind, arg, g):
    """value of the consumer over the list semantics; ERR where xray gives an error value"""
    ctx = Ctx()
    it = g(ctx)
    if kind == "toarray":
        out = []
        for x in it:
            if x is ERR:
                return ERR, ctx
            out.append(x)
        return out, ctx
    if kind == "len":
        n = 0
        for x in it:
            if x is ERR:
                return ERR, ctx
            n += 1
        return n, ctx
    if kind == "last":
        r = ERR
        for x in it:
            if x is ERR:
                return ERR, ctx
            r = x
        return r, ctx
    if kind == "get":
        if arg < 0:
            return ERR, ctx
        for i, x in enumerate(it):
            if i == arg:
                return x, ctx
        return ERR, ctx
    if kind in ("first", "any", "all", "count"):
        _, _, pred = arg
        n = 0
        for x in it:
            if kind == "all":
                ctx.calls += 1          # the wrapper `(t) -> {!f(t)}`
            r = pred(ctx, x)
            if r is ERR:
                return ERR, ctx
            if kind == "count":
                n += 1 if r else 0
            elif kind == "all":
                if not r:
                    return False, ctx
            elif r:
                return (Some(x) if kind == "first" else True), ctx
        return {"first": Some(None), "any": False, "all": True, "count": n}[kind], ctx
    if kind in ("reduce", "reduce1"):
        init, (_, _, f2) = arg
        st, seen = init, init is not None
        for x in it:
            if x is ERR:
                return ERR, ctx
            if not seen:
                st, seen = x, True
                ctx.calls += 1
                continue
            ctx.calls += 1 if kind == "reduce" else 2
            st = f2(ctx, st, x)
            if st is ERR:
                return ERR, ctx
        return (st if seen else ERR), ctx
    if kind == "nth":
        k, (_, _, pred) = arg
        if k < 0:
            return ERR, ctx
        for x in it:
            r = pred(ctx, x)
            if r is ERR:
                return ERR, ctx
            if r:
                if k == 0:
                    return Some(x), ctx
                k -= 1
        return Some(None), ctx
    raise ValueError(kind)


class Some:
    def __init__(self, v):
        self.v = v


# ------------------------------------------------------------------------------------------ pipelines
INT = "int"
TUP2 = "(int, int)"
SEQ = "Sequence<int>"


def view(ty, v):
    """xray expression of the int view (sum) of a variable v of element type ty"""
    if ty == INT:
        return v
    if ty == TUP2:
        return f"({v}::item0 + {v}::item1)"
    return f"{v}.sum()"


def pysum(x):
    if isinstance(x, int):
        return x
    return sum(pysum(y) for y in x)


class Pipe:
    """a pipeline under construction: xray text, model tokens, oracle, element type, finiteness"""

    def __init__(self, src, toks, orc, ty=INT, inf=False, ops=(), errs=False):
        self.src, self.toks, self.orc, self.ty, self.inf, self.ops, self.errs = src, list(toks), orc, ty, inf, list(ops), errs

    def then(self, name, src, tok, orc, ty=None, inf=None, errs=None):
        return Pipe(src, self.toks + ([tok] if isinstance(tok, str) else list(tok)), orc, self.ty if ty is None else ty,
                    self.inf if inf is None else inf, self.ops + [name], self.errs if errs is None else errs)


def small(rng):
    return rng.choice([0, 1, 2, 3, 4, 5, 7, 10, -1, -2, -5])


def gen_fn(rng, ty, errmode):
    """strict unary function ty -> int: (xray lambda, model token, oracle)"""
    v = view(ty, "x")
    if ty == SEQ and rng.random() < 0.5:
        return f"(x:{ty})->{{x.len()}}", "map:len", strict(lambda x: len(x))
    if ty == TUP2 and rng.random() < 0.4:
        i = rng.choice([0, 1])
        return f"(x:{ty})->{{x::item{i}}}", f"map:item:{i}", strict(lambda x: x[i])
    if errmode and ty == INT and rng.random() < 0.35:
        c, d = rng.choice([1, 6, 7, -12, 100]), rng.choice([0, 1, 2, 3, 5])
        return (f"(x:int)->{{div_floor({lit(c)}, x - {d})}}", f"map:divf:{c}:{d}",
                strict(lambda x: ERR if x == d else c // (x - d)))
    if ty != INT:
        # `sum(Sequence<int>)` is library code in xray: 3 more user calls
        return f"(x:{ty})->{{{v}}}", "map:sum", strict(pysum, weight=4 if ty == SEQ else 1)
    a, b = rng.choice([1, 1, 2, 3, -1, -2, 0]), rng.choice([0, 1, -1, 5, 10, 2**62, -2**63])
    if rng.random() < 0.8:
        b = small(rng)
    return f"(x:int)->{{x * {lit(a)} + {lit(b)}}}", f"map:aff:{a}:{b}", strict(lambda x: x * a + b)


def gen_pred(rng, ty, errmode):
    """(xray lambda, token suffix, oracle) of a strict predicate on the int view"""
    v = view(ty, "x")
    k = rng.random()
    if errmode and k < 0.25:
        c = rng.choice([0, 1, 2, 3, 4, 6])
        return f"(x:{ty})->{{div_floor(1, {v} - {c}) < 2}}", f"errat:{c}", strict(lambda x: ERR if pysum(x) == c else True)
    if k < 0.5:
        m = rng.choice([1, 2, 2, 3, 3, 4, 5])
        r = rng.choice(range(m)) if rng.random() < 0.9 else m
        return f"(x:{ty})->{{{v} % {m} == {r}}}", f"mod:{m}:{r}", strict(lambda x: pysum(x) % m == r)
    if k < 0.72:
        c = rng.choice([0, 1, 3, 5, 8, 12, 30, -3])
        return f"(x:{ty})->{{{v} < {lit(c)}}}", f"lt:{c}", strict(lambda x: pysum(x) < c)
    if k < 0.9:
        c = rng.choice([0, 1, 3, 5, 8, 12, 30, -3])
        return f"(x:{ty})->{{{v} >= {lit(c)}}}", f"ge:{c}", strict(lambda x: pysum(x) >= c)
    if k < 0.95:
        return f"(x:{ty})->{{{v} >= {v}}}", "true", strict(lambda x: True)
    return f"(x:{ty})->{{{v} < {v}}}", "false", strict(lambda x: False)


def gen_f2(rng):
    """(xray lambda, model token, oracle) of a binary function on ints"""
    if rng.random() < 0.6:
        return "(a:int, b:int)->{a + b}", "add", strict(lambda a, b: a + b)
    a = rng.choice([2, -1, 3])
    return f"(a:int, b:int)->{{a * {lit(a)} + b}}", f"lin:{a}", strict(lambda s, x: s * a + x)


def gen_source(rng, errmode):
    k = rng.random()
    if k < 0.4:
        n = rng.choice([0, 1, 2, 3, 4, 5, 6, 8, 12])
        xs = [rng.choice([0, 1, 1, 2, 2, 3, 4, 5, 7, 9, -1, -4, 2**63, -2**63 - 1]) if rng.random() < 0.1 else rng.choice([0, 1, 1, 2, 2, 3, 3, 4, 5, 6])
              for _ in range(n)]
        txt = "[" + ", ".join(lit(x) for x in xs) + "].to_generator()" if xs else "[].map((x:int)->{x}).to_generator()"
        return Pipe(txt, ["arr:" + ",".join(map(str, xs))], o_arr(xs), ops=["arr"])
    if k < 0.6:
        return Pipe("count().to_generator()", ["count"], o_count(), inf=True, ops=["count"])
    if k < 0.72:
        a, b = rng.choice([0, 1, 5, -3]), rng.choice([1, 2, 3, -1])
        return Pipe(f"count({lit(a)}, {lit(b)}).to_generator()", [f"countaff:{b}:{a}"], o_count(strict(lambda x: x * b + a)),
                    inf=True, ops=["count2"])
    if k < 0.9:
        i, a, b = rng.choice([0, 1, 2, -1]), rng.choice([1, 1, 2, -1, -2]), rng.choice([0, 1, 1, 3, -1])
        return Pipe(f"successors({lit(i)}, (x:int)->{{x * {lit(a)} + {lit(b)}}})", [f"succ:{i}:aff:{a}:{b}"],
                    o_succ(i, strict(lambda x: x * a + b)), inf=True, ops=["successors"])
    i, c, b = rng.choice([0, 1, -2]), rng.choice([0, 3, 6, 10]), rng.choice([1, 2, 3])
    return Pipe(f"successors_until({lit(i)}, (x:int)->{{if(x < {c}, some(x + {b}), none())}})", [f"succuntil:{i}:{c}:aff:1:{b}"],
                o_succ(i, strict(lambda x: x + b), until=c), ops=["successors_until"])


INT_OPS = ["map", "filter", "take", "skip", "add", "repeat", "repeatn", "take_while", "skip_until", "aggregate", "aggregate1",
           "with_count", "distinct", "group", "windows", "chunks", "zip", "enumerate"]
ERR_OK = {"map", "filter", "take", "skip", "add", "repeat", "take_while", "skip_until", "aggregate", "aggregate1", "zip", "enumerate"}


def extend(rng, p, errmode, depth):
    ops = [o for o in INT_OPS if (not errmode or o in ERR_OK)]
    if p.ty != INT:
        ops = ["map", "map", "filter", "take", "skip", "repeat", "take_while", "skip_until"]
        if p.ty == SEQ:
            ops = ["map", "map", "take", "skip", "repeat"]
    op = rng.choice(ops)
    if op == "map":
        x, tok, f = gen_fn(rng, p.ty, errmode)
        return p.then("map", f"{p.src}.map({x})", tok, o_map(p.orc, f), ty=INT)
    if op in ("filter", "take_while", "skip_until"):
        x, tok, f = gen_pred(rng, p.ty, errmode)
        mk = {"filter": o_filter, "take_while": o_take_while, "skip_until": o_skip_until}[op]
        mt = {"filter": "filter", "take_while": "takewhile", "skip_until": "skipuntil"}[op]
        return p.then(op, f"{p.src}.{op}({x})", f"{mt}:{tok}", mk(p.orc, f))
    if op == "take":
        n = rng.choice([0, 1, 2, 3, 4, 5, 7, 10, 20])
        return p.then("take", f"{p.src}.take({n})", f"take:{n}", o_slice(p.orc, 0, n), inf=False)
    if op == "skip":
        n = rng.choice([0, 1, 2, 3, 4, 5, 7, 10])
        return p.then("skip", f"{p.src}.skip({n})", f"skip:{n}", o_slice(p.orc, n, None))
    if op == "add":
        q = gen_pipe(rng, errmode, max(0, depth - 2), want_int=True)
        return Pipe(f"{p.src}.add({q.src})", p.toks + q.toks + ["add"], o_chain([p.orc, q.orc]), INT, p.inf or q.inf,
                    p.ops + q.ops + ["add"], p.errs or q.errs)
    if op == "repeat":
        return p.then("repeat", f"{p.src}.repeat()", "repeat", o_repeat(p.orc), inf=True)
    if op == "repeatn":
        if p.inf:
            return p
        n = rng.choice([0, 1, 2, 3])
        return p.then("repeatn", f"{p.src}.repeat({n})", f"repeatn:{n}", o_chain([p.orc] * n))
    if op == "aggregate":
        init = small(rng)
        if rng.random() < 0.6:
            return p.then("aggregate", f"{p.src}.aggregate({lit(init)}, (a:int, b:int)->{{a + b}})", f"aggregate:{init}:add",
                          o_aggregate(p.orc, init, strict(lambda a, b: a + b)))
        a = rng.choice([2, -1, 3])
        return p.then("aggregate", f"{p.src}.aggregate({lit(init)}, (a:int, b:int)->{{a * {lit(a)} + b}})", f"aggregate:{init}:lin:{a}",
                      o_aggregate(p.orc, init, strict(lambda s, x: s * a + x)))
    if op == "aggregate1":
        x, tok, f = gen_f2(rng)

        def o_agg1(g, f=f):
            def it(ctx):
                st, seen = None, False
                for v in g(ctx):
                    ctx.calls += 2
                    if not seen:
                        st, seen = v, True
                    else:
                        st = f(ctx, st, v)
                    yield st
            return counted(it)
        return p.then("aggregate1", f"{p.src}.aggregate({x})", f"aggregate1:{tok}", o_agg1(p.orc))
    if op == "with_count":
        return p.then("with_count", f"{p.src}.with_count()", "withcount", o_with_count(p.orc), ty=TUP2)
    if op == "distinct":
        return p.then("distinct", f"{p.src}.distinct()", "distinct", o_distinct(p.orc))
    if op == "group":
        if rng.random() < 0.5:
            return p.then("group", f"{p.src}.group((a:int, b:int)->{{a == b}})", "group:eq", o_group(p.orc, strict(lambda a, b: a == b)), ty=SEQ)
        m = rng.choice([2, 3, 4])
        return p.then("group", f"{p.src}.group((a:int, b:int)->{{a % {m} == b % {m}}})", f"group:eqmod:{m}",
                      o_group(p.orc, strict(lambda a, b: a % m == b % m)), ty=SEQ)
    if op == "windows":
        n = rng.choice([1, 2, 3, 4])
        return p.then("windows", f"{p.src}.windows({n})", f"windows:{n}", o_windows(p.orc, n), ty=SEQ)
    if op == "chunks":
        n = rng.choice([1, 2, 3, 4])
        return p.then("chunks", f"{p.src}.chunks({n})", f"chunks:{n}", o_chunks(p.orc, n), ty=SEQ)
    if op == "zip":
        q = gen_pipe(rng, errmode, max(0, depth - 2), want_int=True)
        return Pipe(f"{p.src}.zip({q.src})", p.toks + q.toks + ["zip:2"], o_zip([p.orc, q.orc]), TUP2, p.inf and q.inf,
                    p.ops + q.ops + ["zip"], p.errs or q.errs)
    if op == "enumerate":
        a, b = rng.choice([0, 1, 10]), rng.choice([1, 2, -1])
        args = "" if (a, b) == (0, 1) else (f"{a}" if b == 1 else f"{a}, {lit(b)}")
        return p.then("enumerate", f"{p.src}.enumerate({args})", f"enumerate:{a}:{b}",
                      o_zip([o_count(strict(lambda x: x * b + a)), p.orc]), ty=TUP2)
    raise ValueError(op)


def gen_pipe(rng, errmode, nops, want_int=False):
    """a random pipeline; `recipe` records the PRNG state before every choice, so that a sub-sequence of
    the operations can be rebuilt exactly (see `rebuild`)"""
    st = rng.getstate()
    p = gen_source(rng, errmode)
    recipe = [("src", st)]
    for _ in range(nops):
        st = rng.getstate()
        q = extend(rng, p, errmode, nops)
        recipe.append(("op", st, p.ty, p.inf, nops))
        p = q
    if want_int and p.ty != INT:
        x, tok, f = gen_fn(rng, p.ty, errmode)
        p = p.then("map", f"{p.src}.map({x})", tok, o_map(p.orc, f), ty=INT)
    p.recipe, p.errmode = recipe, errmode
    return p


def final_take(p, n):
    return p.then("take", f"{p.src}.take({n})", f"take:{n}", o_slice(p.orc, 0, n), inf=False)


def rebuild(recipe, errmode, keep):
    """the pipeline made of the recipe's steps listed in `keep` (always with the source), or None when the
    remaining operations do not fit together (element type / finiteness they were generated for)"""
    p = None
    for i, step in enumerate(recipe):
        if i not in keep:
            continue
        r = _random.Random()
        if step[0] == "src":
            r.setstate(step[1])
            p = gen_source(r, errmode)
        elif step[0] == "op":
            _, st, ty, inf, depth = step
            if p is None or p.ty != ty or p.inf != inf:
                return None
            r.setstate(st)
            p = extend(r, p, errmode, depth)
        elif step[0] == "take":
            p = final_take(p, step[1])
    if p is None or p.inf:
        return None
    p.recipe, p.errmode = recipe, errmode
    return p


def gen_case(rng, max_ops):
    errmode = rng.random() < 0.3
    p = gen_pipe(rng, errmode, rng.randint(1, max_ops))
    if p.inf:
        n = rng.choice([0, 1, 3, 5, 8, 13])
        recipe = p.recipe + [("take", n)]
        p = final_take(p, n)
        p.recipe, p.errmode = recipe, errmode
    k = rng.random()
    if k < 0.7:
        cons, arg, call = "toarray", None, "to_array()"
    elif k < 0.8:
        cons, arg, call = "len", None, "len()"
    elif k < 0.9:
        cons, arg, call = "last", None, "last()"
    elif k < 0.95 or p.ty == SEQ:
        arg = rng.choice([0, 1, 2, 3, 5, 9, -1])
        cons, call = "get", f"get({lit(arg)})"
    elif k < 0.975 or p.ty != INT:
        idx = rng.choice([0, 0, 1, 2, 4, -1])
        pr = gen_pred(rng, p.ty, getattr(p, "errmode", False))
        arg = (idx, pr)
        cons, call = "nth", f"nth({lit(idx)}, {pr[0]})"
        if rng.random() < 0.5:
            cons = rng.choice(["first", "any", "all", "count"])
            arg = pr
            call = f"{cons}({pr[0]})"
    else:
        f2 = gen_f2(rng)
        kk = rng.random()
        if kk < 0.35:
            init = small(rng)
            cons, arg, call = "reduce", (init, f2), f"reduce({lit(init)}, {f2[0]})"
        elif kk < 0.7:
            cons, arg, call = "reduce1", (None, f2), f"reduce({f2[0]})"
        else:
            cons, arg, call = "reduce", (0, ("", "add", strict(lambda a, b: a + b))), "sum()"
    return p, cons, arg, call


def tupty(k):
    return "(" + ", ".join(["int"] * k) + ")"


def build_product(parts, post):
    """parts: list of (Pipe, as_sequence_literal); post: list of functions Pipe -> Pipe"""
    k = len(parts)
    first = parts[0][0]
    args = ", ".join((q.seqsrc if (lit_ and k >= 3) else q.src) for q, lit_ in parts[1:])
    ops = [o for q, _ in parts for o in q.ops] + ["product"]
    toks = [t for q, _ in parts for t in q.toks] + [f"product:{k}"]
    p = Pipe(f"{first.src}.product({args})", toks, o_product([q.orc for q, _ in parts]), ty=tupty(k),
             inf=first.inf, ops=ops)
    p.nomodel = any(getattr(q, "nomodel", False) for q, _ in parts)
    for f in post:
        p = f(p)
    p.nomodel = True if post else p.nomodel
    if not PRODUCT_IN_MODEL:
        p.nomodel = True
    p.product_spec = (parts, post)
    return p


def product_variants(p):
    """smaller products: one part or one trailing operation less"""
    parts, post = p.product_spec
    out = []
    for i in range(len(post) - 1, -1, -1):
        out.append((parts, post[:i] + post[i + 1:]))
    if len(parts) > 2:
        for i in range(len(parts) - 1, 0, -1):
            out.append((parts[:i] + parts[i + 1:], post))
    res = []
    for ps, po in out:
        try:
            q = build_product(ps, po)
        except Exception:
            continue
        if not q.inf:
            res.append(q)
    return res


def gen_product_case(rng):
    """the family `product`: 2-5 parts of 0-4 elements (a one-element or empty part now and then, an infinite
    first part under a final take), optionally mapped back to ints and piped on"""
    k = rng.choice([2, 3, 3, 3, 4, 4, 5])
    parts = []
    for i in range(k):
        n = rng.choice([0, 1, 1, 2, 2, 3, 4]) if rng.random() < 0.9 else 0
        base = rng.choice([0, 10, 100, 1000])
        xs = [base + j for j in range(n)]
        if i == 0 and rng.random() < 0.15:
            q = Pipe("count().to_generator()", ["count"], o_count(), inf=True, ops=["count"])
        else:
            txt = "[" + ", ".join(lit(x) for x in xs) + "]" if xs else "[].map((x:int)->{x})"
            q = Pipe(txt + ".to_generator()", ["arr:" + ",".join(map(str, xs))], o_arr(xs), ops=["arr"])
            q.seqsrc = txt
            if rng.random() < 0.3:
                q2 = extend(rng, q, False, 0)
                if q2.ty == INT and not q2.inf:
                    q = q2
        # (a plain Sequence argument only with three or more parts: `g.product(seq)` is ambiguous with the
        # multiplicative `product(Generator<T>, U)`)
        parts.append((q, k >= 3 and i > 0 and hasattr(q, "seqsrc") and q.src == q.seqsrc + ".to_generator()" and rng.random() < 0.4))
    post = []
    if rng.random() < 0.35:
        ty = tupty(k)
        body = " + ".join(f"x::item{j}" for j in range(k))
        post.append(lambda p, ty=ty, body=body: p.then("map", f"{p.src}.map((x:{ty})->{{{body}}})", "map:sum",
                                                         o_map(p.orc, strict(pysum)), ty=INT))
        if rng.random() < 0.5:
            st = rng.getstate()

            def more(p, st=st):
                r = _random.Random()
                r.setstate(st)
                return extend(r, p, False, 0)
            post.append(more)
            extend(rng, Pipe("[1].to_generator()", ["arr:1"], o_arr([1])), False, 0)   # advance the PRNG alike
    elif rng.random() < 0.3:
        n = rng.choice([0, 1, 2, 5])
        post.append(lambda p, n=n: p.then("skip", f"{p.src}.skip({n})", f"skip:{n}", o_slice(p.orc, n, None)))
    p = build_product(parts, post)
    if p.inf:
        n = rng.choice([1, 3, 5, 8, 13, 30])
        post = post + [lambda p, n=n: final_take(p, n)]
        p = build_product(parts, post)
    kk = rng.random()
    if kk < 0.75:
        cons, arg, call = "toarray", None, "to_array()"
    elif kk < 0.85:
        cons, arg, call = "len", None, "len()"
    elif kk < 0.92:
        cons, arg, call = "last", None, "last()"
    else:
        arg = rng.choice([0, 1, 3, 6, 11])
        cons, call = "get", f"get({lit(arg)})"
    return p, cons, arg, call


def cons_name(cons, arg):
    """the consumer as the model driver spells it"""
    if arg is None:
        return cons
    if cons == "nth":
        return f"nth:{arg[0]}:{arg[1][1]}"
    if cons in ("first", "any", "all", "count"):
        return f"{cons}:{arg[1]}"
    if cons == "reduce":
        return f"reduce:{arg[0]}:{arg[1][1]}"
    if cons == "reduce1":
        return f"reduce1:{arg[1][1]}"
    return f"{cons}:{arg}"


def model_line(p, cons, arg):
    if getattr(p, "nomodel", False) or (hasattr(p, "product_spec") and cons != "toarray"):
        return "ping"
    if hasattr(p, "product_spec"):
        return f"gen ptoarray {SEARCH} {FUEL} " + " ".join(p.toks)
    return f"gen {cons_name(cons, arg)} {SEARCH} {FUEL} " + " ".join(p.toks)


def run_cases(cases):
    """cases: list of (Pipe, cons, arg, call). Returns per case (impl_a, impl_b, ud_calls, model, oracle, oracle_calls)"""
    reqs, mlines = [], []
    for p, cons, arg, call in cases:
        src = f"let g = {p.src};\nlet a = g.{call};\nlet b = g.{call};\n"
        reqs.append({"op": "run", "src": src, "get": ["a", "b"], "limits": {"search": SEARCH, "ud_calls": UD_CALLS}})
        mlines.append(model_line(p, cons, arg))
    impl = run_harness(reqs, per_req_timeout=WATCHDOG)
    model = run_model(mlines)
    out = []
    for (p, cons, arg, call), r, m in zip(cases, impl, model):
        f = _fail(r)
        if f is None:
            a, b = canon_impl(r["vals"]["a"]), canon_impl(r["vals"]["b"])
            calls = r.get("ud_calls1", 0)
        else:
            a = b = canon_impl(f)
            calls = None
        try:
            v, ctx = consume(cons, arg, p.orc)
            want, ocalls = dump(v), (ctx.calls, ctx.starts)
        except Diverge:
            want, ocalls = None, None
        out.append((a, b, calls, None if m == "pong" or model_line(p, cons, arg) == "ping" else parse_model(m), want, ocalls))
    return out


def _fail(r):
    if "panic" in r:
        return "panic " + r["panic"]
    if "abort" in r:
        return "panic abort " + str(r["abort"])
    if "hang" in r:
        return "HANG"
    if r.get("compile") != "ok":
        c = r.get("compile")
        return "COMPILE " + (c.get("msg", "?") if isinstance(c, dict) else str(c))
    if r.get("inst") != "ok":
        return "viol " + r["inst"]["viol"]
    return None


def verdict(case, res):
    """None if fine, else (kind, text)"""
    p, cons, arg, call = case
    a, b, calls, model, want, ocalls = res
    if a.startswith("COMPILE"):
        return ("harness", f"the generated program does not compile: {a}")
    if a != b:
        return ("twice", f"consuming the same generator value twice gave {a} and then {b}")
    if want is None:
        # the oracle gave up (more than ORACLE_BUDGET pulls): only the limit may end such a pipeline
        if a == "HANG" or a == "PANIC":
            return ("hang" if a == "HANG" else "panic", f"{a} on a pipeline whose evaluation needs more than {ORACLE_BUDGET} pulls")
        if model is not None and model not in ("FUEL",) and model != a:
            return ("tie", f"model {model} / implementation {a} (no oracle verdict: needs more than {ORACLE_BUDGET} pulls)")
        return None
    if a != want:
        kind = {"HANG": "hang", "PANIC": "panic", "VIOL": "viol"}.get(a, "wrong")
        return (kind, f"implementation gives {a}; the pipeline over plain lists gives {want}")
    if model is not None and model != a:
        return ("tie", f"model gives {model}, implementation (which agrees with the list semantics) gives {a}")
    if calls is not None and ocalls is not None:
        need, starts = ocalls
        allowed = 2 * (need + 4 * starts) + 16
        if calls > allowed:
            return ("lazy", f"{calls} callback calls for two consumptions; a lazy evaluation needs {need} per consumption "
                            f"and creates {starts} iterators (allowed look-ahead: 4 calls per iterator)")
    return None


def shrink(case, kind, evaluate):
    """greedy delta debugging over the operations: drop one operation at a time while the same kind of
    failure remains; `evaluate(case)` -> (kind or None, result).  Returns the smallest failing case found."""
    p = case[0]
    if hasattr(p, "product_spec"):
        budget = 40
        improved = True
        while improved and budget > 0:
            improved = False
            for q in product_variants(case[0]):
                c2 = (q,) + tuple(case[1:])
                budget -= 1
                if evaluate(c2) == kind:
                    case, improved = c2, True
                    break
                if budget <= 0:
                    break
        return case
    recipe, errmode = getattr(p, "recipe", None), getattr(p, "errmode", False)
    if not recipe:
        return case
    cur = list(range(len(recipe)))
    budget = 60
    improved = True
    while improved and budget > 0:
        improved = False
        for i in reversed(cur[1:]):           # the source stays
            cand = [j for j in cur if j != i]
            q = rebuild(recipe, errmode, cand)
            if q is None:
                continue
            c2 = (q,) + tuple(case[1:])
            budget -= 1
            if evaluate(c2) == kind:
                cur, case, improved = cand, c2, True
                break
            if budget <= 0:
                break
    return case


def run(chk):
    rng = chk.rng
    quick = chk.tier == "quick"
    chk.trusted += [
        "the laziness sweep enumerates the library from the signature hook (typing/sigs, shared with C01) and synthesises arguments "
        "from the parameter types; dyn functions over generators use the call templates of checklib/c16_lazy.py",
        "the oracle: the same pipeline over plain Python lists / itertools, with error values as list elements "
        "(strict functions), and a count of the callback calls a lazy evaluation performs",
        "XSequence (the source of FromSequence) is modelled as an array / the counter / the counter under a map (C15 owns sequences); "
        "XMapping inside with_count is read through its finite-map view (C17)",
        "callbacks are pure functions of their arguments (user-call, size and time limits are not part of this model; C08/C09)",
    ]
    ok = chk.prove()
    if not ok:
        handle_broken(chk)

    max_ops = 5 if quick else 10
    n = 800 if quick else 6000
    # fixed regression cases first: the defects repaired by `fix:` commits (their witnesses)
    fixed = corpus_cases()
    nprod = 250 if quick else 2500
    cases = fixed + [gen_case(rng, max_ops) for _ in range(n)] + [gen_product_case(rng) for _ in range(nprod)]
    results = run_cases(cases)
    for i, (case, res) in enumerate(zip(cases, results)):
        p, cons, arg, call = case
        chk.evaluations += 1
        for o in set(p.ops):
            chk.count("op:" + o)
        chk.count("consumer:" + cons)
        chk.count("len:" + str(len(p.ops)))
        chk.count("oracle:" + ("diverge" if res[4] is None else ("err" if res[4] == "ERR" else "value")))
        chk.count("impl:" + (res[0] if res[0] in ("ERR", "VIOL", "PANIC", "HANG") else "value"))
        if len(p.ops) >= 3:
            chk.nontrivial.add(tuple(p.toks) + (cons_name(cons, arg),))
        v = verdict(case, res)
        if v is None:
            continue
        kind, text = v
        if i >= len(fixed) and kind != "harness":
            def evaluate(c2):
                v2 = verdict(c2, run_cases([c2])[0])
                return v2[0] if v2 else None
            small = shrink(case, kind, evaluate)
            if small is not case:
                case = small
                res = run_cases([case])[0]
                v2 = verdict(case, res)
                if v2:
                    kind, text = v2
                p, cons, arg, call = case
                chk.count("shrunk")
        sig = "+".join(sorted(set(p.ops)))
        src = f"let g = {p.src}; let a = g.{call}; let b = g.{call};"
        replay = {"src": src, "get": ["a", "b"], "limits": {"search": SEARCH, "ud_calls": UD_CALLS},
                  "expected": res[4], "got": res[0], "got_second": res[1], "model_out": res[3]}
        if model_line(p, cons, arg) != "ping":
            replay["model"] = model_line(p, cons, arg)
        key = ("corpus:" + str(i) if i < len(fixed) else "pipe:" + sig) + ":" + cons + ":" + kind
        chk.violation(("tie:" + key) if kind in ("tie", "harness") else key, f"{src}  — {text}", replay,
                      no_input=kind in ("tie", "harness"))
    # ---- operations outside the random pipelines: fixed probes with the value the list semantics gives
    # ---- with_count / distinct with USER hash and equality functions: colliding hashes, recurring elements
    hreqs, hmeta = [], []
    HASHES = [("(x:int)->{x % 3}", lambda x: x % 3), ("(x:int)->{0}", lambda x: 0), ("(x:int)->{x % 2}", lambda x: x % 2), ("(x:int)->{x}", lambda x: x)]
    STREAMS = [[1, 4, 1], [1, 4, 4, 1], [1, 4, 7, 1, 4], [0, 3, 6, 3, 0, 6], [2, 2, 5, 2, 5, 8, 8], [1, 2, 3, 1, 2, 3], [5], []]
    for _ in range(6 if quick else 60):
        STREAMS.append([rng.choice([0, 1, 2, 3, 4, 6, 7, 9]) for _ in range(rng.choice([3, 5, 8]))])
    for xs in STREAMS:
        for htxt, _h in HASHES:
            src_g = ("[" + ", ".join(map(str, xs)) + "]" if xs else "[].map((x:int)->{x})") + ".to_generator()"
            cnt, wc = {}, []
            for x in xs:
                cnt[x] = cnt.get(x, 0) + 1
                wc.append((x, cnt[x]))
            first = [x for x, c in wc if c == 1]
            for opn, call, want in (("with_count", f"with_count({htxt}, eq{{int, int}})", dump(wc)),
                                    ("distinct", f"distinct({htxt}, eq{{int, int}})", dump(first))):
                hreqs.append({"op": "run", "src": f"let g = {src_g}.{call};\nlet a = g.to_array();\nlet b = g.to_array();\n",
                              "get": ["a", "b"], "limits": {"search": SEARCH, "ud_calls": UD_CALLS}})
                hmeta.append((opn, want))
    for (opn, want), r, req in zip(hmeta, run_harness(hreqs, per_req_timeout=WATCHDOG), hreqs):
        chk.evaluations += 1
        chk.count("userhash:" + opn)
        f = _fail(r)
        a = canon_impl(f) if f is not None else canon_impl(r["vals"]["a"])
        b = a if f is not None else canon_impl(r["vals"]["b"])
        if a != want or b != want:
            chk.violation(f"userhash:{opn}:" + ("twice" if a != b else "wrong"),
                          f"{req['src'].strip()}  — gives {a[:160]}" + (f" and then {b[:120]}" if a != b else "") + f"; over plain lists {want[:160]}",
                          {**req, "expected": want, "got": a, "got_second": b})
    probes = fixed_probes()
    dumps = eval_exprs([e for e, _, _ in probes], limits={"search": SEARCH, "ud_calls": UD_CALLS}, per_req_timeout=20.0)
    for (e, want, key), d in zip(probes, dumps):
        chk.evaluations += 1
        chk.count("probe")
        got = canon_impl(d)
        if got != want:
            chk.violation(key, f"{e} evaluates to {d}; over plain lists it is {want}",
                          {"src": f"let r = {e};", "get": ["r"], "limits": {"search": SEARCH, "ud_calls": UD_CALLS}, "expected": want, "got": d})
    # ---- laziness / needed-prefix sweep over every library function that takes a generator (c16_lazy.py)
    from . import c16_lazy
    c16_lazy.run_sweep(chk)
    # ---- every terminal consumer on the same generator value, against its own to_array, the oracle and the model (c16_coh.py)
    from . import c16_coh
    c16_coh.run_coherence(chk)
    for c in cases[len(fixed):len(fixed) + 4]:
        chk.sample({"program": f"let g = {c[0].src}; let a = g.{c[3]}; let b = g.{c[3]};", "model": " ".join(c[0].toks)})
    return chk.finish(rule="pipelines of 1-%d generator operations over arrays, count(), count(a,b), successors, successors_until, "
                           "each value consumed twice (to_array/len/last/get), 30%% of them with error-producing callbacks; "
                           "non-trivial = distinct pipelines with at least 3 operations" % max_ops)


def fixed_probes():
    P = []
    def add(e, v, key):
        P.append((e, dump(v) if not isinstance(v, str) else v, key))
    arr = "[3, 1, 4, 1, 5, 9, 2, 6].to_generator()"
    xs = [3, 1, 4, 1, 5, 9, 2, 6]
    add(f"{arr}.chunks(3).to_array()", [xs[0:3], xs[3:6], xs[6:8]], "probe:chunks:wrong")
    add("count().to_generator().chunks(2).take(2).to_array()", [[0, 1], [2, 3]], "probe:chunks:lazy")
    add("[1, 2].to_generator().product([3, 4].to_generator()).to_array()", [(1, 3), (1, 4), (2, 3), (2, 4)], "probe:product:wrong")
    add("[1, 2].to_generator().product(count().to_generator()).take(3).to_array()", [(1, 0), (1, 1), (1, 2)], "probe:product:lazy")
    add(f"{arr}.nth(1, (x:int)->{{x > 3}})", "(some (int S 5))", "probe:nth:wrong")
    add(f"{arr}.nth(7, (x:int)->{{x > 3}})", "(none)", "probe:nth:none")
    add("count().to_generator().nth(2, (x:int)->{x % 5 == 4})", "(some (int S 14))", "probe:nth:lazy")
    add(f"{arr}.reduce((a:int, b:int)->{{a * 2 + b}})", __import__("functools").reduce(lambda a, b: a * 2 + b, xs), "probe:reduce:wrong")
    add(f"{arr}.reduce(100, (a:int, b:int)->{{a - b}})", 100 - sum(xs), "probe:reduce2:wrong")
    add(f"{arr}.map(to_str{{int}}).join('-')", '(str "3-1-4-1-5-9-2-6")', "probe:join:wrong")
    add(f"{arr}.sum()", sum(xs), "probe:sum:wrong")
    add(f"{arr}.any((x:int)->{{x > 8}})", True, "probe:any:wrong")
    add("count().to_generator().any((x:int)->{x > 8})", True, "probe:any:lazy")
    add(f"{arr}.all((x:int)->{{x > 1}})", False, "probe:all:wrong")
    add("count().to_generator().all((x:int)->{x < 8})", False, "probe:all:lazy")
    add(f"{arr}.first((x:int)->{{x > 4}})", "(some (int S 5))", "probe:first:wrong")
    add(f"{arr}.count((x:int)->{{x == 1}})", 2, "probe:count:wrong")
    add(f"{arr}.max()", 9, "probe:max:wrong")
    add(f"{arr}.min()", 1, "probe:min:wrong")
    add("[[1].to_generator(), [2, 3].to_generator(), [4].to_generator().take(0)].to_generator().flatten().to_array()", [1, 2, 3], "probe:flatten:wrong")
    add("[[1].to_generator(), count().to_generator()].to_generator().flatten().take(3).to_array()", [1, 0, 1], "probe:flatten:inner-infinite")
    # flatten is `reduce([].to_generator(), add)` (include.rs:1319): it consumes its outer generator completely
    add("count().to_generator().map((x:int)->{[x, x].to_generator()}).flatten().take(3).to_array()", [0, 0, 1], "lazy:flatten:outer-infinite")
    add(f"{arr}.skip(2).take(3).skip(1).to_array()", xs[2:5][1:], "probe:slice3:wrong")
    add(f"{arr}.take(6).skip(1).take(2).skip(1).to_array()", xs[:6][1:][:2][1:], "probe:slice4:wrong")
    return P


def corpus_cases():
    """witnesses of the defects repaired in /repo (see design/C16.findings.json), replayed on every run"""
    def P(src, toks, orc, ops, ty=INT):
        return Pipe(src, toks, orc, ty=ty, ops=ops)
    cnt = o_count()
    out = []
    # slice took `end` elements instead of `end - start`
    out.append((P("count().to_generator().skip(2).take(3)", ["count", "skip:2", "take:3"], o_slice(cnt, 2, 5), ["count", "skip", "take"]),
                "toarray", None, "to_array()"))
    out.append((P("count().to_generator().take(3).skip(5)", ["count", "take:3", "skip:5"], o_slice(o_slice(cnt, 0, 3), 5, None), ["count", "take", "skip"]),
                "toarray", None, "to_array()"))
    # chain collected each part eagerly
    out.append((P("[1, 2, 3].to_generator().add(count().to_generator()).take(5)", ["arr:1,2,3", "count", "add", "take:5"],
                  o_slice(o_chain([o_arr([1, 2, 3]), cnt]), 0, 5), ["arr", "count", "add", "take"]), "toarray", None, "to_array()"))
    # repeat of an empty generator never returned
    out.append((P("[1].to_generator().take(0).repeat().take(2)", ["arr:1", "take:0", "repeat", "take:2"],
                  o_arr([]), ["arr", "take", "repeat", "take"]), "toarray", None, "to_array()"))
    # zip lost the alignment of its parts after an error element of an earlier part
    f = strict(lambda x: ERR if x == 0 else 6 // x)
    out.append((P("[0, 1, 2].to_generator().map((x:int)->{div_floor(6, x - 0)}).zip(count().to_generator()).skip(1)",
                  ["arr:0,1,2", "map:divf:6:0", "count", "zip:2", "skip:1"],
                  o_slice(o_zip([o_map(o_arr([0, 1, 2]), f), cnt]), 1, None), ["arr", "map", "count", "zip", "skip"], ty=TUP2),
                "toarray", None, "to_array()"))
    return out


def replay(path):
    """re-run a replay file: the program through the interpreter (and the model request, if any); exit 1 while it still fails"""
    d = json.load(open(path))
    r = d["replay"]
    req = {"op": r.get("op", "run"), "src": r["src"], "get": r.get("get", ["a"]), "limits": r.get("limits", {})}
    if "f" in r:
        req["f"] = r["f"]
    resp = run_harness([req], per_req_timeout=30.0)[0]
    fail = _fail(resp)
    got = {k: (fail if fail is not None else resp["vals"].get(k)) for k in req["get"]}
    print("program :", r["src"])
    print("limits  :", req["limits"])
    print("got     :", got)
    if "expected" in r:
        print("expected:", r["expected"])
    mo = None
    if "model" in r:
        mo = run_model([r["model"]])[0]
        print("model   :", r["model"], "=>", mo)
    vals = [canon_impl(v) for v in got.values()]
    bad = any(v in ("HANG", "PANIC") or v.startswith("COMPILE") for v in vals) or len(set(vals)) > 1
    if r.get("expected") is not None:
        bad = bad or any(v != canon_impl(r["expected"]) for v in vals)
    if r.get("expect_no_violation"):
        bad = bad or any(v == "VIOL" for v in vals)
    if mo is not None and r.get("expected") is None:
        bad = bad or any(v != parse_model(mo) for v in vals)
    print("VIOLATION property=C16 replay=%s" % path if bad else "no longer failing")
    return 1 if bad else 0
