"""C09 — Size limit is enforced and memory accounting balances.
Proofs: lean/Props/C09.lean over lean/XrayModel/Alloc.lean and the table lean/Generated/SizeLimitUses.lean that
translate/size_uses.py regenerates from /repo/src on every run (reads of size_limit, writes to the accounted total, the
shape of Runtime::allocate - in particular whether a failed allocation gives its bytes back).
Tie: (A) the compiled model (engine `alloc`) against Runtime::allocate / deallocate / can_allocate and managed values
driven directly through hook wrappers on random event traces, with a Python bookkeeping oracle; (B) whole programs
(ints, strings, sequences, stacks, sets, mappings, closures, compounds, errors, repeated calls on one runtime) run
under every / sampled size limits between the library baseline and the program's need: violation kind per limit,
accounted total back at the baseline after the evaluation scope is dropped (also after a violation), results of passing
runs identical, monotonicity in the limit."""
import os
import sys
from .common import *

TRANSLATOR = os.path.join(VERIF, "translate", "size_uses.py")
HUGE = 10**9


def translate():
    rc, out = sh([sys.executable, TRANSLATOR])
    if rc != 0:
        raise BuildError("size_uses.py failed:\n" + out[-3000:])


PROGRAMS = {
    "ints": "let a = 2**100; let b = a * a + 1; let c = [a, b, a*b]; let d = c.map((x: int) -> {x * x}).to_array();",
    "strings": "let s = 'abc' * 50; let t = s + s; let u = [s, t, s + 'x']; let v = t.len();",
    "sequences": "let q = range(50).map((i:int)->{i*i}).to_array(); let f = q.filter((i:int)->{i%2==0}).to_array(); let z = q.sort(); let w = q + f;",
    "stacks": "let st = stack().push(1).push(2).push(2**70); let ar = st.to_array(); let h = st.tail().head();",
    "sets": "let s1 = set<int>().add(1).add(2).add(2**80); let s2 = s1.update(range(20)); let n = s2.len(); let s3 = s2.remove(2).discard(77);",
    "mappings": "let m = mapping<int>().set(1, 'a').set(2, 'b' * 30); let g = m.get(2); let k = m.keys().to_array().sort(); let m2 = m.discard(1);",
    "closures": "let a = 2**90; let f = (x:int) -> {x + a}; let g = [1,2,3].map(f).to_array(); fn mk(k: int) -> (int)->(int) { (x: int) -> {x * k + a} } let h = mk(7)(3);",
    "compounds": "struct P(x: int, y: str) let p = P(1,'a'); let ps = range(20).map((i:int)->{P(i, 'x'*i)}).to_array(); let t = (1, 'two', 3.0, [2**64]);",
    "unions_optionals": "union U(a: int, b: str) let u = U::b('hello' * 10); let w = [U::a(1), U::a(2**70)]; let o = some(2**70); let n = none();",
    "errors": "let e = error('boom' * 20); let v = if(is_error(e), 1, 2); let d = [1, 2].map((i: int) -> {error('x' * 10)}).to_array().len();",
    "floats": "let xs = range(30).map((i: int) -> {i / 7}).to_array(); let s = xs.sum(); let m = xs.mean();",
    "recursion": "fn fact(n: int) -> int { if(n <= 1, 1, n * fact(n - 1)) } let r = fact(40); let rs = range(10).map(fact).to_array();",
    "empty": "let z = 0;",
}
# functions called repeatedly on one runtime (their results are dropped after each call)
CALL_PROGRAMS = {
    "call_ints": ("fn build() -> int { range(30).map((i:int)->{2**(64+i)}).to_array().len() }", "build"),
    "call_strings": ("fn build() -> str { range(12).map((i:int)->{'ab' * (i + 1)}).reduce('', (a: str, b: str) -> {a + b}) }", "build"),
    "call_error": ("fn build() -> int { error('no' * 40) }", "build"),
}


def bookkeeping_oracle(limit, events, consts):
    """what the property demands of the accounting, with plain dicts: -> list of (outcome, size after), size before cleanup"""
    live, size, out = {}, 0, []
    for ev in events:
        k = ev[0]
        if k in ("a", "e", "s"):
            b = ev[2]
            if k == "s":
                b = consts["xvalue"] + consts["fenced_string"] + ev[2]
            if limit is None:
                live[ev[1]] = 0
                out.append(("ok 0" if k == "a" else "ok", 0))
            elif size + b > limit:
                out.append(("viol", size))
            else:
                size += b
                live[ev[1]] = b
                out.append((f"ok {b}" if k == "a" else "ok", size))
        elif k == "d":
            if ev[1] in live:
                size -= live.pop(ev[1])
                out.append(("ok", size))
            else:
                out.append(("noop", size))
        elif k == "p":
            out.append(("ok" if limit is None or min(size + ev[1], 2**64 - 1) <= limit else "viol", size))
    return out, size


def gen_trace(rng):
    limit = rng.choice([None, 0, 1, 50, 100, 200, 1000, 5000, 10**6])
    n = rng.choice([3, 8, 20, 40])
    events, ids, next_id = [], [], 1
    for _ in range(n):
        r = rng.random()
        scale = rng.choice([1, 10, 100, 1000]) if limit is None else max(1, limit // rng.choice([1, 2, 3, 5, 10]))
        if r < 0.45 or not ids:
            kind = rng.choice(["a", "a", "a", "e", "s"])
            b = rng.choice([0, 1, rng.randint(0, scale), scale, scale + 1])
            i = next_id
            next_id += 1
            events.append([kind, i, b])
            ids.append(i)
        elif r < 0.8:
            i = rng.choice(ids + [999]) if rng.random() < 0.9 else 999
            events.append(["d", i])
            if i in ids:
                ids.remove(i)
        else:
            events.append(["p", rng.choice([0, 1, rng.randint(0, 2 * scale), scale, 10**12, 2**64 - 1, 2**64 - 2])])
    return limit, events


def run(chk):
    rng = chk.rng
    quick = chk.tier == "quick"
    chk.trusted += [
        "translate/size_uses.py reads the Rust sources faithfully (every read of size_limit with the form of each use of the bound "
        "variable; every write to the accounted total; Runtime::allocate / deallocate / can_allocate_by / ManagedXValue::new / the two "
        "Drop impls compared with the modelled text); it fails closed (an unrecognised use or a missing roll-back makes a `decide` "
        "theorem stop elaborating)",
        "Rust's Rc / Drop discipline (a managed value is dropped exactly once, when its last reference dies) is modelled as explicit "
        "drop events; Rc cycles and drop order are outside the model; totals are compared at quiescent points only",
        "`stats.size += size` is assumed not to overflow usize (the value exists in memory); values are immutable after construction, "
        "so the size recorded at construction is the size given back",
        "the size_of constants of the platform are reported by the harness and are parameters of the size model",
    ]
    ok = chk.prove()
    if not ok:
        handle_broken(chk)

    (shape,) = run_model(["alloc shape"])
    chk.coverage["generated_shape"] = shape
    consts = run_harness([{"op": "alloc", "f": "consts"}])[0]
    chk.coverage["size_constants"] = consts
    if consts.get("string_value_10") != consts["xvalue"] + consts["fenced_string"] + 10:
        chk.violation("tie:alloc:string-size", f"XValue::size of a 10-byte ASCII string is {consts.get('string_value_10')}, the size model says "
                      f"{consts['xvalue'] + consts['fenced_string'] + 10}", {"consts": consts}, no_input=True)

    # ------------------------------------------------------------------ (A) accounting driven directly
    n_traces = 600 if quick else 60000
    traces = [gen_trace(rng) for _ in range(n_traces)]
    reqs = [{"op": "alloc", "f": "trace", "limit": lim, "events": evs} for lim, evs in traces]
    cs = f"{consts['xvalue']},{consts['bigint']},{consts['fenced_string']},{consts['usize']},{consts['rc']},{consts['vec']}"
    mlines = ["alloc trace " + ("-" if lim is None else str(lim)) + " " + cs + " " +
              " ".join((f"{e[0]}{e[1]}:{e[2]}" if e[0] in "aes" else f"{e[0]}{e[1]}") for e in evs) for lim, evs in traces]
    impl = run_harness(reqs)
    model = run_model(mlines)
    for (lim, evs), req, ri, rm, ml in zip(traces, reqs, impl, model, mlines):
        chk.evaluations += 1
        chk.count("trace:limit:" + ("none" if lim is None else "some"))
        want, want_final = bookkeeping_oracle(lim, evs, consts)
        replay = {"harness": req}
        if "panic" in ri or "steps" not in ri:
            chk.violation("unit:accounting:panic", f"driving the accounting directly panicked: {ri.get('panic', ri)}", dict(replay, got=ri))
            continue
        got = [(s[0], s[1]) for s in ri["steps"]]
        n_fail = sum(1 for w in want if w[0] == "viol")
        if n_fail:
            chk.nontrivial.add((lim, tuple(map(tuple, evs))))
        bad = next((i for i, (g, w) in enumerate(zip(got, want)) if g != w), None)
        if bad is not None or ri["size_before_cleanup"] != want_final or ri["size_final"] != 0:
            if bad is not None:
                g, w = got[bad], want[bad]
                kind = "leak" if g[0] == w[0] else ("limit" if "viol" in (g[0], w[0]) else "outcome")
                what = f"event {bad} {evs[bad]} (limit {lim}): implementation ({g[0]}, total {g[1]}), conservation demands ({w[0]}, total {w[1]})"
            else:
                kind = "final"
                what = f"total before cleanup {ri['size_before_cleanup']} (expected {want_final}), after dropping everything {ri['size_final']} (expected 0)"
            chk.violation(f"unit:accounting:{kind}", what, dict(replay, expected=want, got=ri))
            continue
        # tie
        mp = rm.split("|")
        msteps = [tuple(x.rsplit(",", 1)) for x in mp[0].split(";")] if mp[0] else []
        msteps = [(a, int(b)) for a, b in msteps]
        if msteps != got or len(mp) != 3 or int(mp[1]) != ri["size_before_cleanup"] or mp[2] != "0":
            chk.violation("tie:alloc:trace", f"model and implementation disagree on a trace the implementation handles as the oracle demands: model={rm[:300]} impl={ri}",
                          dict(replay, model=ml, model_out=rm), no_input=True)
    chk.sample({"trace": reqs[0], "expected": bookkeeping_oracle(traces[0][0], traces[0][1], consts)[0][:6]})

    # ------------------------------------------------------------------ (C) the size model: one value at a time
    # accounted(`let x = V;`) - accounted(`let x = 0;`) + size_of(XValue) is what the runtime recorded for V (and its parts)
    vcases = []   # (label, xray expr, model lines [(kind, args)], extra parts, payload bytes demanded by the property)
    for k in ([63, 64, 65, 100, 127, 128, 129, 640, 1000, 4096] + [rng.randint(64, 3000) for _ in range(10 if quick else 200)]):
        for sgn in ("", "-"):
            mag = 2 ** k + (1 if sgn else 0)       # -(2**63) is Short, -(2**63+1) is Long
            if sgn == "" and mag < 2 ** 63 or sgn == "-" and mag <= 2 ** 63:
                shape = ("intShort", [])
                payload = 0
            else:
                d = (mag.bit_length() + 63) // 64
                shape = ("intLong", [d])
                payload = d * 8
            vcases.append((f"int:{sgn}2^{k}", f"{sgn}(2**{k}{' + 1' if sgn else ''})" if sgn else f"2**{k}", [shape], payload))
    for n in ([0, 1, 3, 100, 1000] + [rng.randint(0, 500) for _ in range(8 if quick else 100)]):
        vcases.append((f"str:ascii:{n}", f"'a' * {n}" if n != 1 else "'a'", [("string", [n, 0])], n))
        if n:
            vcases.append((f"str:2byte:{n}", f"'é' * {n}" if n != 1 else "'é'", [("string", [2 * n, n])], 2 * n))
    for n in [0, 1, 2, 3, 5, 9]:
        if n == 0:
            continue
        tup = "(" + ", ".join(str(i) for i in range(n)) + ("," if n == 1 else "") + ")"
        if n == 1:
            continue
        vcases.append((f"tuple:{n}", tup, [("struct", [n])] + [("intShort", [])] * n, n * consts["usize"]))
    vcases.append(("closure:1", "(i: int) -> {i}", [("fn", [1])], consts["usize"]))
    vcases.append(("float", "1.5", [("float", [])], 0))
    vcases.append(("bool", "true", [("bool", [])], 0))
    vreqs = [{"op": "run", "src": f"let x = {e};", "get": [], "limits": {"size": HUGE}} for _, e, _, _ in vcases]
    base_r = run_harness([{"op": "run", "src": "let x = 0;", "get": [], "limits": {"size": HUGE}}])[0]
    vres = run_harness(vreqs)
    vlines, vidx = [], []
    for i, (_, _, shapes, _) in enumerate(vcases):
        for kind, args in shapes:
            vlines.append((f"alloc size {cs} {kind} " + " ".join(map(str, args))).strip())
            vidx.append(i)
    vmod = run_model(vlines)
    pred = {}
    for i, out in zip(vidx, vmod):
        pred[i] = pred.get(i, 0) + int(out.split()[0])
    for i, ((label, e, shapes, payload), r) in enumerate(zip(vcases, vres)):
        chk.evaluations += 1
        chk.count("value:" + label.split(":")[0])
        replay = {"op": "run", "src": f"let x = {e};", "get": [], "limits": {"size": HUGE}}
        if _fail(r) or r.get("inst") != "ok" or _fail(base_r):
            chk.violation(f"value:{label.split(':')[0]}:run", f"`let x = {e};` does not run: {_fail(r) or r.get('inst')}", dict(replay, got=r))
            continue
        recorded = r["size1"] - base_r["size1"] + consts["xvalue"]
        if recorded < payload:
            chk.violation(f"value:{label.split(':')[0]}:under-accounted", f"`let x = {e};` accounts {recorded} bytes for a value whose payload is {payload} bytes",
                          dict(replay, got=r, recorded=recorded, payload=payload))
        elif payload and label.split(':')[0] in ("int", "str") and r["size1"] - base_r["size1"] < payload:
            # the payload of a long integer / a string lives on the heap, beside the value cell that `let x = 0` already
            # occupies: the excess over that cell-only binding must cover it (a digit or byte count rounded DOWN shows here)
            chk.violation(f"value:{label.split(':')[0]}:heap-under-accounted",
                          f"`let x = {e};` accounts {r['size1'] - base_r['size1']} bytes more than `let x = 0;` (one value cell), but its heap payload is {payload} bytes",
                          dict(replay, got=r, excess=r["size1"] - base_r["size1"], payload=payload))
        elif recorded != pred[i]:
            chk.violation(f"tie:alloc:size:{label.split(':')[0]}", f"`let x = {e};`: the runtime records {recorded} bytes, the size model says {pred[i]} "
                          f"(the value is accounted for at least its payload of {payload} bytes)", dict(replay, recorded=recorded, model=pred[i]), no_input=True)
        if payload:
            chk.nontrivial.add(("value", label))

    # ------------------------------------------------------------------ (D) native containers: dyn_size against the model,
    # a Python lower bound (one machine word per stored value pointer) and a metamorphic check on hash collisions
    word = consts["usize"]
    EQ = "(a: int, b: int)->{a == b}"
    ncases = []   # (label, declaration, binding, model shape (kind, args), stored value pointers)
    k = 0
    ns_ = [0, 1, 2, 3, 10, 40] + [rng.randint(1, 120) for _ in range(3 if quick else 30)]
    for n in ns_:
        for b in sorted({1, 2, 3, 7, max(1, n // 2), max(1, n), 10**6}):
            buckets = min(n, b)
            k += 1
            ncases.append((f"mapping:{n}:{b}", f"let v{k} = mapping((x: int)->{{x % {b}}}, {EQ}).update(range({n}).map((i: int)->{{(i, i * 3)}}));",
                           f"v{k}", ("mapping", [buckets, n]), 2 * n))
            k += 1
            ncases.append((f"set:{n}:{b}", f"let v{k} = set((x: int)->{{x % {b}}}, {EQ}).update(range({n}));", f"v{k}", ("set", [buckets, n]), n))
        k += 1
        ncases.append((f"mapping-lib:{n}", f"let v{k} = mapping<int>().update(range({n}).map((i: int)->{{(i, 'v')}}));", f"v{k}", ("mapping", [n, n]), 2 * n))
        k += 1
        ncases.append((f"set-lib:{n}", f"let v{k} = set<int>().update(range({n}));", f"v{k}", ("set", [n, n]), n))
        if n:
            k += 1
            ncases.append((f"array:{n}", f"let v{k} = range({n}).map((i: int)->{{i * i}}).to_array();", f"v{k}", ("seqArray", [n]), n))
            k += 1
            ncases.append((f"array-lit:{n}", f"let v{k} = [" + ", ".join(str(i) for i in range(n)) + "];", f"v{k}", ("seqArray", [n]), n))
            k += 1
            ncases.append((f"stack:{n}", f"let v{k} = range({n}).reduce(stack(), (s: Stack<int>, i: int)->{{s.push(i)}});", f"v{k}", ("stack", [n, 1]), n))
        k += 1
        ncases.append((f"lazy-range:{n}", f"let v{k} = range({n});", f"v{k}", ("seqOther", []), 0))
        k += 1
        ncases.append((f"lazy-map:{n}", f"let v{k} = range({n}).map((i: int)->{{i}});", f"v{k}", ("seqOther", []), 0))
    for parts in [2, 3, 5]:
        k += 1
        ncases.append((f"chain:{parts}", f"let v{k} = " + " + ".join(f"[{i}, {i}]" for i in range(parts - 1)) + " + range(3);", f"v{k}", ("seqChain", [parts]), parts))
        k += 1
        ncases.append((f"zip:{parts}", f"let v{k} = zip(" + ", ".join(f"[{i}, {i + 1}]" for i in range(parts)) + ");" if parts == 2 else
                       f"let v{k} = [1, 2].zip([3, 4]);", f"v{k}", ("seqZip", [2]), 2))
        k += 1
        ncases.append((f"gen-chain:{parts}", f"let v{k} = " + " + ".join(f"[{i}].to_generator()" for i in range(parts)) + ";", f"v{k}", ("genChain", [parts]), parts))
    k += 1
    ncases.append(("gen-zip:2", f"let v{k} = [1, 2].to_generator().zip([3, 4].to_generator());", f"v{k}", ("genZip", [2]), 2))
    k += 1
    ncases.append(("gen-other", f"let v{k} = range(10).to_generator();", f"v{k}", ("genOther", []), 0))
    k += 1
    ncases.append(("stack:0", f"let v{k} = stack();", f"v{k}", ("stack", [0, 1]), 0))
    k += 1
    ncases.append(("optional:some", f"let v{k} = some(2**70);", f"v{k}", ("optional", []), 0))
    k += 1
    ncases.append(("optional:none", f"let v{k} = none();", f"v{k}", ("optional", []), 0))
    nreqs = [{"op": "alloc", "f": "sizes", "src": c[1], "names": [c[2]], "limit": HUGE} for c in ncases]
    nres = run_harness(nreqs)
    nmod = run_model([(f"alloc size {cs} {c[3][0]} " + " ".join(map(str, c[3][1]))).strip() for c in ncases])
    for (label, decl, name, shape, entries), req, r, mo in zip(ncases, nreqs, nres, nmod):
        chk.evaluations += 1
        kind = label.split(":")[0]
        chk.count("native:" + kind)
        replay = {"op": "run", "src": decl, "get": [], "limits": {"size": HUGE}, "sizes_request": req}
        v = r.get("values", {}).get(name) if isinstance(r, dict) else None
        if not isinstance(v, dict) or "dyn" not in v:
            chk.violation(f"value:{kind}:run", f"`{decl}` did not yield a native value: {json.dumps(r)[:300]}", dict(replay, got=r))
            continue
        if v["dyn"] < entries * word:
            chk.violation(f"value:{kind}:under-accounted", f"`{decl}`: the container holds {entries} value pointers ({entries * word} bytes) but its dynamic size is "
                          f"accounted as {v['dyn']} bytes", dict(replay, got=v, entries=entries))
            continue
        if v["size"] != consts["xvalue"] + consts["usize"] + v["static"] + v["dyn"]:
            chk.violation(f"tie:alloc:size:{kind}", f"`{decl}`: XValue::size is {v['size']}, not size_of(XValue) + size_of(usize) + static + dyn = "
                          f"{consts['xvalue'] + consts['usize'] + v['static'] + v['dyn']}", dict(replay, got=v), no_input=True)
        elif mo.split()[0] != str(v["dyn"]):
            chk.violation(f"tie:alloc:dyn_size:{kind}", f"`{decl}`: dyn_size is {v['dyn']}, the size model says {mo.split()[0]} for {shape}",
                          dict(replay, got=v, model=mo), no_input=True)
        if entries:
            chk.nontrivial.add(("native", label))
    # metamorphic, model-free, on the accounted total itself: the same n entries under hash functions with different collision
    # patterns (only the value of `b` differs between the programs); collisions may save bucket headers (<= 3 words each), never entries
    mcases = []
    for what in ("mapping", "set"):
        for n in [5, 20, 60] + [rng.randint(2, 150) for _ in range(2 if quick else 20)]:
            for b in sorted({1, 2, max(1, n // 3), n - 1}):
                mcases.append((what, n, b))

    def msrc(what, n, b):
        fill = f".update(range({n}).map((i: int)->{{(i, i)}}))" if what == "mapping" else f".update(range({n}))"
        return f"let b = {b}; let c = {what}((x: int)->{{x % b}}, {EQ}){fill};"
    mreqs = []
    for what, n, b in mcases:
        mreqs.append({"op": "run", "src": msrc(what, n, 10**9), "get": [], "limits": {"size": HUGE}})
        mreqs.append({"op": "run", "src": msrc(what, n, b), "get": [], "limits": {"size": HUGE}})
    mres = run_harness(mreqs)
    for i, (what, n, b) in enumerate(mcases):
        chk.evaluations += 1
        chk.count("metamorphic:" + what)
        rinj, rcol = mres[2 * i], mres[2 * i + 1]
        replay = dict(mreqs[2 * i + 1], injective_src=mreqs[2 * i]["src"])
        if _fail(rinj) or _fail(rcol) or rinj.get("inst") != "ok" or rcol.get("inst") != "ok":
            chk.violation(f"meta:{what}:run", f"the metamorphic pair does not run: {_fail(rinj) or rinj.get('inst')} / {_fail(rcol) or rcol.get('inst')}", replay)
            continue
        saved = rinj["size1"] - rcol["size1"]
        buckets = min(n, b)
        if saved < 0 or saved > (n - buckets) * 3 * word:
            chk.violation(f"meta:{what}:collisions", f"a {what} of {n} entries accounts {rinj['size1']} bytes in total with an injective hash and {rcol['size1']} with "
                          f"hash x % {b} ({buckets} buckets): colliding entries save {saved} bytes, more than the {n - buckets} bucket headers "
                          f"({(n - buckets) * 3 * word} bytes) they can save - stored entries are not accounted", dict(replay, injective=rinj["size1"], colliding=rcol["size1"]))
        chk.nontrivial.add(("meta", what, n, b))

    # ------------------------------------------------------------------ (B) programs under a sweep of the limit
    lib = run_harness([{"op": "run", "src": "", "get": [], "limits": {"size": HUGE}}])[0]
    lib_base = lib.get("size1", 0)
    chk.coverage["library_baseline_bytes"] = lib_base
    sweep_stats = {}
    all_progs = [(n, s, None) for n, s in PROGRAMS.items()] + [(n, s, f) for n, (s, f) in CALL_PROGRAMS.items()]
    def mkreq(src, fn, L):
        r = {"op": "run", "src": src, "get": [] if fn else sorted(set(re.findall(r"let (\w+) =", src))), "limits": {"size": L}}
        if fn:
            r["calls"] = [fn, fn, fn]
        return r

    def passes(r):
        return _fail(r) is None and r.get("inst") == "ok" and all(not str(c).startswith("!viol") for c in r.get("calls", []))

    refs = run_harness([mkreq(src, fn, HUGE) for _, src, fn in all_progs], per_req_timeout=30.0)
    # the least passing limit of every program, by 12-ary search (monotonicity itself is checked on the sweep below)
    bounds = {}
    for (name, src, fn), ref in zip(all_progs, refs):
        fail = _fail(ref)
        if fail or not passes(ref):
            chk.violation(f"sweep:{name}:reference", f"the program does not run with a huge limit: {fail or ref.get('inst')}", {"src": src, "got": ref})
        else:
            bounds[name] = [0, max(ref["size1"] * 2, ref["size1"] + 200000)]
    while any(hi - lo > 1 for lo, hi in bounds.values()):
        qs = []
        for name, src, fn in all_progs:
            if name in bounds and bounds[name][1] - bounds[name][0] > 1:
                lo, hi = bounds[name]
                step = max(1, (hi - lo) // 13)
                for L in sorted(set(range(lo + step, hi, step))):
                    qs.append((name, L, mkreq(src, fn, L)))
        rs = run_harness([q[2] for q in qs], per_req_timeout=30.0)
        for (name, L, _), r in zip(qs, rs):
            lo, hi = bounds[name]
            if passes(r):
                bounds[name][1] = min(hi, L)
            else:
                bounds[name][0] = max(lo, L) if L < bounds[name][1] else lo
    for (name, src, fn), ref in zip(all_progs, refs):
        if name not in bounds:
            continue
        final = ref["size1"]
        need = bounds[name][1]

        def req(L):
            return mkreq(src, fn, L)
        if quick:
            pts = {0, 1, lib_base // 2, lib_base - 1, lib_base, lib_base + 1, final - 1, final, final + 1, need - 2, need - 1, need, need + 1, need + 100, HUGE}
            span = list(range(max(0, lib_base - 64), need + 1))
            pts |= set(rng.sample(span, min(len(span), 12)))
        else:
            # every limit near the library baseline and in the last 1200 bytes below the program's need (where the failure
            # walks through the program's own allocations), every 5th limit in between
            pts = set(range(max(0, lib_base - 300), min(need, lib_base + 300))) | set(range(max(0, need - 1200), need + 40)) | \
                set(range(lib_base, need, 5)) | {0, 1, lib_base // 2, HUGE}
        pts = sorted(p for p in pts if p >= 0)
        res = run_harness([req(L) for L in pts], per_req_timeout=30.0)
        n_pass = n_fail = 0
        for L, r in zip(pts, res):
            chk.evaluations += 1
            replay = dict(req(L))
            f = _fail(r)
            if f:
                chk.violation(f"sweep:{name}:{f.split()[0]}", f"limit {L}: {f}", dict(replay, got=r))
                continue
            p = passes(r)
            n_pass += p
            n_fail += (not p)
            if not p:
                chk.nontrivial.add((name, L))
            viols = ([r["inst"]["viol"]] if r.get("inst") != "ok" else []) + [str(c)[6:] for c in r.get("calls", []) if str(c).startswith("!viol")]
            if any(v != "AllocationLimitReached" for v in viols):
                chk.violation(f"sweep:{name}:wrong-violation", f"limit {L}: the run ends in {viols}, not in an allocation violation", dict(replay, got=r))
            if r.get("size0") != 0:
                chk.violation(f"sweep:{name}:fresh-nonzero", f"limit {L}: a fresh runtime accounts {r.get('size0')} bytes", dict(replay, got=r))
            if r.get("size2") != r.get("size0"):
                chk.violation(f"sweep:balance:{'after-violation' if not p else 'after-pass'}",
                              f"program `{name}`, limit {L}: after dropping the evaluation scope the accounted total is {r.get('size2')}, the baseline is "
                              f"{r.get('size0')} (run {'ended in ' + str(viols) if viols else 'passed'})", dict(replay, got=r))
            if r.get("inst") == "ok":
                if r.get("size1", 0) > L:
                    chk.violation(f"sweep:{name}:over-limit", f"limit {L}: {r.get('size1')} bytes accounted after a passing instantiation", dict(replay, got=r))
                if fn and r.get("size_live") != r.get("size1"):
                    chk.violation("sweep:balance:after-calls", f"program `{name}`, limit {L}: after three calls of `{fn}` (results dropped; outcomes {r.get('calls')}) the "
                                  f"accounted total is {r.get('size_live')}, before them {r.get('size1')}", dict(replay, got=r))
            if p:
                if r.get("vals") != ref.get("vals") or r.get("calls") != ref.get("calls") or r.get("size1") != ref.get("size1"):
                    chk.violation(f"sweep:{name}:result-depends-on-limit", f"limit {L}: a passing run differs from the run under a huge limit", dict(replay, got=r, ref=ref))
                if L < need:
                    chk.violation(f"sweep:{name}:not-monotone", f"limit {L} passes although the larger limit {need - 1} fails", dict(replay, got=r))
            elif L >= need:
                chk.violation(f"sweep:{name}:not-monotone", f"limit {L} fails although the smaller limit {need} passes", dict(replay, got=r))
        sweep_stats[name] = {"final_bytes": final, "least_passing_limit": need, "limits_tried": len(pts), "passing": n_pass, "failing": n_fail}
    chk.coverage["sweeps"] = sweep_stats
    chk.coverage["exhaustive_note"] = "thorough: every limit within 300 bytes of the library baseline and from (least passing limit - 1200) to (least passing limit + 40), every 5th limit in between, for every program" if not quick else \
        "quick: ~40 limits per program (0, 1, around the library baseline, around the program's final size, around its least passing limit, 12 sampled in between)"
    chk.sample({"sweep": "ints", "src": PROGRAMS["ints"]})

    # (E) generator pipelines with element-dependent transient allocations inside callbacks (coordinator's library probe):
    #     under every size limit the run ends in AllocationLimitReached or in exactly the unlimited result — a passing run's
    #     values never depend on L, and an allocation violation raised inside a predicate / mapper is never swallowed
    from . import libprobe
    libprobe.pipeline_transparency(chk, rng, 36 if quick else 600, prefix="c09", only_size=True)
    return chk.finish(rule="(A) random event traces of allocate / managed values / drops / pre-flights on a runtime with and without a limit; "
                           "(B) (program, limit) pairs; non-trivial = traces with at least one failed allocation or pre-flight, and (program, limit) "
                           "pairs whose run ends in a violation")


def _fail(r):
    if "panic" in r:
        return "panic " + r["panic"]
    if "abort" in r:
        return "abort " + str(r["abort"])
    if "hang" in r:
        return "hang"
    if r.get("compile") != "ok":
        c = r.get("compile")
        return "compile-err " + (c.get("msg", "?")[:200] if isinstance(c, dict) else str(c))
    return None


def replay(path):
    """./check C09 --replay FILE: re-run the recorded trace / program on the current tree and judge it again"""
    d = json.load(open(path))
    r = d["replay"]
    key = d.get("key")
    if "harness" in r:
        req = r["harness"]
        consts = run_harness([{"op": "alloc", "f": "consts"}])[0]
        out = run_harness([req])[0]
        want, want_final = bookkeeping_oracle(req.get("limit"), req["events"], consts)
        ok = "steps" in out and [(s[0], s[1]) for s in out["steps"]] == want and out["size_before_cleanup"] == want_final and out["size_final"] == 0
        print(f"replay {key}: {json.dumps(out)[:400]}")
    elif "sizes_request" in r and "entries" in r:
        consts = run_harness([{"op": "alloc", "f": "consts"}])[0]
        out = run_harness([r["sizes_request"]])[0]
        v = next(iter(out.get("values", {}).values()), None) if isinstance(out, dict) else None
        ok = isinstance(v, dict) and "dyn" in v and v["dyn"] >= r["entries"] * consts["usize"]
        print(f"replay {key}: {r['src']}  ->  {v}   ({r['entries']} stored value pointers)")
    elif "injective_src" in r:
        a, b = run_harness([dict(r, src=r["injective_src"], op="run"), {k: r[k] for k in ("op", "src", "get", "limits")}])
        ok = _fail(a) is None and _fail(b) is None and a.get("inst") == "ok" and b.get("inst") == "ok" and 0 <= a["size1"] - b["size1"]
        if ok:
            m = re.search(r"range\((\d+)\)", r["src"])
            mb = re.search(r"let b = (\d+);", r["src"])
            n, bb = int(m.group(1)), int(mb.group(1))
            ok = a["size1"] - b["size1"] <= (n - min(n, bb)) * 3 * 8
        print(f"replay {key}: accounted {a.get('size1')} with an injective hash, {b.get('size1')} with the colliding one")
    elif "src" in r:
        req = {k: r[k] for k in ("op", "src", "get", "limits", "calls") if k in r}
        out = run_harness([req])[0]
        viols = ([out["inst"]["viol"]] if isinstance(out.get("inst"), dict) else []) + [str(c)[6:] for c in out.get("calls", []) if str(c).startswith("!viol")]
        ok = _fail(out) is None and out.get("size2") == out.get("size0") == 0 and all(v == "AllocationLimitReached" for v in viols) \
            and (out.get("inst") != "ok" or "calls" not in req or out.get("size_live") == out.get("size1"))
        print(f"replay {key}: inst={out.get('inst')} calls={out.get('calls')} size0={out.get('size0')} size1={out.get('size1')} "
              f"size_live={out.get('size_live')} size2={out.get('size2')}")
    else:
        print(f"replay {key}: nothing executable recorded ({d.get('what', '')[:200]})")
        return 1
    if ok:
        print("OK property=C09 replay passes on the current tree")
        return 0
    print(f"VIOLATION property=C09 replay={path}")
    return 1
