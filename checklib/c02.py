"""C02 — Core evaluation follows the documented semantics (syntax half + evaluation order).
Proofs: lean/Props/C02.lean over lean/XrayModel/Syntax.lean (PEG of the expression rules, pest's precedence
climber over the operator table GENERATED from parser.rs / xray.pest by translate/ops.py, unary / accessor
desugaring) and lean/XrayModel/Core.lean (the run-time core evaluator).
Tie:
 (a) operator soups: the real parser's desugared tree (hook parse_expr_dump) vs the model's parse of the same
     source text vs the tree the *documented* precedence table prescribes (computed here, in Python, by
     splitting at the weakest operator — not by precedence climbing);
 (b) three-way behavioural runs of generated core programs printed with every sugar spelling, incl. user
     overloads of operator names on tuple types used through the operators;
 (c) evaluation order / exactly-once: `display` side effects in every argument position of natives and
     user functions."""
import sys
from .common import *
from . import coregen as cg
from .corecheck import Case, three_way, replay_file
from . import c02_structs as cs

TRANSLATOR = os.path.join(VERIF, "translate", "ops.py")


def translate():
    rc, out = sh([sys.executable, TRANSLATOR])
    if rc != 0:
        raise BuildError("translate/ops.py failed (xray.pest / parser.rs no longer have a shape the translator recognises):\n" + out[-3000:])


# ------------------------------------------------------------------------------------------------ documented syntax
# book/src/lang/functions.md "Operators": the binary operators "(and resolves them in the following order)"
#   ** | * / % | + - | | & ^ | <= < >= > == != | && ||      and the unary operators ! - +, `a[b]` = get(a, b),
#   `x.f(y)` = f(x, y).  Levels as stated in the property (tightest first); `**` groups to the right, all others
#   to the left; unary operators bind tighter than binary ones, accessors tighter than unary operators.
DOC_BINARY = {
    '**': ('pow', 6, True),
    '*': ('mul', 5, False), '/': ('div', 5, False), '%': ('mod', 5, False),
    '+': ('add', 4, False), '-': ('sub', 4, False),
    '|': ('bit_or', 3, False), '&': ('bit_and', 3, False), '^': ('bit_xor', 3, False),
    '<=': ('le', 2, False), '<': ('lt', 2, False), '>=': ('ge', 2, False), '>': ('gt', 2, False),
    '==': ('eq', 2, False), '!=': ('ne', 2, False),
    '&&': ('and', 1, False), '||': ('or', 1, False),
}
DOC_UNARY = {'!': 'not', '-': 'neg', '+': 'pos'}
DOC_INDEX = 'get'

IDENTS = ['a', 'b', 'c', 'x', 'y', 'zz', 'foo', '_t', 'q1', 'bar_2', 'n', 'm']
METHODS = ['f', 'g', 'add', 'get', 'len', 'map', 'h_1', 'neg']
MEMBERS = ['item0', 'item1', 'fld', 'item12', 'x']


class Soup:
    """random well-formed expression text with the structure it was generated from.
    structure: expr = ('flat', [operand, (optoken, operand), ..]); operand = ('opd', [unary tokens], atom, [accessors])
    atom = ('int', text) ('id', n) ('bool', b) ('str', s) ('paren', expr) ('arr', [expr], trailing) ('tup', [expr], trailing)
    accessor = ('method', name, [expr], trailing) ('call', [expr], trailing) ('member', name) ('index', [expr])"""

    def __init__(self, rng, max_depth=3, binops=None):
        self.rng = rng
        self.max_depth = max_depth
        ops = list(DOC_BINARY)
        # `name < types >` is a generic binding in the grammar: a soup uses `<` or `>`/`>=`, never both
        drop = ['<'] if rng.random() < 0.5 else ['>', '>=']
        self.binops = binops or [o for o in ops if o not in drop]

    def expr(self, d):
        rng = self.rng
        n = rng.choice([1, 2, 2, 3, 3, 4, 5, 6, 8]) if d == 0 else (rng.choice([1, 1, 2, 2, 3, 4]) if d < self.max_depth else rng.choice([1, 1, 2]))
        items = [self.operand(d)]
        for _ in range(n - 1):
            items.append((rng.choice(self.binops), self.operand(d)))
        return ('flat', items)

    def exprs(self, d, lo=0):
        return [self.expr(d + 1) for _ in range(self.rng.choice([lo, 1, 1, 2, 3] if d == 0 else [lo, 1, 1, 2]))]

    def operand(self, d):
        rng = self.rng
        un = [rng.choice(list(DOC_UNARY)) for _ in range(rng.choice([0, 0, 0, 0, 1, 1, 2, 3]))]
        accs = []
        for _ in range(rng.choice([0, 0, 0, 1, 1, 2, 3]) if d < self.max_depth else rng.choice([0, 0, 1])):
            k = rng.random()
            if k < 0.3:
                accs.append(('method', rng.choice(METHODS), self.exprs(d), rng.random() < 0.2))
            elif k < 0.5:
                accs.append(('call', self.exprs(d), rng.random() < 0.2))
            elif k < 0.75:
                accs.append(('member', rng.choice(MEMBERS)))
            else:
                accs.append(('index', self.exprs(d, lo=1) or [self.expr(d + 1)]))
        return ('opd', un, self.atom(d), accs)

    def atom(self, d):
        rng = self.rng
        k = rng.random()
        if d < self.max_depth and k < 0.22:
            return ('paren', self.expr(d + 1))
        if d < self.max_depth and k < 0.28:
            return ('arr', self.exprs(d), rng.random() < 0.2)
        if d < self.max_depth and k < 0.34:
            es = self.exprs(d)
            return ('tup', es, True if len(es) == 1 else rng.random() < 0.2)
        if k < 0.6:
            return ('id', rng.choice(IDENTS))
        if k < 0.9:
            return ('int', rng.choice(['0', '1', '2', '7', '10', '007', '1_000', '123456789012345678901234567890', '9223372036854775808']))
        if k < 0.95:
            return ('bool', rng.random() < 0.5)
        return ('str', rng.choice(['', 'a', 'x y', 'abc1']))

    # ---- text, with random spacing (the grammar is scannerless: spacing must not matter)
    def sp(self):
        return self.rng.choice(['', '', ' ', ' ', '  ', '\t', '\n'])

    def text(self, e):
        k = e[0]
        if k == 'flat':
            s = self.text(e[1][0])
            for (op, o) in e[1][1:]:
                s += self.sp() + op + self.sp() + self.text(o)
            return s
        if k == 'opd':
            s = ''
            for u in e[1]:
                s += u + self.sp()
            s += self.text(e[2])
            for a in e[3]:
                s += self.sp() + self.acc_text(a)
            return s
        if k == 'int':
            return e[1]
        if k == 'id':
            return e[1]
        if k == 'bool':
            return 'true' if e[1] else 'false'
        if k == 'str':
            return '"' + e[1] + '"'
        if k == 'paren':
            return '(' + self.sp() + self.text(e[1]) + self.sp() + ')'
        if k == 'arr':
            return '[' + self.list_text(e[1], e[2]) + ']'
        if k == 'tup':
            return '(' + self.list_text(e[1], e[2]) + ')'
        raise ValueError(e)

    def list_text(self, es, trailing):
        s = self.sp() + (',' + self.sp()).join(self.text(x) + self.sp() for x in es)
        return s + (',' + self.sp() if trailing else '')

    def acc_text(self, a):
        if a[0] == 'method':
            return '.' + self.sp() + a[1] + self.sp() + '(' + self.list_text(a[2], a[3]) + ')'
        if a[0] == 'call':
            return '(' + self.list_text(a[1], a[2]) + ')'
        if a[0] == 'member':
            return '::' + self.sp() + a[1]
        if a[0] == 'index':
            return '[' + self.list_text(a[1], False) + ']'
        raise ValueError(a)


def doc_tree(e):
    """the desugared tree the documented syntax prescribes, in the dump format of the hook"""
    k = e[0]
    if k == 'flat':
        return doc_split(e[1])
    if k == 'opd':
        s = doc_tree(e[2])
        for a in e[3]:
            if a[0] == 'method':
                s = '(call (id ' + a[1] + ') ' + ' '.join([s] + [doc_tree(x) for x in a[2]]) + ')'
            elif a[0] == 'call':
                s = '(call ' + ' '.join([s] + [doc_tree(x) for x in a[1]]) + ')'
            elif a[0] == 'member':
                s = '(member ' + s + ' ' + a[1] + ')'
            else:
                s = '(call (id ' + DOC_INDEX + ') ' + ' '.join([s] + [doc_tree(x) for x in a[1]]) + ')'
        for u in reversed(e[1]):
            s = '(call (id ' + DOC_UNARY[u] + ') ' + s + ')'
        return s
    if k == 'int':
        return '(int ' + str(int(e[1].replace('_', ''))) + ')'
    if k == 'id':
        return '(id ' + e[1] + ')'
    if k == 'bool':
        return '(bool true)' if e[1] else '(bool false)'
    if k == 'str':
        return '(str "' + e[1] + '")'
    if k == 'paren':
        return doc_tree(e[1])
    if k == 'arr':
        return '(arr' + ''.join(' ' + doc_tree(x) for x in e[1]) + ')'
    if k == 'tup':
        return '(tup' + ''.join(' ' + doc_tree(x) for x in e[1]) + ')'
    raise ValueError(e)


def doc_split(items):
    """items = [opd, (op, opd), ...]: split at the weakest operator — the rightmost one of the lowest level when the
    level groups to the left, the leftmost one when it groups to the right"""
    if len(items) == 1:
        return doc_tree(items[0])
    lvl = min(DOC_BINARY[op][1] for (op, _) in items[1:])
    idxs = [i for i in range(1, len(items)) if DOC_BINARY[items[i][0]][1] == lvl]
    right = DOC_BINARY[items[idxs[0]][0]][2]
    i = idxs[0] if right else idxs[-1]
    op = items[i][0]
    left = items[:i]
    rightpart = [items[i][1]] + items[i + 1:]
    return '(call (id ' + DOC_BINARY[op][0] + ') ' + doc_split(left) + ' ' + doc_split(rightpart) + ')'


def enc(s):
    return '.'.join(str(ord(c)) for c in s)


def soup_shape(e, acc):
    """features of a soup for the coverage counters"""
    k = e[0]
    if k == 'flat':
        ops = [op for (op, _) in e[1][1:]]
        for op in ops:
            acc.add('bin:' + op)
        lv = [DOC_BINARY[o][1] for o in ops]
        if len(set(lv)) > 1:
            acc.add('mixed-levels')
        if any(a == b for a, b in zip(lv, lv[1:])):
            acc.add('same-level-adjacent')
        if ops.count('**') > 1:
            acc.add('pow-chain')
        soup_shape(e[1][0], acc)
        for (_, o) in e[1][1:]:
            soup_shape(o, acc)
    elif k == 'opd':
        for u in e[1]:
            acc.add('un:' + u)
        if e[1] and e[3]:
            acc.add('unary-over-accessor')
        for a in e[3]:
            acc.add('acc:' + a[0])
            for x in (a[2] if a[0] == 'method' else a[1] if a[0] in ('call', 'index') else []):
                soup_shape(x, acc)
        soup_shape(e[2], acc)
    elif k in ('paren',):
        acc.add('paren')
        soup_shape(e[1], acc)
    elif k in ('arr', 'tup'):
        acc.add(k)
        for x in e[1]:
            soup_shape(x, acc)


def run_soups(chk, n, n_mut):
    rng = chk.rng
    soups = []
    for i in range(n):
        g = Soup(rng, max_depth=rng.choice([1, 2, 2, 3]))
        e = g.expr(0)
        soups.append((g.text(e), doc_tree(e), e))
    # every single operator, every pair of operators, every triple over one representative per level (exhaustive)
    toks = list(DOC_BINARY)
    fixed = []
    for o in toks:
        fixed.append(('flat', [('opd', [], ('id', 'a'), []), (o, ('opd', [], ('id', 'b'), []))]))
    for o1 in toks:
        for o2 in toks:
            if not ({'<'} & {o1, o2} and {'>', '>='} & {o1, o2}):
                fixed.append(('flat', [('opd', [], ('id', 'a'), []), (o1, ('opd', [], ('int', '1'), [])), (o2, ('opd', ['-'], ('id', 'c'), []))]))
    reps = ['**', '*', '+', '|', '<=', '&&', '%', '-']
    for o1 in reps:
        for o2 in reps:
            for o3 in reps:
                fixed.append(('flat', [('opd', [], ('id', 'a'), []), (o1, ('opd', [], ('id', 'b'), [])), (o2, ('opd', [], ('id', 'c'), [])), (o3, ('opd', [], ('id', 'd'), []))]))
    g0 = Soup(rng)
    for e in fixed:
        soups.append((g0.text(e), doc_tree(e), e))
    impl = run_harness([{"op": "parse", "srcs": [s for (s, _, _) in soups[j:j + 200]]} for j in range(0, len(soups), 200)])
    impl = [r for resp in impl for r in resp.get("rs", [])]
    model = run_model(["parse expr " + enc(s) for (s, _, _) in soups])
    if len(impl) != len(soups):
        raise BuildError("harness op parse answered %d of %d" % (len(impl), len(soups)))
    feats = set()
    for (src, want, e), ri, rm in zip(soups, impl, model):
        chk.evaluations += 1
        f = set()
        soup_shape(e, f)
        for x in f:
            chk.count("soup:" + x)
        if len(f) >= 3:
            chk.nontrivial.add(src)
        if ri != want:
            kind = "syntax-error" if ri == "syntax-error" else ("parse-error" if ri.startswith("parse-error") else ("panic" if ri == "panic" else "wrong-tree"))
            chk.violation(f"syntax:soup:{kind}", f"the parser's tree differs from the documented precedence / sugar on {src!r}: impl={ri[:400]} expected={want[:400]}",
                          {"src": src, "impl": ri, "expected": want})
        elif rm.startswith("unsupported"):
            chk.count("soup:model-unsupported")
        elif rm != ri:
            chk.violation("tie:syntax:soup", f"the Lean syntax model disagrees with the parser (which matches the documented table) on {src!r}: model={rm[:400]} impl={ri[:400]}",
                          {"src": src, "impl": ri, "model": rm, "model_request": "parse expr " + enc(src)}, no_input=True)
    chk.sample({"soup": soups[0][0], "tree": soups[0][1]})
    chk.sample({"soup": soups[1][0], "tree": soups[1][1]})

    # mutated soups (mostly ill-formed): accept/reject and tree, implementation vs model (no oracle: tie only)
    muts = []
    pieces = list(DOC_BINARY) + list(DOC_UNARY) + ['(', ')', '[', ']', ',', '.', '::', 'a', '1', ' ', 'b', '.f(', ')(']
    for i in range(n_mut):
        s = soups[rng.randrange(n)][0]
        for _ in range(rng.choice([1, 1, 2, 3])):
            p = rng.randrange(len(s) + 1)
            r = rng.random()
            if r < 0.45 and s:
                q = min(len(s), p + rng.choice([1, 1, 2, 3]))
                s = s[:p] + s[q:]
            elif r < 0.9:
                s = s[:p] + rng.choice(pieces) + s[p:]
            else:
                q = rng.randrange(len(s) + 1)
                s = s[:p] + s[q:] if p < q else s[:q] + s[p:]
        if '//' in s or '/*' in s:
            continue
        muts.append(s)
    impl = run_harness([{"op": "parse", "srcs": muts[j:j + 200]} for j in range(0, len(muts), 200)])
    impl = [r for resp in impl for r in resp.get("rs", [])]
    model = run_model(["parse expr " + enc(s) for s in muts])
    for src, ri, rm in zip(muts, impl, model):
        chk.evaluations += 1
        if rm.startswith("unsupported"):
            chk.count("mutated:model-unsupported")
            continue
        chk.count("mutated:" + ("rejected" if ri == "syntax-error" else "accepted"))
        if ri.startswith("parse-error") or ri == "panic":
            chk.count("mutated:impl-" + ri.split(" ")[0])
            continue
        if rm != ri:
            chk.violation("tie:syntax:mutated", f"the Lean syntax model and the parser disagree on the (possibly ill-formed) text {src!r}: model={rm[:300]} impl={ri[:300]}",
                          {"src": src, "impl": ri, "model": rm, "model_request": "parse expr " + enc(src)}, no_input=True)


# ------------------------------------------------------------------------------------------------ behavioural programs

class SugarPrinter(cg.Printer):
    """coregen's printer plus the spellings it lacks: index sugar for `get`, unary plus for `pos`"""

    def expr(self, e, prec=0):
        if e[0] == 'c':
            shown = e[1].split('@')[0]
            if shown == 'get' and len(e[2]) >= 2 and self.pick(3) != 2:
                return self.expr(e[2][0], 9) + '[' + ', '.join(self.expr(a) for a in e[2][1:]) + ']'
            if shown == 'pos' and len(e[2]) == 1 and self.pick(2) == 0:
                s = '+' + self.expr(e[2][0], 8)
                return '(' + s + ')' if prec > 7 else s
        return super().expr(e, prec)


BINDING_PRONE = re.compile(r"[A-Za-z_]\w*\s*<(?!=)[^;]*>")


def spell(chk, ds, rng, printer=None):
    """source text in a random sugar spelling that stays clear of the grammar's generic binding `name<types>`
    (a `<` after a name with a `>` later in the same statement, see design/C02.md: known finding
    c02:generic-binding:compile-err, replayed by generic_binding_cases); falls back to the call form"""
    printer = printer or SugarPrinter
    for _ in range(20):
        src = printer(rng).program(ds)
        if not BINDING_PRONE.search(src):
            return src
        chk.count("respelled:generic-binding")
    return printer(None, sugar=False).program(ds)


def generic_binding_cases():
    """well-typed core programs whose comparisons are taken for a generic binding by the grammar"""
    a, b = ('v', 'a'), ('v', 'b')
    lt, ge, gt = ('c', 'lt', [a, b]), ('c', 'ge', [b, a]), ('c', 'gt', [b, a])
    pre = [('let', 'a', ('i', 1), 'int'), ('let', 'b', ('i', 2), 'int')]
    both = ('fn', 'both', [('x', 'bool', None), ('y', 'bool', None)], 'bool', [], ('c', 'and', [('v', 'x'), ('v', 'y')]))
    return [
        (pre + [('let', 'r', ('c', 'if_error', [lt, ge]), 'bool')], "let a = 1;\nlet b = 2;\nlet r = if_error(a < b, b >= a);\n"),
        (pre + [both, ('let', 'r', ('c', 'both', [lt, gt]), 'bool')],
         "let a = 1;\nlet b = 2;\nfn both(x: bool, y: bool)->bool{\nx && y\n}\nlet r = both(a < b, b > a);\n"),
        (pre + [('let', 'r', ('tup', [lt, gt]), None)], "let a = 1;\nlet b = 2;\nlet r = (a < b, b > a);\n"),
        (pre + [('let', 'r', ('arr', [lt, gt], 'bool'), None)], "let a = 1;\nlet b = 2;\nlet r = [a < b, b > a];\n"),
    ]


PT = ('tup', ['int', 'int'])


def v(n):
    return ('v', n)


def it(e, i):
    return ('item', e, i)


def disp(e):
    return ('c', 'display', [e])


def overload_prelude(rng):
    """user functions named like the operators' functions, on the tuple type (int, int); every body announces itself
    through display, so that 'the user's body runs' is observable.  Internal names carry `@P` (the model and the
    reference evaluator are untyped); the printer shows the part before `@`."""
    a, b = v('a'), v('b')
    k = rng.choice([100, 1000, 7])
    return [
        ('fn', 'add@P', [('a', PT, None), ('b', PT, None)], PT, [], ('tup', [disp(('c', 'add', [it(a, 0), it(b, 0)])), ('c', 'add', [it(a, 1), it(b, 1)])])),
        ('fn', 'sub@P', [('a', PT, None), ('b', PT, None)], PT, [], ('tup', [('c', 'sub', [it(a, 0), it(b, 0)]), disp(('c', 'sub', [it(a, 1), it(b, 1)]))])),
        ('fn', 'mul@P', [('a', PT, None), ('b', 'int', None)], PT, [], ('tup', [disp(('c', 'mul', [it(a, 0), b])), ('c', 'mul', [it(a, 1), b])])),
        ('fn', 'neg@P', [('a', PT, None)], PT, [], ('tup', [disp(('c', 'neg', [it(a, 0)])), ('c', 'neg', [it(a, 1)])])),
        ('fn', 'eq@P', [('a', PT, None), ('b', PT, None)], 'bool', [], disp(('c', 'eq', [it(a, 0), it(b, 0)]))),
        ('fn', 'lt@P', [('a', PT, None), ('b', PT, None)], 'bool', [], disp(('c', 'lt', [('c', 'add', [it(a, 0), ('i', k)]), it(b, 0)]))),
        ('fn', 'get@P', [('a', PT, None), ('i', 'int', None)], 'int', [], disp(('c', 'if', [('c', 'eq', [v('i'), ('i', 0)]), it(a, 0), it(a, 1)]))),
        ('fn', 'not@P', [('a', PT, None)], 'bool', [], disp(('c', 'lt', [it(a, 0), it(a, 1)]))),
    ]


class PGen:
    """expressions over the tuple type through the overloaded operators (typed by construction)"""

    def __init__(self, rng, vars_p, vars_i):
        self.rng, self.vp, self.vi = rng, vars_p, vars_i

    def pt(self, d):
        rng = self.rng
        k = rng.random()
        if d <= 0 or k < 0.2:
            if self.vp and rng.random() < 0.6:
                return v(rng.choice(self.vp))
            return ('tup', [self.int_(d - 1), self.int_(d - 1)])
        if k < 0.45:
            return ('c', 'add@P', [self.pt(d - 1), self.pt(d - 1)])
        if k < 0.6:
            return ('c', 'sub@P', [self.pt(d - 1), self.pt(d - 1)])
        if k < 0.75:
            return ('c', 'mul@P', [self.pt(d - 1), self.int_(d - 1)])
        if k < 0.88:
            return ('c', 'neg@P', [self.pt(d - 1)])
        return ('c', 'if', [self.bool_(d - 1), self.pt(d - 1), self.pt(d - 1)])

    def int_(self, d):
        rng = self.rng
        k = rng.random()
        if d <= 0 or k < 0.3:
            if self.vi and rng.random() < 0.4:
                return v(rng.choice(self.vi))
            return ('i', rng.choice([0, 1, 2, 3, 5, -1, 10]))
        if k < 0.5:
            return ('c', 'get@P', [self.pt(d - 1), ('i', rng.choice([0, 1]))])
        if k < 0.7:
            return ('c', rng.choice(['add', 'sub', 'mul']), [self.int_(d - 1), self.int_(d - 1)])
        if k < 0.8:
            return ('c', 'neg', [self.int_(d - 1)])
        if k < 0.9:
            return disp(self.int_(d - 1))
        return ('item', self.pt(d - 1), rng.choice([0, 1]))

    def bool_(self, d):
        rng = self.rng
        k = rng.random()
        if d <= 0 or k < 0.15:
            return ('b', rng.random() < 0.5)
        if k < 0.35:
            return ('c', 'eq@P', [self.pt(d - 1), self.pt(d - 1)])
        if k < 0.55:
            return ('c', 'lt@P', [self.pt(d - 1), self.pt(d - 1)])
        if k < 0.65:
            return ('c', 'not@P', [self.pt(d - 1)])
        if k < 0.8:
            return ('c', rng.choice(['lt', 'eq', 'le']), [self.int_(d - 1), self.int_(d - 1)])
        if k < 0.9:
            return ('c', rng.choice(['and', 'or']), [self.bool_(d - 1), self.bool_(d - 1)])
        return ('c', 'not', [self.bool_(d - 1)])


def overload_program(rng):
    ds = overload_prelude(rng)
    vp, vi = [], []
    for i in range(rng.choice([3, 5, 7])):
        g = PGen(rng, vp, vi)
        t = rng.choice(['p', 'p', 'i', 'b'])
        n = f'{t}{i}'
        d = rng.choice([1, 2, 3])
        if t == 'p':
            ds.append(('let', n, g.pt(d), PT))
            vp.append(n)
        elif t == 'i':
            ds.append(('let', n, g.int_(d), 'int'))
            vi.append(n)
        else:
            ds.append(('let', n, g.bool_(d), 'bool'))
    return ds


def order_programs(rng):
    """argument evaluation order and exactly-once: a `display` in every argument position of every strict native of the
    core, of a user function, of a call through a value, of tuple / array construction and of the short-circuit natives"""
    out = []
    D = lambda n: disp(('i', n))
    Db = lambda n, val: ('c', 'eq', [disp(('i', n)), ('i', n if val else n + 1)])     # a bool that announces itself
    bins = ['add', 'sub', 'mul', 'mod', 'lt', 'le', 'gt', 'ge', 'eq', 'ne']
    ds = []
    for i, f in enumerate(bins):
        ds.append(('let', f'r{i}', ('c', f, [D(10 * i + 1), D(10 * i + 2)]), None))
    ds.append(('let', 'u1', ('c', 'neg', [D(201)]), None))
    ds.append(('let', 'u2', ('c', 'not', [Db(202, True)]), None))
    ds.append(('let', 'u3', ('c', 'to_str', [D(203)]), None))
    ds.append(('let', 'u4', ('c', 'len', [('arr', [D(204), D(205), D(206)], 'int')]), None))
    ds.append(('let', 'u5', ('c', 'add', [('c', 'to_str', [D(207)]), ('c', 'to_str', [D(208)])]), None))
    ds.append(('let', 't1', ('tup', [D(301), D(302), D(303)]), None))
    ds.append(('let', 'n1', ('c', 'add', [('c', 'mul', [D(401), D(402)]), ('c', 'sub', [D(403), ('c', 'neg', [D(404)])])]), None))
    out.append((ds, 'order-natives'))
    # user functions of arity 1..4; used and unused parameters; direct, through a variable, through a lambda, as method
    for k in range(1, 5):
        params = [(f'a{i}', 'int', None) for i in range(k)]
        used = [i for i in range(k) if rng.random() < 0.6]
        body = ('i', 0)
        for u in used:
            body = ('c', 'add', [body, v(f'a{u}')])
        f = ('fn', 'f', params, 'int', [], disp(body))
        args = [D(500 + i) for i in range(k)]
        lam = ('lam', [(f'b{i}', 'int', None) for i in range(k)], [], ('c', 'f', [v(f'b{i}') for i in range(k)]), 'int')
        ds = [f, ('let', 'g', v('f'), None),
              ('let', 'r1', ('c', 'f', args), 'int'),
              ('let', 'r2', ('ce', v('g'), args), 'int'),
              ('let', 'r3', ('ce', lam, args), 'int'),
              ('let', 'r4', ('c', 'add', [('c', 'f', args), ('c', 'f', list(reversed(args)))]), 'int')]
        out.append((ds, f'order-user-k{k}'))
    # short-circuit natives: exactly the selected argument runs
    ds = []
    j = 0
    for c in (True, False):
        ds.append(('let', f's{j}', ('c', 'if', [Db(600 + 10 * j, c), D(601 + 10 * j), D(602 + 10 * j)]), None)); j += 1
        ds.append(('let', f's{j}', ('c', 'and', [Db(600 + 10 * j, c), Db(601 + 10 * j, True)]), None)); j += 1
        ds.append(('let', f's{j}', ('c', 'or', [Db(600 + 10 * j, c), Db(601 + 10 * j, False)]), None)); j += 1
    ds.append(('let', f's{j}', ('c', 'if_error', [D(600 + 10 * j), D(601 + 10 * j)]), None)); j += 1
    ds.append(('let', f's{j}', ('c', 'if_error', [('c', 'add', [D(600 + 10 * j), ('c', 'mod', [D(601 + 10 * j), ('i', 0)])]), D(602 + 10 * j)]), None)); j += 1
    ds.append(('let', f's{j}', ('c', 'is_error', [('c', 'mod', [D(600 + 10 * j), ('i', 0)])]), None)); j += 1
    out.append((ds, 'order-shortcircuit'))
    return out


# ------------------------------------------------------------------------------------------------ library natives: exactly once

# documented as NOT short-circuiting (book/src/lang/functions.md:162: every function, unless its documentation says
# otherwise): {k} is replaced by display(<distinct int>); every display must write exactly once, in textual order
LIB_STRICT = [
    ("assert-fails", "assert({0} == {1})", [1, 2]), ("assert-holds", "assert({0} == {1})", [4, 4]),
    ("assert-fails-lt", "assert(lt({0}, {1}))", [9, 2]), ("assert-fails-method", "assert({0}.eq({1}))", [5, 6]),
    ("assert-fails-nested", "assert(({0} + {1}) == {2})", [1, 2, 4]), ("assert-fails-user", "assert(same({0}, {1}))", [1, 2]),
    ("max", "max({0}, {1})", [3, 5]), ("min", "min({0}, {1})", [3, 5]), ("pow", "{0} ** {1}", [2, 3]), ("div", "{0} / {1}", [7, 2]),
    ("bit_and", "{0} & {1}", [6, 3]), ("bit_or", "{0} | {1}", [6, 3]), ("bit_xor", "{0} ^ {1}", [6, 3]),
    ("abs", "abs({0})", [3]), ("gcd", "gcd({0}, {1})", [12, 18]), ("div_floor", "div_floor({0}, {1})", [7, 2]),
    ("cmp", "cmp({0}, {1})", [1, 2]), ("to_str", "to_str({0})", [8]), ("array", "[{0}, {1}, {2}]", [1, 2, 3]),
    ("tuple", "({0}, {1}, {2})", [1, 2, 3]), ("some", "some({0})", [1]), ("seq-get", "[{0}, {1}].get({2})", [10, 20, 1]),
    ("seq-get-oob", "[{0}, {1}].get({2})", [10, 20, 5]), ("seq-index", "[{0}, {1}][{2}]", [10, 20, 0]),
    ("push", "[{0}].push({1})", [1, 2]), ("range", "range({0}, {1}).to_array()", [1, 3]), ("contains", "[{0}, {1}].contains({2})", [1, 2, 2]),
    ("str-add", "{0}.to_str() + {1}.to_str()", [1, 2]), ("is_error", "is_error({0} / {1})", [1, 0]),
    ("error-arg", "is_error(max({0}, {1} % {2}))", [1, 2, 0]),
]
# documented as short-circuiting: (template, values, the placeholders that must be evaluated)
LIB_SHORT = [
    ("then-true", "({0} == {1}).then({2})", [1, 1, 7], [0, 1, 2]), ("then-false", "({0} == {1}).then({2})", [1, 2, 7], [0, 1]),
    ("opt-or-some", "some({0}).or(some({1}))", [1, 2], [0]), ("opt-or-none", "nn.or(some({0}))", [3], [0]),
    ("or-default-some", "some({0}).or({1})", [1, 2], [0]), ("or-default-none", "nn.or({0})", [5], [0]),
    ("opt-and-none", "nn.and(some({0}))", [5], []), ("opt-and-some", "some({0}).and(some({1}))", [1, 2], [0, 1]),
    ("if_error-ok", "if_error({0}, {1})", [1, 2], [0]), ("if_error-err", "if_error({0} % {1}, {2})", [1, 0, 9], [0, 1, 2]),
]


def run_library_order(chk):
    prelude = "fn same(a: int, b: int)->bool{a == b}\nlet nn: Optional<int> = none();\n"
    reqs, meta = [], []
    base = 100
    for tag, tmpl, vals in LIB_STRICT:
        shown = [base + 10 * len(meta) + i for i in range(len(vals))]
        # the displayed number identifies the position; the value is computed from it
        args = [f"(display({n}) - {n - val})" for n, val in zip(shown, vals)]
        src = prelude + "let r = " + tmpl.format(*args) + ";\nlet e = is_error(r);\n"
        reqs.append({"op": "run", "src": src, "get": ["e"]})
        meta.append((tag, src, [str(n) for n in shown], "strict"))
    for tag, tmpl, vals, evaluated in LIB_SHORT:
        shown = [base + 10 * len(meta) + i for i in range(len(vals))]
        args = [f"(display({n}) - {n - val})" for n, val in zip(shown, vals)]
        src = prelude + "let r = " + tmpl.format(*args) + ";\nlet e = is_error(r);\n"
        reqs.append({"op": "run", "src": src, "get": ["e"]})
        meta.append((tag, src, [str(shown[i]) for i in evaluated], "short"))
    resp = run_harness(reqs)
    for (tag, src, want, kind), r in zip(meta, resp):
        chk.evaluations += 1
        chk.count("libcall:" + kind)
        ci = cg.canon_impl(r, ["e"])
        if ci["outcome"] != "ok":
            chk.violation(f"order:lib:{tag}:{ci['outcome'].split(' ')[0]}", f"library call program did not run: {ci['outcome'][:300]} on {src!r}",
                          {"src": src, "get": ["e"], "impl": ci, "expected": {"outcome": "ok", "out": want}})
            continue
        got = ci["out"]
        chk.nontrivial.add(src)
        if got != want:
            k = "evaluated-twice" if any(got.count(x) > 1 for x in got) else ("skipped-argument" if set(got) < set(want) else
                ("extra-argument" if set(got) > set(want) else "wrong-order"))
            chk.violation(f"order:lib:{tag}:{k}", f"arguments of a {'non-' if kind == 'strict' else ''}short-circuiting library function are not evaluated "
                          f"{'exactly once, left to right' if kind == 'strict' else 'as documented'}: displays written {got}, expected {want} on {src!r}",
                          {"src": src, "get": ["e"], "impl": ci, "expected": {"outcome": "ok", "out": want, "vals": ci.get("vals")}})
    # the grammar's generic binding `name<types>` (documented: lang/dyn_functions.md "Dynamic specialization") takes
    # `a < b > ..`; recorded for the evidence, no verdict (see design/C02.md)
    texts = ["a < b > c", "a < b > (c)", "f(a < b, c > d)", "a < (b) > c", "a < b + 1 > c", "(a) < b > c"]
    rs = run_harness([{"op": "parse", "srcs": texts}])[0]["rs"]
    for t, r in zip(texts, rs):
        chk.count("generic-binding:" + ("tree" if r.startswith("(") else r.split(" ")[0]))
    chk.coverage["generic_binding_texts"] = dict(zip(texts, rs))


# ------------------------------------------------------------------------------------------------ alias table, derived comparisons

def check_book_table(chk):
    """the book's alias table (read now) = the parser's tables (extracted now by translate/ops.py) = the table this check
    and the theorem `table_documented` were written against: a new or renamed operator shows up here"""
    import importlib.util
    spec = importlib.util.spec_from_file_location("c02_ops_translator", TRANSLATOR)
    ops = importlib.util.module_from_spec(spec)
    spec.loader.exec_module(ops)
    try:
        binary, unary = ops.read_pest()
        levels, infix_fn, unary_fn, index_fn = ops.read_parser(binary, unary)
    except SystemExit as e:      # the translator fails closed with sys.exit: that is a broken tie, not the end of the check
        chk.violation("tie:translator:alias-table", "translate/ops.py no longer recognises xray.pest / parser.rs (the alias table cannot be extracted); "
                      "the other parts of this check look for a concrete failing text", {"translator": TRANSLATOR, "exit": str(e.code)}, no_input=True)
        return
    parser_bin = {tok: infix_fn[rule] for rule, tok in binary}
    parser_un = {tok: unary_fn[rule] for rule, tok in unary}
    book_bin, book_un, book_index = cs.book_alias_table(REPO)
    chk.evaluations += 1
    chk.coverage["book_alias_table"] = {"binary": book_bin, "unary": book_un, "index": book_index}
    for tok in sorted(set(parser_bin) | set(dict(book_bin)) | set(DOC_BINARY)):
        got, doc, mine = parser_bin.get(tok), dict(book_bin).get(tok), DOC_BINARY.get(tok, (None,))[0]
        if got != doc:
            chk.violation(f"syntax:alias:{tok}", f"operator `{tok}`: the parser calls {got!r}, the book (lang/functions.md) says {doc!r}",
                          {"src": f"a {tok} b", "impl": got, "expected": doc})
        elif mine != doc:
            chk.violation("tie:syntax:alias-table", f"operator `{tok}` of the book ({doc!r}) is not in the table this check was written against ({mine!r})",
                          {"token": tok, "book": doc, "check": mine}, no_input=True)
    for tok in sorted(set(parser_un) | set(dict(book_un)) | set(DOC_UNARY)):
        got, doc, mine = parser_un.get(tok), dict(book_un).get(tok), DOC_UNARY.get(tok)
        if got != doc:
            chk.violation(f"syntax:alias:unary{tok}", f"unary operator `{tok}`: the parser calls {got!r}, the book says {doc!r}",
                          {"src": f"{tok}a", "impl": got, "expected": doc})
        elif mine != doc:
            chk.violation("tie:syntax:alias-table", f"unary operator `{tok}` of the book ({doc!r}) is not in this check's table ({mine!r})",
                          {"token": tok, "book": doc, "check": mine}, no_input=True)
    if index_fn != book_index:
        chk.violation("syntax:alias:index", f"`a[b]`: the parser calls {index_fn!r}, the book says {book_index!r}",
                      {"src": "a[b]", "impl": index_fn, "expected": book_index})
    # the order in which the book lists the binary operators is compatible with the levels of the climber table
    lv = [DOC_BINARY[t][1] for t, _ in book_bin if t in DOC_BINARY]
    if lv != sorted(lv, reverse=True):
        chk.violation("tie:syntax:alias-order", f"the book no longer lists the operators from tightest to loosest: {book_bin}", {"book": book_bin}, no_input=True)


CMP_RESULTS = [0, 1, -1, 2, -2, 3, 7, -7, 100, -100, 2 ** 31, -(2 ** 31), 2 ** 63 - 1, 2 ** 63, -(2 ** 63), -(2 ** 63) - 1, 2 ** 64,
               -(2 ** 64), 2 ** 64 + 1, 10 ** 30, -(10 ** 30)]
DERIVED = {'lt': '<', 'le': '<=', 'gt': '>', 'ge': '>='}


def run_derived_sweep(chk, quick):
    """`<  <=  >  >=` on a struct whose user `cmp` returns a given integer, directly and one level up (tuple, sequence),
    and `!=` for a user `eq`: implementation vs the documented function of cmp(a, b) (Python) vs the Lean model"""
    rng = chk.rng
    ks = list(CMP_RESULTS) + ([] if quick else [rng.randrange(-2 ** 70, 2 ** 70) for _ in range(200)] + list(range(-20, 21)))
    reqs, meta, lines = [], [], []
    for k in ks:
        for f, sym in DERIVED.items():
            forms = {"direct": f"P(1) {sym} P(2)", "call": f"{f}(P(1), P(2))", "method": f"P(1).{f}(P(2))",
                     "tuple": f"(P(1), 5) {sym} (P(2), 5)", "tuple-later": f"(5, P(1)) {sym} (5, P(2))",
                     "sequence": f"[P(1), P(1)] {sym} [P(2), P(2)]"}
            src = f"struct P(x: int)\nfn cmp(a: P, b: P)->int{{{lit(k)}}}\n" + "".join(f"let r{i} = {t};\n" for i, t in enumerate(forms.values()))
            reqs.append({"op": "run", "src": src, "get": [f"r{i}" for i in range(len(forms))]})
            meta.append((f, k, list(forms), src))
            lines.append(f"parse derived {f} {k}")
    for e in (True, False):
        src = f"struct P(x: int)\nfn eq(a: P, b: P)->bool{{{'true' if e else 'false'}}}\nlet r0 = P(1) != P(1);\nlet r1 = ne(P(1), P(2));\nlet r2 = (P(1), 1) != (P(1), 1);\nlet r3 = [P(1)] != [P(1)];\n"
        reqs.append({"op": "run", "src": src, "get": ["r0", "r1", "r2", "r3"]})
        meta.append(("ne", e, ["direct", "call", "tuple", "sequence"], src))
    impl = run_harness(reqs)
    model = run_model(lines)
    for idx, ((f, k, forms, src), r) in enumerate(zip(meta, impl)):
        names = [f"r{i}" for i in range(len(forms))]
        ci = cg.canon_impl(r, names)
        if f == "ne":
            want = not k
        else:
            want = {'lt': k < 0, 'le': k <= 0, 'gt': k > 0, 'ge': k >= 0}[f]
        wd = "(bool true)" if want else "(bool false)"
        for form, n in zip(forms, names):
            chk.evaluations += 1
            chk.count(f"derived:{f}:{form}")
            got = ci.get("vals", {}).get(n) if ci["outcome"] == "ok" else ci["outcome"]
            if got != wd:
                kind = "wrong-sign" if ci["outcome"] == "ok" else ci["outcome"].split(" ")[0]
                what = (f"`{f}` on a struct with a user cmp returning {k}" if f != "ne" else f"`!=` on a struct with a user eq returning {k}")
                chk.violation(f"derived:{f}:{form}:{kind}", f"{what} ({form} spelling) is {got}, documented: {wd} "
                              f"(std/general.md: {f}(a, b) is decided by the sign of cmp(a, b) / ne is the negation of eq)",
                              {"src": src, "get": names, "impl": ci, "expected": {"outcome": "ok", "out": [], "vals": {x: wd for x in names}}})
        if f != "ne":
            chk.nontrivial.add(f"{f}:{k}")
            if model[idx] != ("true" if want else "false"):
                chk.violation(f"tie:derived:{f}", f"the Lean model's derived {f} of cmp = {k} is {model[idx]}, the implementation and the documentation give {want}",
                              {"model_request": lines[idx], "model": model[idx]}, no_input=True)


def run(chk):
    rng = chk.rng
    quick = chk.tier == "quick"
    chk.trusted += [
        "translate/ops.py reads xray.pest / parser.rs faithfully (fails closed on any change of the expression rules or of the arms the model mirrors by hand)",
        "pest's generated PEG engine is modelled by hand (XrayModel/Syntax.lean p* functions, no theorem about them); pest's PrecClimber is mirrored loop for loop and is what the theorems are about",
        "checklib/coregen.py RefEval and the documented operator table in checklib/c02.py: the independent oracles",
        "Driver/Core.lean, Driver/Parse.lean: S-expression decoding and printing (glue)",
    ]
    if not chk.prove():
        handle_broken(chk)

    # (a) syntax
    check_book_table(chk)
    run_soups(chk, 1500 if quick else 60000, 600 if quick else 30000)

    # (b) behavioural, every sugar spelling
    cases = []
    for i in range(120 if quick else 4000):
        g = cg.Gen(rng, max_depth=rng.choice([3, 4, 5]))
        ds = g.program(rng.choice([3, 5, 8]))
        cases.append(Case(ds, "sugar", src=spell(chk, ds, rng)))
    for i in range(120 if quick else 4000):
        ds = overload_program(rng)
        cases.append(Case(ds, "overload", src=spell(chk, ds, rng)))
    # the same program in three spellings: all-infix, all-call (no sugar), random
    for i in range(30 if quick else 600):
        ds = overload_program(rng)
        cases.append(Case(ds, "overload-plain", src=cg.Printer(None, sugar=False).program(ds)))
    # user structs with user overloads of every operator-named function, unusual results (c02_structs.py)
    for i in range(60 if quick else 3000):
        cases.append(cs.struct_case(chk, rng, True, Case, spell))
        cases.append(cs.struct_case(chk, rng, False, Case, spell))
    # the known finding: comparisons as neighbouring arguments / elements are taken for a generic binding
    for ds, src in generic_binding_cases():
        cases.append(Case(ds, "generic-binding", src=src))
    res = three_way(chk, cases, "c02", nontrivial=lambda c, ev: len(ev.out) > 0)
    n_user = sum(1 for (c, ci, cm, co, ev) in res if c.tag.startswith("overload") and ev.out)
    chk.coverage["overload_programs_whose_user_body_ran"] = n_user
    for c, ci, cm, co, ev in res[120:122] if len(res) > 122 else res[:1]:
        chk.sample({"program": c.src, "impl": ci})

    # (c) evaluation order, exactly once
    cases = []
    for rep in range(3 if quick else 40):
        for ds, tag in order_programs(rng):
            cases.append(Case(ds, tag, src=spell(chk, ds, rng)))
    res = three_way(chk, cases, "c02", nontrivial=lambda c, ev: True)
    for c, ci, cm, co, ev in res[:1]:
        chk.sample({"program": c.src, "out": ci.get("out")})

    # derived comparisons: every sign and magnitude of a user cmp, every spelling, one level up
    run_derived_sweep(chk, quick)

    # (e) user functions and lambdas nested 2..7 deep, the innermost body naming variables of every level (closed form)
    from . import deepcap
    deepcap.deep_capture(chk, rng, 60 if quick else 1500, "c02")

    # (d) library functions outside the core model: exactly once / documented short circuits (implementation vs documentation)
    run_library_order(chk)
    return chk.finish(rule="(a) operator soups: generated expression texts (all 17 binary and 3 unary operators, parentheses, arrays, tuples, method / call / "
                           "member / index accessors, random spacing) + every operator pair and every triple over one representative per level, parser tree vs model "
                           "vs documented table; mutated (ill-formed) texts parser vs model; (b) generated core programs and programs with user overloads of "
                           "add/sub/mul/neg/eq/lt/get/not on (int,int) printed with random sugar; (c) display in every argument position; "
                           "non-trivial = soup with >= 3 distinct features / program that writes output; distinct by source text")


def replay(path):
    d = json.load(open(path))
    rp = d.get("replay", {})
    if "src" in rp and "get" not in rp:
        r = run_harness([{"op": "parse", "srcs": [rp["src"]]}])[0]["rs"][0]
        print("parser now :", r)
        print("expected   :", rp.get("expected", rp.get("model")))
        if r != rp.get("expected", rp.get("model")):
            print(f"VIOLATION property=C02 replay={path}")
            return 1
        print("replay: the recorded input no longer fails")
        return 0
    return replay_file(path, "C02")
