"""C03 — Lexical scoping, closures and one-time defaults.
Proofs: lean/Props/C03.lean over lean/XrayModel/Scope.lean (compile-time scopes: name resolution, capture
cells, capture re-threading, forward gate) and lean/XrayModel/Core.lean (closures, defaults).
Tie:
 (a) behavioural — generated and targeted programs (captures at ancestor distance 1..6, shadowing chains,
     escaping closures, recursion through captured names, displaying defaults, forward declarations) run on the
     implementation, the Lean core model and the Python reference evaluator (corecheck.three_way);
 (b) structural — the real compiler's cells / capture pairs / declarations / Value references (hook
     dump_compiled, library cells projected away) against the Lean scope model's `compileProgram` on the same
     program; verdict-bearing, `capture_threading` is about these pairs;
 (c) identifier spellings the grammar admits: distinct spellings bound to distinct values read back distinct values.
"""
import itertools, json, re
from .common import *
from . import coregen as cg
from .corecheck import Case, three_way, replay_file

INT = 'int'


def FN(ps, r):
    return ('fn', list(ps), r)


# ------------------------------------------------------------------------------------------------ forward declarations
# a forward declaration is the decl ('raw', text, name): printed as is, skipped by the core model's S-expression,
# `(fwd name)` for the scope model, a box for the oracle below.

def fwd(name, params, ret):
    return ('raw', f'forward fn {name}({", ".join(f"{n}: {cg.ty_str(t)}" for n, t in params)})->{cg.ty_str(ret)};', name)


class Box:
    def __init__(self):
        self.v = None


class FwdEval(cg.RefEval):
    """the reference evaluator + forward declarations: the name is bound at the declaration to a box that the
    later definition in the same scope fills; functions created in between see the definition through the box
    (documented semantics: a forward function is usable once it is defined)."""

    def lookup(self, env, x):
        v = super().lookup(env, x)
        if isinstance(v, Box):
            if v.v is None:
                raise cg.Stuck('forward function used before its definition: ' + x)
            return v.v
        return v

    def eval_decls(self, decls, env, selfc, height):
        boxes = {}
        for d in decls:
            if d[0] == 'raw':
                if len(d) > 2:
                    boxes[d[2]] = Box()
                    env = [(d[2], boxes[d[2]])] + env
            elif d[0] == 'let':
                v = self.eval(d[2], env, selfc, height, False)
                env = [(d[1], v)] + env
            elif d[0] == 'fn':
                c = self.mk_clos(d[1], d[2], d[4], d[5], env, selfc, height)
                b = boxes.get(d[1])
                if b is not None and b.v is None:
                    b.v = c
                else:
                    env = [(d[1], c)] + env
        return env

    def run(self, decls):
        import sys
        sys.setrecursionlimit(100000)
        res = {'outcome': 'ok'}
        env = []
        try:
            env = self.eval_decls(decls, [], None, 0)
        except cg.Violation as v:
            res['outcome'] = 'viol:' + v.kind
        vals = {}
        for (n, v) in reversed(env):
            if isinstance(v, Box):
                v = v.v
            if v is not None:
                vals[n] = cg.dump(v)
        res.update(vals=vals, out=list(self.out), calls=self.calls, all_calls=self.all_calls,
                   max_depth=self.max_depth, max_rec=self.max_rec)
        return res


def has_fwd(ds):
    def in_expr(e):
        k = e[0]
        if k == 'lam':
            return any(p[2] is not None and in_expr(p[2]) for p in e[1]) or has_fwd(e[2]) or in_expr(e[3])
        if k in ('c',):
            return any(in_expr(a) for a in e[2])
        if k == 'ce':
            return in_expr(e[1]) or any(in_expr(a) for a in e[2])
        if k in ('tup', 'arr'):
            return any(in_expr(a) for a in e[1])
        if k == 'item':
            return in_expr(e[1])
        return False
    for d in ds:
        if d[0] == 'raw' and len(d) > 2:
            return True
        if d[0] == 'let' and in_expr(d[2]):
            return True
        if d[0] == 'fn' and (has_fwd(d[4]) or in_expr(d[5]) or any(p[2] is not None and in_expr(p[2]) for p in d[2])):
            return True
    return False


class FCase(Case):
    """a case whose oracle knows forward declarations; the Lean core model is only asked when there is none"""

    def __init__(self, ds, tag, **kw):
        self.fwd = has_fwd(ds)
        super().__init__(ds, tag, model=not self.fwd, sugar=kw.pop('sugar', False), **kw)

    def oracle(self):
        ev = FwdEval(self.depth, self.calls, self.rec, tco=self.oracle_tco)
        try:
            r = ev.run(self.ds)
        except cg.Stuck as e:
            return {"outcome": "oracle-stuck " + str(e)}, ev
        except RecursionError:
            return {"outcome": "oracle-recursion"}, ev
        return cg.canon_oracle(r, self.names), ev

    def replay(self, extra=None):
        d = {"src": self.src, "get": self.names, "limits": {}}
        if not self.fwd:
            d["model_request"] = self.line()
        d["scope_model_request"] = "scope compile 100000 " + scope_sexp(self.ds)
        if extra:
            d.update(extra)
        return d


# ------------------------------------------------------------------------------------------------ S-expression for the scope model

def sx_expr(e):
    k = e[0]
    if k == 'i' and e[1] < 0:
        return f'(c neg (i {-e[1]}))'      # a negative literal is printed as (-n): a call of neg
    if k in ('i', 'b', 's'):
        return cg.sexp_expr(e)
    if k == 'v':
        return f'(v {e[1]})'
    if k == 'c':
        return '(c ' + e[1].split('@')[0] + ''.join(' ' + sx_expr(a) for a in e[2]) + ')'
    if k == 'ce':
        return '(ce ' + sx_expr(e[1]) + ''.join(' ' + sx_expr(a) for a in e[2]) + ')'
    if k == 'lam':
        return '(lam (' + ' '.join(sx_param(p) for p in e[1]) + ') (' + ' '.join(sx_decl(d) for d in e[2]) + ') ' + sx_expr(e[3]) + ')'
    if k in ('tup', 'arr'):
        return f'({k}' + ''.join(' ' + sx_expr(a) for a in e[1]) + ')'
    if k == 'item':
        return f'(item {sx_expr(e[1])} {e[2]})'
    raise ValueError(e)


def sx_param(p):
    return f'(p {p[0]})' if p[2] is None else f'(pd {p[0]} {sx_expr(p[2])})'


def sx_decl(d):
    if d[0] == 'let':
        return f'(let {d[1]} {sx_expr(d[2])})'
    if d[0] == 'fn':
        return f'(fn {d[1].split("@")[0]} (' + ' '.join(sx_param(p) for p in d[2]) + ') (' + ' '.join(sx_decl(x) for x in d[4]) + ') ' + sx_expr(d[5]) + ')'
    if d[0] == 'raw' and len(d) > 2:
        return f'(fwd {d[2]})'
    raise ValueError(d)


def scope_sexp(ds):
    return '(prog ' + ' '.join(sx_decl(d) for d in ds if not (d[0] == 'raw' and len(d) == 2)) + ')'


# ------------------------------------------------------------------------------------------------ the real compiler's dump, projected

def parse_sx(s):
    toks = re.findall(r'\(|\)|[^\s()]+', s)
    stack = [[]]
    for t in toks:
        if t == '(':
            stack.append([])
        elif t == ')':
            top = stack.pop()
            stack[-1].append(top)
        else:
            stack[-1].append(t)
    assert len(stack) == 1 and len(stack[0]) == 1, s[:200]
    return stack[0][0]


def show_sx(t):
    if isinstance(t, list):
        return '(' + ' '.join(show_sx(x) for x in t) + ')'
    return t


class Projector:
    """Erases the cells that belong to the library (root cells below the user's base, cells made by function
    factories, captures whose chain ends in such a cell) and renumbers what is left, in every scope.  What remains
    is the structure the user's names built — what the scope model computes.  Also checks, independently of the
    model, the shape the theorems speak about: every capture in a closed function has depth 1 and every capture
    chain ends in a Variable / Recourse cell (`problems`)."""

    def __init__(self):
        self.problems = []
        self.stats = {"captures": 0, "max_chain": 0, "scopes": 0}

    def field(self, node, name):
        for x in node[1:]:
            if isinstance(x, list) and x and x[0] == name:
                return x[1:]
        raise KeyError(name)

    def scope_maps(self, cells, decls, base, chain):
        """chain: list of (builtin flags, newidx map, base) of the ancestors, innermost first.
        returns (flags, newidx)"""
        n = len(cells)
        factory = {int(d[1]) - base for d in decls if d[0] == 'factory'}
        flags = []
        for i, c in enumerate(cells):
            if c == 'V':
                flags.append(i in factory)
            elif c == 'R':
                flags.append(False)
            else:
                d, k = int(c[1]), int(c[2])
                self.stats["captures"] += 1
                if chain and d != 1:
                    pass  # depth checked by the caller for closed functions
                if d < 1 or d > len(chain):
                    self.problems.append(f"capture depth {d} out of range")
                    flags.append(False)
                    continue
                aflags, _, abase, acells = chain[d - 1]
                kk = k - abase
                if kk < 0:
                    flags.append(True)      # a library cell of the root
                elif kk >= len(aflags):
                    self.problems.append(f"capture index {k} beyond the ancestor's cells")
                    flags.append(False)
                else:
                    flags.append(aflags[kk])
        newidx = {}
        j = 0
        for i in range(n):
            if not flags[i]:
                newidx[i] = j
                j += 1
        return flags, newidx

    def chain_len(self, cells, i, chain):
        """length of the capture chain of cell i; None if it does not end in V / R"""
        steps = 0
        cur_cells, cur_chain, idx = cells, chain, i
        while True:
            if idx < 0:
                return steps          # library cell of the root
            if idx >= len(cur_cells):
                return None
            c = cur_cells[idx]
            if c in ('V', 'R'):
                return steps
            d, k = int(c[1]), int(c[2])
            if d < 1 or d > len(cur_chain):
                return None
            steps += 1
            _, _, abase, acells = cur_chain[d - 1]
            cur_cells, cur_chain, idx = acells, cur_chain[d:], k - abase
            if steps > 64:
                return None

    def expr(self, e, flags, newidx, base):
        if not isinstance(e, list):
            return e
        if e[0] == 'val':
            i = int(e[1]) - base
            if i < 0 or flags[i]:
                return 'B'
            return ['val', str(newidx[i])]
        if e[0] == 'call':
            f = self.expr(e[1], flags, newidx, base)
            args = [self.expr(a, flags, newidx, base) for a in e[2:]]
            if f == 'B':
                return ['bcall'] + args
            return ['call', f] + args
        if e[0] in ('member', 'membervalue', 'memberoptvalue'):
            return ['member', self.expr(e[1], flags, newidx, base), e[2]]
        if e[0] in ('arr', 'tup', 'construct'):
            return ['tup'] + [self.expr(a, flags, newidx, base) for a in e[1:]]
        if e[0] == 'variant':
            return ['tup', self.expr(e[2], flags, newidx, base)]
        raise ValueError(e)

    def cell(self, c, i, flags, chain):
        if c in ('V', 'R'):
            return c
        d, k = int(c[1]), int(c[2])
        _, anew, abase, _ = chain[d - 1]
        return ['C', str(d), str(anew[k - abase])]

    def decls(self, decls, flags, newidx, base, cells, chain):
        out = []
        for d in decls:
            if d[0] == 'factory':
                continue
            c = int(d[1]) - base
            if d[0] == 'param':
                out.append(['param', str(newidx[c]), d[2]])
            elif d[0] == 'value':
                out.append(['value', str(newidx[c]), self.expr(d[2], flags, newidx, base)])
            elif d[0] == 'function':
                out.append(['function', str(newidx[c]), self.func(d[2], [(flags, newidx, base, cells)] + chain)])
        return out

    def func(self, ud, chain):
        """chain: ancestors of this function, innermost (= the declaring scope) first"""
        self.stats["scopes"] += 1
        cells = self.field(ud, 'cells')
        decls = self.field(ud, 'decls')
        flags, newidx = self.scope_maps(cells, decls, 0, chain)
        for i, c in enumerate(cells):
            if isinstance(c, list):
                if int(c[1]) != 1:
                    self.problems.append(f"closed function has a capture of depth {c[1]}")
                l = self.chain_len(cells, i, chain)
                if l is None:
                    self.problems.append("capture chain does not end in a Variable/Recourse cell")
                else:
                    self.stats["max_chain"] = max(self.stats["max_chain"], l)
        pflags, pnew, pbase, _ = chain[0]
        return ['ud', ud[1],
                ['cells'] + [self.cell(c, i, flags, chain) for i, c in enumerate(cells) if not flags[i]],
                ['defaults'] + [self.expr(e, pflags, pnew, pbase) for e in self.field(ud, 'defaults')],
                ['decls'] + self.decls(decls, flags, newidx, 0, cells, chain),
                ['out', self.expr(self.field(ud, 'out')[0], flags, newidx, 0)],
                ['freqs', self.field(ud, 'freqs')[0]]]

    def root(self, tree):
        base = int(tree[1])
        cells = self.field(tree, 'cells')
        decls = self.field(tree, 'decls')
        flags, newidx = self.scope_maps(cells, decls, base, [])
        for c in cells:
            if isinstance(c, list):
                self.problems.append("the root scope has a capture cell")
        return ['root', ['cells'] + [c for i, c in enumerate(cells) if not flags[i]],
                ['decls'] + self.decls(decls, flags, newidx, base, cells, [])]


def project(dump):
    p = Projector()
    t = p.root(parse_sx(dump))
    return show_sx(t), p


CLASS_OF_MODEL_ERR = {"ValueNotFound", "OverloadedFunctionAsVariable", "AmbiguousOverload", "IllegalShadowing",
                      "MissingForwardImplementation"}


def structural(chk, progs):
    """progs: list of (tag, ds, src). Real compiler's structure vs the scope model's."""
    reqs = [{"op": "scope", "f": "dump", "src": src} for (_, _, src) in progs]
    impl = run_harness(reqs, per_req_timeout=60.0)
    # a request that ran into the time budget of a busy machine is asked again, alone, with a long budget: only a
    # compiler that really does not return is a hang
    for i, r in enumerate(impl):
        if "hang" in r or "abort" in r:
            impl[i] = run_harness([reqs[i]], per_req_timeout=600.0)[0]
            chk.count("struct:retried-after-timeout")
    lines = ["scope compile 200000 " + scope_sexp(ds) for (_, ds, _) in progs]
    model = run_model(lines)
    agree = 0
    for (tag, ds, src), r, m in zip(progs, impl, model):
        chk.evaluations += 1
        chk.count("struct:" + tag)
        replay = {"src": src, "scope_model_request": "scope compile 200000 " + scope_sexp(ds)}
        if "panic" in r or "abort" in r or "hang" in r:
            chk.violation(f"scope:{tag}:compiler-panic", f"the compiler panicked on a generated program: {json.dumps(r)[:300]}", replay)
            continue
        if r.get("compile") != "ok":
            cls = r["compile"].get("class", "?")
            chk.count("struct-compile-err:" + cls)
            if m.startswith("err ") and m.split(" ")[1] == cls:
                agree += 1
                chk.count("struct-agree-error")
            else:
                chk.violation(f"tie:scope:{tag}:error", f"real compiler rejects with {cls}, scope model says {m[:200]}", replay, no_input=True)
            continue
        try:
            proj, p = project(r["dump"])
        except Exception as e:  # the dump is not of the shape the projection understands
            chk.violation(f"tie:scope:{tag}:dump-shape", f"cannot project the compiler's dump: {e!r}: {r['dump'][:300]}", replay, no_input=True)
            continue
        for k, v in p.stats.items():
            if k == "max_chain":
                chk.counters["struct:max-capture-chain"] = max(chk.counters.get("struct:max-capture-chain", 0), v)
            else:
                chk.count("struct:" + k, v)
        if p.problems:
            # what the structural theorems assert of the real structure, checked on the real structure
            chk.violation(f"scope:{tag}:malformed-capture", "the compiled structure violates the capture discipline: " + "; ".join(p.problems[:3]), replay)
            continue
        if proj == m:
            agree += 1
            if p.stats["max_chain"] >= 2:
                chk.nontrivial.add("S" + src)
        else:
            hit = failing_input_search(chk)
            if hit is not None:
                c, ci, co = hit
                kind = "wrong-output" if ci.get("out") != co.get("out") else "wrong-value"
                if ci["outcome"] != "ok":
                    kind = ci["outcome"].split(" ")[0].split(":")[0]
                elif co["outcome"].startswith("compile-err"):
                    kind = "accepted-unsafe-use"
                chk.violation(f"scope:structure:{kind}",
                              f"the compiled structure (cells / capture pairs) differs from the scope model's and a program exists on which a name then denotes "
                              f"the wrong cell ({c.tag}): impl={json.dumps(ci)[:500]} expected={json.dumps(co)[:500]}; first structural difference on a {tag} program: "
                              f"real(projected)={proj[:300]} model={m[:300]}",
                              c.replay({"impl": ci, "expected": co, "structural": dict(replay, real=proj, model=m)}))
            else:
                chk.violation(f"tie:scope:{tag}:structure",
                              f"cells / capture pairs of the real compiler differ from the scope model's: real(projected)={proj[:700]} model={m[:700]}",
                              dict(replay, real=proj, model=m), no_input=True)
    chk.coverage["structural_agreements"] = chk.coverage.get("structural_agreements", 0) + agree


# ------------------------------------------------------------------------------------------------ targeted templates

def add_all(xs):
    e = xs[0]
    for x in xs[1:]:
        e = ('c', 'add', [e, x])
    return e


def W(i):
    """distinct weights so that a wrong cell changes the value"""
    return ('i', 10 ** i)


def t_distance(rng, depth, kinds):
    """nested functions/lambdas f1 ⊃ f2 ⊃ … ⊃ f_depth; the innermost sums one name of every level (parameter,
    local let, the top-level let), each with its own weight: captures at distance 1..depth in one body."""
    names = []

    def level(i):
        p, l = f'a{i}', f'l{i}'
        decls = [('let', l, ('c', 'mul', [('v', p), ('i', 3)]), INT)]
        if i == depth:
            terms = [('v', 'top')] + [('c', 'mul', [('v', f'a{j}'), W(j)]) for j in range(1, depth + 1)] \
                + [('c', 'mul', [('v', f'l{j}'), W(j + 6)]) for j in range(1, depth + 1)]
            rng.shuffle(terms)
            body = add_all(terms)
            if rng.random() < 0.5:
                body = ('c', 'display', [body])
        else:
            inner = level(i + 1)
            arg = ('i', i + 1)
            if kinds[i] == 'fn':
                decls.append(inner)
                body = ('c', f'f{i + 1}', [arg])
            else:
                decls.append(('let', f'f{i + 1}', inner, None))
                body = ('ce', ('v', f'f{i + 1}'), [arg])
        if kinds[i - 1] == 'fn':
            return ('fn', f'f{i}', [(p, INT, None)], INT, decls, body)
        return ('lam', [(p, INT, None)], decls, body, INT)

    top = level(1)
    ds = [('let', 'top', ('i', 7), INT)]
    if kinds[0] == 'fn':
        ds.append(top)
        ds.append(('let', 'r', ('c', 'f1', [('i', 1)]), INT))
    else:
        ds.append(('let', 'f1', top, None))
        ds.append(('let', 'r', ('ce', ('v', 'f1'), [('i', 1)]), INT))
    ds.append(('let', 'r2', ('c', 'add', [('v', 'r'), ('v', 'top')]), INT))
    return ds


def t_same_index(rng, depth, kinds):
    """the same cell index captured at several distances: every level has two parameters (cells 0 and 1) and
    mentions, in a shuffled textual order and partly before / partly after its inner function is declared, the first
    and the second parameter of EVERY enclosing level and its own; each mention is displayed, every parameter has its
    own value, so a capture that aliases the cell of another level shows as a wrong output line / value"""
    def level(i):
        p, q = f'p{i}', f'q{i}'
        refs = [('v', f'{w}{j}') for j in range(1, i + 1) for w in ('p', 'q')]
        rng.shuffle(refs)
        cut = rng.randrange(0, len(refs) + 1)
        if i >= 3 and rng.random() < 0.7:
            # make sure an outer first/second parameter is mentioned before the inner function is closed
            first = [r for r in refs if r[1] in (f'p{i - 2}', f'q{i - 2}', f'p{i - 1}')]
            refs = first + [r for r in refs if r not in first]
            cut = max(cut, rng.randrange(1, len(first) + 1))
        mk = lambda n, r: ('let', f'u{i}_{n}', ('c', 'display', [r]), INT)
        before = [mk(n, r) for n, r in enumerate(refs[:cut])]
        after = [mk(n + cut, r) for n, r in enumerate(refs[cut:])]
        names = [('v', f'u{i}_{n}') for n in range(len(refs))]
        if i == depth:
            decls = before + after
            body = ('c', 'display', [add_all([('c', 'mul', [x, ('i', 3 + n)]) for n, x in enumerate(names)] + [('v', p)])])
        else:
            inner = level(i + 1)
            args = [('i', 10 * (i + 1) + 1), ('i', 10 * (i + 1) + 2)]
            if kinds[i] == 'fn':
                decls = before + [inner] + after
                call = ('c', f'g{i + 1}', args)
            else:
                decls = before + [('let', f'g{i + 1}', inner, None)] + after
                call = ('ce', ('v', f'g{i + 1}'), args)
            body = add_all([call] + [('c', 'mul', [x, ('i', 2 + n)]) for n, x in enumerate(names)])
        if kinds[i - 1] == 'fn':
            return ('fn', f'g{i}', [(p, INT, None), (q, INT, None)], INT, decls, body)
        return ('lam', [(p, INT, None), (q, INT, None)], decls, body, INT)

    top = level(1)
    if kinds[0] == 'fn':
        return [top, ('let', 'r', ('c', 'g1', [('i', 11), ('i', 12)]), INT), ('let', 'r2', ('c', 'g1', [('i', 1011), ('i', 1012)]), INT)]
    return [('let', 'g1', top, None), ('let', 'r', ('ce', ('v', 'g1'), [('i', 11), ('i', 12)]), INT)]


def same_index_family(rng, n, depths=(3, 4, 5, 6)):
    out = []
    for rep in range(n):
        depth = depths[rep % len(depths)]
        kinds = [rng.choice(['fn', 'fn', 'lam']) for _ in range(depth)]
        if rep < len(depths):
            kinds = ['fn'] * depth
        out.append(FCase(t_same_index(rng, depth, kinds), f"same-index-{depth}"))
    return out


_SEARCH = {}


def failing_input_search(chk):
    """when the structural tie breaks: look for a program on which the implementation's *behaviour* is wrong —
    the families whose meaning depends on every capture pair being right (same cell index at several distances,
    captures at distance 1..6).  Returns (case, impl, expected) or None; runs once per check."""
    if "done" in _SEARCH:
        return _SEARCH.get("hit")
    _SEARCH["done"] = True
    rng = chk.rng
    cands = same_index_family(rng, 60 if chk.tier == "quick" else 400, depths=(4, 5, 6, 4))
    for depth in range(2, 7):
        for rep in range(4):
            cands.append(FCase(t_distance(rng, depth, [rng.choice(['fn', 'lam']) for _ in range(depth)]), f"distance-{depth}"))
    # the forward gate: uses that must be rejected
    gate = []
    for i in range(150 if chk.tier == "quick" else 1500):
        ds, safe, form = gate_graph(rng, in_function=(i % 3 == 2))
        if not safe:
            gate.append(FCase(ds, "gate-graph"))
    gres = run_harness([c.req() for c in gate])
    chk.count("failing-input-search:programs", len(gate))
    for c, r in zip(gate, gres):
        ci = cg.canon_impl(r, c.names)
        if not ci["outcome"].startswith("compile-err MissingForwardImplementation"):
            _SEARCH["hit"] = (c, ci, {"outcome": "compile-err MissingForwardImplementation"})
            return _SEARCH["hit"]
    impl = run_harness([c.req() for c in cands])
    chk.count("failing-input-search:programs", len(cands))
    for c, r in zip(cands, impl):
        ci = cg.canon_impl(r, c.names)
        co, ev = c.oracle()
        if co["outcome"].startswith("oracle-"):
            continue
        if not cg.same(ci, co):
            _SEARCH["hit"] = (c, ci, co)
            return _SEARCH["hit"]
    return None


def t_shadow(rng):
    """one name declared at several levels and redeclared in the same scope; closures created between the
    redeclarations keep the earlier meaning"""
    ds = [('let', 'x', ('i', 1), INT),
          ('fn', 'g0', [], INT, [], ('v', 'x')),
          ('let', 'k0', ('lam', [], [], ('c', 'mul', [('v', 'x'), ('i', 2)]), INT), None),
          ('let', 'x', ('c', 'add', [('v', 'x'), ('i', 10)]), INT),           # uses the old x
          ('fn', 'g1', [], INT, [], ('v', 'x')),
          ('fn', 'h', [('x', INT, None)], INT,
           [('let', 'y', ('v', 'x'), INT),
            ('let', 'x', ('c', 'mul', [('v', 'x'), ('i', 100)]), INT),         # shadows the parameter, uses it
            ('fn', 'in1', [], INT, [], ('c', 'add', [('v', 'x'), ('v', 'y')])),
            ('let', 'x', ('c', 'add', [('v', 'x'), ('i', 5)]), INT)],
           ('c', 'add', [('c', 'in1', []), ('c', 'mul', [('v', 'x'), ('i', 1000000)])])),
          ('let', 'x', ('i', 1000), INT),
          ('fn', 'g2', [], INT, [], ('v', 'x'))]
    calls = [('c', 'g0', []), ('ce', ('v', 'k0'), []), ('c', 'g1', []), ('c', 'h', [('i', 3)]), ('c', 'g2', []), ('v', 'x')]
    rng.shuffle(calls)
    for i, c in enumerate(calls):
        ds.append(('let', f'r{i}', c, INT))
    # a lambda parameter shadowing an outer let, nested twice
    ds.append(('let', 'q', ('ce', ('lam', [('x', INT, None)], [],
                                  ('ce', ('lam', [('x', INT, None)], [], ('c', 'add', [('v', 'x'), ('i', 1)]), INT),
                                   [('c', 'mul', [('v', 'x'), ('i', 2)])]), INT), [('i', 20)]), INT))
    return ds


def t_escape(rng):
    """closures that leave their defining scope: returned, stored in tuples, passed to other functions, made
    several times from one function (each keeps its own bindings)"""
    adder = ('fn', 'adder', [('a', INT, None)], FN([INT], INT), [('let', 'b', ('c', 'mul', [('v', 'a'), ('i', 2)]), INT)],
             ('lam', [('y', INT, None)], [], add_all([('v', 'a'), ('v', 'b'), ('v', 'y')]), INT))
    pair = ('fn', 'pair', [('a', INT, None)], ('tup', [FN([], INT), FN([INT], INT)]),
            [('fn', 'getv', [], INT, [], ('v', 'a')),
             ('fn', 'plus', [('d', INT, None)], INT, [], ('c', 'add', [('v', 'a'), ('v', 'd')]))],
            ('tup', [('v', 'getv'), ('v', 'plus')]))
    ap = ('fn', 'ap', [('k', FN([INT], INT), None), ('v', INT, None)], INT, [], ('ce', ('v', 'k'), [('v', 'v')]))
    twice = ('fn', 'twice', [('k', FN([INT], INT), None)], FN([INT], INT), [],
             ('lam', [('z', INT, None)], [], ('ce', ('v', 'k'), [('ce', ('v', 'k'), [('v', 'z')])]), INT))
    ds = [adder, pair, ap, twice,
          ('let', 'a1', ('c', 'adder', [('i', 1)]), None),
          ('let', 'a2', ('c', 'adder', [('i', 100)]), None),
          ('let', 'p1', ('c', 'pair', [('i', 5)]), None),
          ('let', 'p2', ('c', 'pair', [('i', 70)]), None)]
    uses = [('ce', ('v', 'a1'), [('i', 10)]), ('ce', ('v', 'a2'), [('i', 10)]), ('ce', ('v', 'a1'), [('i', 20)]),
            ('c', 'ap', [('v', 'a2'), ('i', 3)]), ('c', 'ap', [('c', 'adder', [('i', 7)]), ('i', 3)]),
            ('ce', ('item', ('v', 'p1'), 0), []), ('ce', ('item', ('v', 'p2'), 1), [('i', 2)]),
            ('ce', ('c', 'twice', [('v', 'a1')]), [('i', 0)]),
            ('ce', ('c', 'twice', [('item', ('v', 'p2'), 1)]), [('i', 1)])]
    rng.shuffle(uses)
    for i, u in enumerate(uses):
        ds.append(('let', f'r{i}', u, INT))
    return ds


def t_recursion(rng):
    """recursion through captured names: an inner function calling the enclosing function (its recursion cell
    captured at distance 1 and 2), self recursion using a captured variable, a tail self-call next to captures"""
    n = rng.choice([3, 5, 8])
    outer = ('fn', 'outer', [('n', INT, None)], INT,
             [('fn', 'inner', [('k', INT, None)], INT, [],
               ('c', 'if', [('c', 'le', [('v', 'k'), ('i', 0)]), ('v', 'base'),
                            ('c', 'add', [('c', 'outer', [('c', 'sub', [('v', 'k'), ('i', 1)])]), ('i', 1)])]))],
             ('c', 'inner', [('v', 'n')]))
    deep = ('fn', 'deep', [('n', INT, None)], INT,
            [('fn', 'm1', [('u', INT, None)], INT,
              [('fn', 'm2', [('w', INT, None)], INT, [],
                ('c', 'if', [('c', 'le', [('v', 'w'), ('i', 0)]), ('v', 'u'),
                             ('c', 'add', [('c', 'deep', [('c', 'sub', [('v', 'w'), ('i', 1)])]), ('v', 'n')])]))],
              ('c', 'm2', [('v', 'u')]))],
            ('c', 'm1', [('v', 'n')]))
    acc = ('fn', 'mk', [('step', INT, None)], FN([INT, INT], INT),
           [('fn', 'loop', [('i', INT, None), ('s', INT, None)], INT, [],
             ('c', 'if', [('c', 'le', [('v', 'i'), ('i', 0)]), ('v', 's'),
                          ('c', 'loop', [('c', 'sub', [('v', 'i'), ('i', 1)]), ('c', 'add', [('v', 's'), ('v', 'step')])])]))],
           ('v', 'loop'))
    return [('let', 'base', ('i', 1000), INT), outer, deep, acc,
            ('let', 'r1', ('c', 'outer', [('i', n)]), INT),
            ('let', 'r2', ('c', 'deep', [('i', min(n, 4))]), INT),
            ('let', 'l3', ('c', 'mk', [('i', 3)]), None), ('let', 'l5', ('c', 'mk', [('i', 5)]), None),
            ('let', 'r3', ('ce', ('v', 'l3'), [('i', n), ('i', 0)]), INT),
            ('let', 'r4', ('ce', ('v', 'l5'), [('i', n), ('i', 1)]), INT)]


def t_defaults(rng):
    """defaults that display and read captured values: evaluated once per creation of the function, in the
    defining scope, left to right, never at a call"""
    mk = ('fn', 'mk', [('a', INT, None)], INT,
          [('let', 'b', ('c', 'mul', [('v', 'a'), ('i', 10)]), INT),
           ('fn', 'g', [('x', INT, None), ('y', INT, ('c', 'display', [('c', 'add', [('v', 'b'), ('i', 1)])])),
                        ('z', INT, ('c', 'display', [('c', 'add', [('v', 'a'), ('v', 'b')])]))], INT, [],
            add_all([('v', 'x'), ('v', 'y'), ('v', 'z')])),
           ('let', 'b', ('i', 0), INT)],     # a later redeclaration does not reach the default
          add_all([('c', 'g', [('i', 1)]), ('c', 'g', [('i', 2), ('i', 3)]), ('c', 'g', [('i', 4), ('i', 5), ('i', 6)]), ('v', 'b')]))
    top = ('fn', 't', [('x', INT, None), ('y', INT, ('c', 'display', [('c', 'mul', [('v', 'c0'), ('i', 2)])]))], INT, [],
           ('c', 'add', [('v', 'x'), ('v', 'y')]))
    lam = ('let', 'k', ('lam', [('x', INT, None), ('y', INT, ('c', 'display', [('c', 'add', [('v', 'c0'), ('i', 100)])]))], [],
                        ('c', 'sub', [('v', 'x'), ('v', 'y')]), INT), None)
    ds = [('let', 'c0', ('i', 21), INT), top, lam, ('let', 'c0', ('i', 0), INT), mk]
    uses = [('c', 't', [('i', 1)]), ('c', 't', [('i', 2)]), ('c', 't', [('i', 2), ('i', 2)]), ('ce', ('v', 'k'), [('i', 500)]),
            ('c', 'mk', [('i', 1)]), ('c', 'mk', [('i', 2)]), ('ce', ('v', 'k'), [('i', 1), ('i', 1)])]
    rng.shuffle(uses)
    for i, u in enumerate(uses):
        ds.append(('let', f'r{i}', ('c', 'display', [u]), INT))
    return ds


def t_forward(rng, variant):
    """forward declarations with later fulfilment: at top level and inside a function, mutual recursion, a
    forward-dependent function captured by an inner function and a lambda, used after the fulfilment"""
    ev = ('fn', 'ev', [('n', INT, None)], 'bool', [],
          ('c', 'if', [('c', 'eq', [('v', 'n'), ('i', 0)]), ('b', True), ('c', 'od', [('c', 'sub', [('v', 'n'), ('i', 1)])])]))
    od = ('fn', 'od', [('n', INT, None)], 'bool', [],
          ('c', 'if', [('c', 'eq', [('v', 'n'), ('i', 0)]), ('b', False), ('c', 'ev', [('c', 'sub', [('v', 'n'), ('i', 1)])])]))
    if variant == 0:     # top level
        return [fwd('od', [('n', INT)], 'bool'), ev, ('let', 'c1', ('i', 4), INT), od,
                ('let', 'r1', ('c', 'ev', [('i', 10)]), 'bool'), ('let', 'r2', ('c', 'od', [('i', 7)]), 'bool'),
                ('let', 'r3', ('c', 'ev', [('v', 'c1')]), 'bool'),
                ('fn', 'use', [('n', INT, None)], 'bool', [], ('c', 'and', [('c', 'ev', [('v', 'n')]), ('c', 'not', [('c', 'od', [('v', 'n')])])])),
                ('let', 'r4', ('c', 'use', [('i', 6)]), 'bool')]
    if variant == 1:     # inside a function, used inside the dynamic extent of the defining call
        body = [fwd('g', [('x', INT)], INT),
                ('fn', 'f', [('x', INT, None)], INT, [], ('c', 'add', [('c', 'g', [('v', 'x')]), ('i', 1)])),
                ('fn', 'mid', [('x', INT, None)], INT, [('fn', 'in2', [('y', INT, None)], INT, [], ('c', 'f', [('c', 'add', [('v', 'y'), ('v', 'x')])]))],
                 ('c', 'in2', [('i', 1)])),
                ('fn', 'g', [('x', INT, None)], INT, [], ('c', 'add', [('c', 'mul', [('v', 'x'), ('i', 10)]), ('v', 'a')])),
                ('let', 'k', ('lam', [('t', INT, None)], [], ('c', 'f', [('v', 't')]), INT), None)]
        outer = ('fn', 'outer', [('a', INT, None)], INT, body,
                 add_all([('c', 'f', [('i', 1)]), ('c', 'mid', [('i', 2)]), ('ce', ('v', 'k'), [('i', 3)]), ('c', 'g', [('i', 4)])]))
        return [outer, ('let', 'r1', ('c', 'outer', [('i', 5)]), INT), ('let', 'r2', ('c', 'outer', [('i', 6)]), INT)]
    if variant == 2:     # transitive dependency through two functions, three levels deep
        return [fwd('z', [('x', INT)], INT),
                ('fn', 'p', [('x', INT, None)], INT, [], ('c', 'z', [('c', 'add', [('v', 'x'), ('i', 1)])])),
                ('fn', 'q', [('x', INT, None)], INT,
                 [('fn', 'q1', [('y', INT, None)], INT, [('fn', 'q2', [('w', INT, None)], INT, [], ('c', 'p', [add_all([('v', 'w'), ('v', 'y'), ('v', 'x')])]))],
                   ('c', 'q2', [('i', 100)]))],
                 ('c', 'q1', [('i', 10)])),
                ('fn', 'z', [('x', INT, None)], INT, [], ('c', 'mul', [('v', 'x'), ('i', 2)])),
                ('let', 'r1', ('c', 'q', [('i', 1)]), INT), ('let', 'r2', ('c', 'p', [('i', 1)]), INT)]
    raise ValueError(variant)


def t_forward_deep(rng, depth, in_function, nest_first=True):
    """a forward-declared function referenced from `depth` (3..5) function levels below the scope S of its
    declaration; the nest is declared BEFORE the fulfilment (so every level only holds a pending capture) and called
    AFTER it.  S is the root or a function `main(bias)`.  In `main` the forward declaration sits at cell c = 2 + k;
    every intermediate level declares a *decoy* function of the same signature at exactly that cell index (literal
    `let`s in front, literal body: no other cells), each with its own result: a lookup that lands in the wrong scope
    silently calls a decoy (wrong value) instead of panicking."""
    k = rng.randrange(0, 3)
    c = 2 + k

    def nest(i):
        with_param = rng.random() < 0.4
        params = [(f'a{i}', INT, None)] if with_param else []
        nlets = c - (2 if with_param else 1)
        decls = [('let', f'n{i}_{j}', ('i', 100 * i + j), INT) for j in range(nlets)]
        decls.append(('fn', f'decoy{i}', [('x', INT, None)], INT, [], ('i', 7000 + i)))
        if i == depth:
            body = ('c', 'late', [('i', i)])
        else:
            inner = nest(i + 1)
            decls.append(inner)
            call = ('c', f'f{i + 1}', [('i', i)] if inner[2] else [])
            # intermediate levels sometimes use the forward function themselves (one/two levels down: controls)
            body = ('c', 'add', [call, ('c', 'late', [('i', 50 + i)])]) if rng.random() < 0.3 else call
        return ('fn', f'f{i}', params, INT, decls, body)

    f1 = nest(1)
    call1 = ('c', 'f1', [('i', 9)] if f1[2] else [])
    if in_function:
        late = ('fn', 'late', [('x', INT, None)], INT, [], ('c', 'add', [('c', 'mul', [('v', 'x'), ('i', 10)]), ('v', 'bias')]))
        pre = [('let', f'm{j}', ('i', 3 + j), INT) for j in range(k)]
        body = pre + [fwd('late', [('x', INT)], INT)] + ([f1, late] if nest_first else [late, f1])
        main = ('fn', 'main', [('bias', INT, None)], INT, body, ('c', 'add', [call1, ('v', 'bias')]))
        return [main, ('let', 'z', ('c', 'main', [('i', 0)]), INT), ('let', 'w', ('c', 'main', [('i', 100)]), INT)]
    late = ('fn', 'late', [('x', INT, None)], INT, [], ('c', 'add', [('c', 'mul', [('v', 'x'), ('i', 10)]), ('i', 2)]))
    return [fwd('late', [('x', INT)], INT)] + ([f1, late] if nest_first else [late, f1]) + \
        [('let', 'r', call1, INT), ('let', 'r2', ('c', 'add', [call1, ('i', 1)]), INT)]


# ---- the forward gate on dependency graphs -----------------------------------------------------------------------
def pick_callees(rng, declared, forwards, n):
    """n distinct callees among the declared names, forward functions twice as likely as helpers"""
    pool = list(declared)
    out = []
    while pool and len(out) < n:
        weights = [2 if x in forwards else 1 for x in pool]
        c = rng.choices(pool, weights)[0]
        pool.remove(c)
        out.append(c)
    return out


def gate_graph(rng, in_function):
    """1-4 forward functions, 0-3 helper functions, implementations and helpers calling each other in a random
    graph (cycles allowed; every body is guarded `if(x <= 0, c, callee(x-1) + ...)`), declarations in a random order,
    and ONE use at a random position, in one of the positions a use can have: the owning scope (call / as a value), a
    nested function body invoked early (a helper: plain, with an inner function, with a lambda), a lambda invoked
    at once, a default parameter value.  Returns (decls, expected_safe): the independent oracle — does the use reach,
    through the bodies of the functions it calls and the implementations given so far, a forward function that has
    no implementation yet at the point of the invocation."""
    k = rng.choice([1, 2, 2, 3, 3, 4])
    m = rng.randrange(0, 4)
    F = [f'f{i}' for i in range(k)]
    Wn = [f'w{j}' for j in range(m)]
    never = {f for f in F if rng.random() < 0.2}
    # the forward declarations first (any order), then helpers (rather early: defined while forwards are pending),
    # implementations (rather late) and the use (in between), by random keys
    fw = [('fwd', f) for f in F]
    rng.shuffle(fw)
    keyed = [(rng.uniform(0.0, 0.6), ('helper', w)) for w in Wn] + \
            [(rng.uniform(0.15, 1.0), ('impl', f)) for f in F if f not in never] + [(rng.uniform(0.4, 0.95), ('use', None))]
    keyed.sort(key=lambda t: t[0])
    events = fw + [e for _, e in keyed]
    start = k + m + 2
    X = ('v', 'x')

    def body(callees, const):
        if not callees:
            return ('i', const)
        calls = [('c', c, [('c', 'sub', [X, ('i', 1)])]) for c in callees]
        return ('c', 'if', [('c', 'le', [X, ('i', 0)]), ('i', const), add_all(calls + [('i', 1)])])

    declared, impl_at, deps, ds = [], {}, {}, []
    use_form, target, safe = None, None, None
    for idx, (kind, name) in enumerate(events):
        if kind == 'fwd':
            ds.append(fwd(name, [('x', INT)], INT))
            declared.append(name)
        elif kind == 'impl':
            callees = pick_callees(rng, declared, F, rng.choice([0, 1, 1, 2]))
            deps[('impl', name)] = list(callees)
            impl_at[name] = idx
            ds.append(('fn', name, [('x', INT, None)], INT, [], body(callees, 10 + idx)))
        elif kind == 'helper':
            if not declared:
                callees = []
            else:
                callees = pick_callees(rng, declared, F, rng.choice([1, 1, 2]))
            deps[('helper', name)] = list(callees)
            shape = rng.choice(['plain', 'inner', 'lambda'])
            if shape == 'plain' or not callees:
                d = ('fn', name, [('x', INT, None)], INT, [], body(callees, 100 + idx))
            elif shape == 'inner':
                inner = ('fn', 'in2', [('x', INT, None)], INT, [], body(callees, 100 + idx))
                d = ('fn', name, [('x', INT, None)], INT, [inner], ('c', 'in2', [X]))
            else:
                lam = ('lam', [('x', INT, None)], [], body(callees, 100 + idx), INT)
                d = ('fn', name, [('x', INT, None)], INT, [], ('ce', lam, [X]))
            ds.append(d)
            declared.append(name)
        else:
            hs = [n for n in declared if n not in F]
            target = rng.choice(hs) if (hs and rng.random() < 0.6) else rng.choice(declared)
            use_form = rng.choice(['call', 'call', 'call', 'value', 'value', 'default', 'default', 'lambda', 'lambda', 'lambda',
                                   'lambda', 'nested-now', 'nested-now', 'nested-now', 'nested-now', 'nested-now',
                                   'helper-now', 'helper-now', 'helper-now', 'helper-now'])
            # the oracle: reachability at this point of the text
            implemented = {f for f, at in impl_at.items() if at < idx}
            seen, stack, safe = set(), [target], True
            while stack:
                n = stack.pop()
                if n in seen:
                    continue
                seen.add(n)
                if n in F:
                    if n not in implemented:
                        safe = False
                        break
                    stack.extend(deps[('impl', n)])
                else:
                    stack.extend(deps[('helper', n)])
            arg = ('i', start)
            if use_form == 'call':
                ds.append(('let', 'u', ('c', target, [arg]), INT))
            elif use_form == 'value':
                ds.append(('let', 'hv', ('v', target), None))
                ds.append(('let', 'u', ('ce', ('v', 'hv'), [arg]), INT))
            elif use_form == 'lambda':
                ds.append(('let', 'u', ('ce', ('lam', [('y', INT, None)], [], ('c', target, [('v', 'y')]), INT), [arg]), INT))
            elif use_form == 'default':
                ds.append(('fn', 'dfl', [('q', INT, ('c', target, [arg]))], INT, [], ('v', 'q')))
                ds.append(('let', 'u', ('c', 'dfl', []), INT))
            elif use_form == 'helper-now':
                ds.append(('fn', 'via', [('x', INT, None)], INT, [], ('c', target, [X])))
                ds.append(('let', 'u', ('c', 'via', [arg]), INT))
            else:
                via = ('fn', 'via', [('x', INT, None)], INT,
                       [('fn', 'deep', [('x', INT, None)], INT, [], ('c', target, [X]))], ('c', 'deep', [X]))
                ds.append(via)
                ds.append(('let', 'u', ('c', 'via', [arg]), INT))
    tagform = use_form
    if in_function:
        main = ('fn', 'main', [('bias', INT, None)], INT, ds, ('c', 'add', [('v', 'u'), ('v', 'bias')]))
        ds = [main, ('let', 'z', ('c', 'main', [('i', 1000)]), INT)]
    return ds, safe, tagform


def gate_graph_family(chk, n):
    """runs the family: an unsafe use must be a compilation error of class MissingForwardImplementation; a safe one is
    a FCase for the three-way / structural / cell-level ties.  Returns the safe cases."""
    rng = chk.rng
    safe_cases, unsafe = [], []
    for i in range(n):
        ds, safe, form = gate_graph(rng, in_function=(i % 3 == 2))
        c = FCase(ds, "gate-graph")
        # the two oracles agree: the static reachability and the reference evaluator with forward boxes
        co, _ = c.oracle()
        dyn_safe = not co["outcome"].startswith("oracle-stuck forward function used before its definition")
        if co["outcome"].startswith("oracle-") and dyn_safe:
            chk.violation("machinery:oracle:gate-graph", f"the reference evaluator cannot run a gate-graph program: {co['outcome']}", c.replay(), no_input=True)
            continue
        if dyn_safe != safe:
            chk.violation("machinery:oracle:gate-graph-disagree", f"static oracle says safe={safe}, reference evaluator says {co['outcome']}", c.replay(), no_input=True)
            continue
        chk.count(f"gate-graph:{form}:{'safe' if safe else 'unsafe'}")
        (safe_cases if safe else unsafe).append(c)
    res = run_harness([c.req() for c in unsafe])
    for c, r in zip(unsafe, res):
        chk.evaluations += 1
        ci = cg.canon_impl(r, c.names)
        if not ci["outcome"].startswith("compile-err MissingForwardImplementation"):
            kind = ci["outcome"].split(" ")[0].split(":")[0]
            chk.violation(f"gate-graph:unsafe-use:{'accepted-' + kind if kind in ('ok', 'panic', 'viol') else kind}",
                          f"a use that reaches a forward function without implementation was not rejected with MissingForwardImplementation: "
                          f"the implementation says {json.dumps(ci)[:400]}",
                          c.replay({"impl": ci, "expected": {"outcome": "compile-err MissingForwardImplementation"}}))
    return safe_cases, unsafe


def t_forward_escape(variant):
    """KNOWN DEFECT family: a function that captured a not yet fulfilled forward function reads it, at run time,
    through the *caller's* scope chain (runtime_scope.rs PendingCapture + the scope-parent search by id)"""
    if variant == 0:    # forward inside a function; the dependent closure is returned
        outer = ('fn', 'outer', [('a', INT, None)], FN([INT], INT),
                 [fwd('g', [('x', INT)], INT),
                  ('fn', 'f', [('x', INT, None)], INT, [], ('c', 'g', [('v', 'x')])),
                  ('fn', 'g', [('x', INT, None)], INT, [], ('c', 'add', [('v', 'x'), ('v', 'a')]))],
                 ('v', 'f'))
        return [outer, ('let', 'h', ('c', 'outer', [('i', 1)]), None), ('let', 'r', ('ce', ('v', 'h'), [('i', 2)]), INT)]
    if variant == 1:    # top-level forward, called from a closure that escaped its defining call
        return [fwd('g', [('x', INT)], INT),
                ('fn', 'f', [('x', INT, None)], INT, [], ('c', 'g', [('v', 'x')])),
                ('fn', 'g', [('x', INT, None)], INT, [], ('c', 'add', [('v', 'x'), ('i', 1)])),
                ('fn', 'mk', [('a', INT, None)], FN([INT], INT), [], ('lam', [('y', INT, None)], [], ('c', 'add', [('c', 'f', [('v', 'y')]), ('v', 'a')]), INT)),
                ('let', 'h', ('c', 'mk', [('i', 1)]), None), ('let', 'r', ('ce', ('v', 'h'), [('i', 2)]), INT)]
    raise ValueError(variant)


def t_forward_reenter():
    """KNOWN DEFECT: the same dynamic search finds another activation of the defining function: the closure made
    by outer(1) reads g of outer(100) when it is called from inside outer(100)"""
    outer = ('fn', 'outer', [('a', INT, None), ('k', FN([INT], INT), None)], FN([INT], INT),
             [fwd('g', [('x', INT)], INT),
              ('fn', 'f', [('x', INT, None)], INT, [], ('c', 'g', [('v', 'x')])),
              ('fn', 'g', [('x', INT, None)], INT, [], ('c', 'add', [('v', 'x'), ('v', 'a')])),
              ('let', 'q', ('c', 'display', [('ce', ('v', 'k'), [('i', 0)])]), INT)],
             ('v', 'f'))
    return [outer, ('let', 'h', ('c', 'outer', [('i', 1), ('lam', [('x', INT, None)], [], ('v', 'x'), INT)]), None),
            ('let', 'h2', ('c', 'outer', [('i', 100), ('v', 'h')]), None)]


def t_lambda_hoist():
    """KNOWN DEVIATION: a lambda is created (its defaults evaluated) when the enclosing scope is entered — its
    `Declaration::Function` precedes the declaration that mentions it — not when the lambda expression is
    evaluated: the default of a lambda in a branch that is not taken is still computed"""
    lam = ('lam', [('x', INT, ('c', 'display', [('i', 5)]))], [], ('v', 'x'), INT)
    f = ('fn', 'f', [('c', 'bool', None)], INT, [], ('c', 'if', [('v', 'c'), ('ce', lam, []), ('i', 0)]))
    return [f, ('let', 'r', ('c', 'f', [('b', False)]), INT), ('let', 's', ('c', 'f', [('b', True)]), INT)]


def cell_level(chk, res):
    """fourth party: the cell-level run-time model (XrayModel/CellRun.lean) on the program compiled by the scope
    model, against the implementation.  It is the literal reading of runtime_scope.rs, so it is expected to agree with
    the implementation also where the implementation deviates from the documented semantics (pending captures)."""
    lines = [f"scope run - - - 1 3000000 " + scope_sexp(c.ds) for (c, ci, cm, co, ev) in res]
    out = run_model(lines, timeout=3600)
    agree = 0
    for (c, ci, cm, co, ev), line in zip(res, out):
        chk.evaluations += 1
        cc = cg.canon_model(line, c.names)
        ok = cg.same(cc, ci)
        if not ok and ci["outcome"].startswith("panic") and cc["outcome"].startswith("stuck:"):
            # a Rust panic is `stuck` in the model: same message
            ok = cc["outcome"][6:] in ci["outcome"]
        if ok:
            agree += 1
            chk.count("cell:" + ("agrees-on-deviation" if not cg.same(ci, co) and not co["outcome"].startswith("oracle-") else "agrees"))
        elif not co["outcome"].startswith("oracle-") and not cg.same(ci, co):
            # the implementation itself deviates here (reported by the behavioural tie with this very program);
            # the cell-level model, fed by the scope model's compilation, is not expected to follow an unknown deviation
            chk.count("cell:differs-where-implementation-deviates")
        else:
            chk.violation(f"tie:cell:{c.tag}", f"cell-level run-time model disagrees with the implementation ({c.tag}): model={json.dumps(cc)[:500]} impl={json.dumps(ci)[:500]}",
                          dict(c.replay(), cell_model_request=lines[0][:0] + "scope run - - - 1 3000000 " + scope_sexp(c.ds), impl=ci, model=cc), no_input=True)
    chk.coverage["cell_level_agreements"] = agree


GATE_PROGRAMS = [
    # (name, source, expected) : expected = "MissingForwardImplementation" or "ok"
    ("call-before", "forward fn g(x:int)->int; let r = g(1); fn g(x:int)->int{ x+1 }", "MissingForwardImplementation"),
    ("value-before", "forward fn g(x:int)->int; let h = g; fn g(x:int)->int{ x+1 }", "MissingForwardImplementation"),
    ("dependent-call-before", "forward fn g(x:int)->int; fn f(x:int)->int{ g(x) } let r = f(1); fn g(x:int)->int{ x+1 }", "MissingForwardImplementation"),
    ("dependent-value-before", "forward fn g(x:int)->int; fn f(x:int)->int{ g(x) } let h = f; fn g(x:int)->int{ x+1 }", "MissingForwardImplementation"),
    ("dependent-in-tuple-before", "forward fn g(x:int)->int; fn f(x:int)->int{ g(x) } let r = (f,)::item0(1); fn g(x:int)->int{ x+1 }", "MissingForwardImplementation"),
    ("transitive-before", "forward fn g(x:int)->int; fn f(x:int)->int{ g(x) } fn k(x:int)->int{ f(x) } let r = k(1); fn g(x:int)->int{ x+1 }", "MissingForwardImplementation"),
    ("lambda-before", "forward fn g(x:int)->int; let k = (x:int)->{ g(x) }; fn g(x:int)->int{ x+1 }", "MissingForwardImplementation"),
    ("lambda-transitive-before", "forward fn g(x:int)->int; fn f(x:int)->int{ g(x) } let k = (x:int)->{ f(x) }; fn g(x:int)->int{ x+1 }", "MissingForwardImplementation"),
    ("default-before", "forward fn g(x:int)->int; fn f(x:int ?= g(1))->int{ x } fn g(x:int)->int{ x+1 }", "MissingForwardImplementation"),
    ("fulfilment-with-dependency", "forward fn a(x:int)->int; forward fn b(x:int)->int; fn a(x:int)->int{ b(x) } let r = a(1); fn b(x:int)->int{ x+1 }", "MissingForwardImplementation"),
    ("inner-returns-dependent", "fn outer(a:int)->(int)->(int){ forward fn g(x:int)->int; fn f(x:int)->int{ g(x) } f }", "MissingForwardImplementation"),
    ("nested-lambda-makes-outer-forward", "forward fn g(x:int)->int; fn mk()->(int)->(int){ (x:int)->{ g(x) } } let r = mk()(1); fn g(x:int)->int{ x+1 }", "MissingForwardImplementation"),
    ("nested-value-makes-outer-forward", "forward fn g(x:int)->int; fn mk()->(int)->(int){ fn i(x:int)->int{ g(x) } i } let r = mk()(1); fn g(x:int)->int{ x+1 }", "MissingForwardImplementation"),
    ("after-ok", "forward fn g(x:int)->int; fn f(x:int)->int{ g(x) } fn g(x:int)->int{ x+1 } let h = f; let k = (x:int)->{ f(x) }; let r = h(1) + k(2) + g(3);", "ok"),
    ("fulfilment-with-dependency-ok", "forward fn a(x:int)->int; forward fn b(x:int)->int; fn a(x:int)->int{ b(x) } fn b(x:int)->int{ x+1 } let r = a(1);", "ok"),
    ("never-fulfilled-unused-ok", "forward fn g(x:int)->int; fn f(x:int)->int{ g(x) } let z = 1;", "ok"),
]


def forward_gate(chk):
    """the forward gate, on the compiler: every way of getting hold of a function that (transitively) needs an
    unfulfilled forward declaration is a compilation error; after the fulfilment everything is allowed.  A program
    that passes the gate wrongly shows as a panic ('access to uninitialized cell') when run."""
    res = run_harness([{"op": "run", "src": s, "get": []} for (_, s, _) in GATE_PROGRAMS])
    for (name, src, want), r in zip(GATE_PROGRAMS, res):
        chk.evaluations += 1
        chk.count("gate:" + want)
        ci = cg.canon_impl(r, [])
        got = ci["outcome"]
        ok = (got == "ok") if want == "ok" else got.startswith("compile-err " + want)
        if not ok:
            chk.violation(f"gate:{name}", f"forward gate: expected {want}, the implementation says {got[:200]} on: {src}",
                          {"src": src, "get": [], "expected": {"outcome": want}})
    # host side, transitively: w needs g1, g1 is implemented on top of the never implemented g0
    src2 = "forward fn g0(x:int)->int; forward fn g1(x:int)->int; fn w()->int{ g1(1) } fn g1(x:int)->int{ g0(x) } fn ok()->int{ 5 }"
    r2 = run_harness([{"op": "run", "src": src2, "get": [], "calls": ["w", "ok"]}])[0]
    chk.evaluations += 1
    calls2 = r2.get("calls")
    if not (isinstance(calls2, list) and len(calls2) == 2 and calls2[0].startswith("!forwardref g0") and "5" in calls2[1]):
        chk.violation("gate:host-transitive", f"host-side forward gate is not transitive: get_user_defined_function answered {calls2 if calls2 is not None else json.dumps(r2)[:200]} for w (needs g1, whose implementation needs the unimplemented g0) on: {src2}",
                      {"src": src2, "calls": ["w", "ok"]})
    # host side: a function with an unfulfilled requirement is refused by get_user_defined_function
    src = "forward fn g(x:int)->int; fn f()->int{ g(1) } fn ok()->int{ 5 }"
    r = run_harness([{"op": "run", "src": src, "get": [], "calls": ["f", "ok", "g"]}])[0]
    chk.evaluations += 1
    calls = r.get("calls")
    if not (isinstance(calls, list) and len(calls) == 3 and calls[0].startswith("!forwardref g") and "5" in calls[1]
            and calls[2].startswith("!")):
        chk.violation("gate:host", f"host-side forward gate: get_user_defined_function answered {calls} for f (needs g), ok, g on: {src}",
                      {"src": src, "calls": ["f", "ok", "g"]})


# ------------------------------------------------------------------------------------------------ identifier spellings

ALPHABET = "item019_a"
KEYWORDS = {"true", "false"}


def spellings(maxlen):
    out = []
    for n in range(1, maxlen + 1):
        for t in itertools.product(ALPHABET, repeat=n):
            s = "".join(t)
            if s[0] in "019":
                continue          # CNAME starts with a letter or an underscore
            out.append(s)
    return out


def interner(chk, names, per_prog):
    """distinct spellings bound to distinct values must read back distinct values, directly and through a capture"""
    progs = []
    for i in range(0, len(names), per_prog):
        grp = names[i:i + per_prog]
        src = "".join(f"let {n} = {j + 1};\n" for j, n in enumerate(grp))
        src += "fn rd()->Sequence<int>{ [" + ", ".join(grp) + "] }\nlet vv = rd();\n"
        progs.append((grp, src))
    res = run_harness([{"op": "run", "src": s, "get": g + ["vv"]} for g, s in progs])
    for (grp, src), r in zip(progs, res):
        chk.evaluations += len(grp)
        if "panic" in r or r.get("compile") != "ok" or r.get("inst") != "ok":
            # find the culprit(s) one by one
            single = run_harness([{"op": "run", "src": f"let {n} = 1;", "get": [n]} for n in grp])
            bad = [(n, cg.canon_impl(x, [n])["outcome"]) for n, x in zip(grp, single) if cg.canon_impl(x, [n])["outcome"] != "ok"]
            for n, o in bad[:3]:
                # keywords and reserved words are legitimately rejected with a syntax error
                if o.startswith("compile-err Syntax"):
                    chk.count("spelling:not-an-identifier")
                    continue
                chk.violation("intern:spelling:" + o.split(" ")[0], f"the identifier spelling `{n}` is not usable: {o[:200]}", {"src": f"let {n} = 1;", "get": [n]})
            if not bad:
                chk.violation("intern:group", f"a program declaring distinct spellings fails: {json.dumps(r)[:300]}", {"src": src, "get": grp})
            continue
        want = {n: f"(int {j + 1})" for j, n in enumerate(grp)}
        got = {n: cg.strip_tags(r["vals"][n]) for n in grp}
        seq = cg.strip_tags(r["vals"]["vv"])
        wantseq = "(seq" + "".join(f" (int {j + 1})" for j in range(len(grp))) + ")"
        if got != want or seq != wantseq:
            badn = [n for n in grp if got[n] != want[n]]
            n = badn[0] if badn else grp[0]
            j = grp.index(n)
            alias = [m for m in grp if want[m] == got[n]]
            chk.violation("intern:alias", f"distinct identifiers alias: `{n}` (bound to {j + 1}) reads {got[n]}" +
                          (f", the value of `{alias[0]}`" if alias else "") + f"; through a capture: {seq[:120]}",
                          {"src": src, "get": grp + ["vv"], "expected": {"outcome": "ok", "vals": dict(want, vv=wantseq), "out": []}})


# ------------------------------------------------------------------------------------------------ the check

def run(chk):
    rng = chk.rng
    quick = chk.tier == "quick"
    chk.trusted += [
        "checklib/coregen.py RefEval (+ forward declarations in checklib/c03.py FwdEval): independent Python evaluator of the documented semantics (oracle)",
        "the scope model covers the user's names; the library's cells are projected out of the compiler's dump (checklib/c03.py Projector) and overload resolution by argument types is C05's subject",
        "closure/default theorems are about the named-level core model (XrayModel/Core.lean); the cell-level model (XrayModel/CellRun.lean) is tied as a fourth party",
        "Driver/Scope.lean, Driver/Core.lean use `partial` for S-expression decoding and printing (glue, not part of the model)",
        "the interner (identifier spelling -> symbol) is modelled and proved injective in C12/C18's Lex model (XrayModel/Lex.lean); here it is tied by the spelling sweep",
    ]
    if not chk.prove():
        handle_broken(chk)

    cases = []
    # ---- (a) generated
    for i in range(120 if quick else 4000):
        g = cg.Gen(rng, max_depth=rng.choice([3, 4, 5]))
        cases.append(FCase(g.program(rng.choice([4, 6, 9])), "gen", printer_rng=rng, sugar=True))
    # ---- (a) targeted
    for depth in range(1, 7):
        for rep in range(3 if quick else 24):
            kinds = [rng.choice(['fn', 'fn', 'lam']) for _ in range(depth)]
            if rep == 0:
                kinds = ['fn'] * depth
            if rep == 1:
                kinds = ['lam'] * depth
            cases.append(FCase(t_distance(rng, depth, kinds), f"distance-{depth}"))
    cases += same_index_family(rng, 12 if quick else 160)
    for rep in range(4 if quick else 40):
        cases.append(FCase(t_shadow(rng), "shadow"))
        cases.append(FCase(t_escape(rng), "escape"))
        cases.append(FCase(t_recursion(rng), "recursion"))
        cases.append(FCase(t_defaults(rng), "defaults"))
    for v in range(3):
        cases.append(FCase(t_forward(rng, v), "forward"))
    for depth in (3, 4, 5):
        for in_function in (True, False):
            for rep in range(2 if quick else 12):
                cases.append(FCase(t_forward_deep(rng, depth, in_function), f"forward-deep-{depth}"))
        cases.append(FCase(t_forward_deep(rng, depth, True, nest_first=False), f"forward-deep-{depth}"))
    gsafe, gunsafe = gate_graph_family(chk, 200 if quick else 3000)
    cases += gsafe
    cases.append(FCase(t_forward_escape(0), "fwd-escape"))
    cases.append(FCase(t_forward_escape(1), "fwd-escape"))
    cases.append(FCase(t_forward_reenter(), "fwd-reenter"))
    cases.append(FCase(t_lambda_hoist(), "lam-hoist"))

    def nontrivial(c, ev):
        return c.tag != "gen" or 'lam' in json.dumps(c.ds) or '->{' in c.src

    res = three_way(chk, cases, "c03", nontrivial=nontrivial)
    shown = set()
    for c, ci, cm, co, ev in res:
        if c.tag not in shown and c.tag in ("distance-6", "defaults", "forward", "forward-deep-3"):
            shown.add(c.tag)
            chk.sample({"program": c.src, "impl": ci}, limit=12)
    # the oracle must not have skipped the targeted programs
    for c, ci, cm, co, ev in res:
        if c.tag != "gen" and co["outcome"].startswith("oracle-"):
            chk.violation(f"machinery:oracle:{c.tag}", f"the reference evaluator cannot run a targeted program: {co['outcome']}", c.replay(), no_input=True)

    # ---- fourth party: the cell-level run-time model on the compiled program
    cell_level(chk, res)

    # ---- forward gate
    forward_gate(chk)

    # ---- (b) structural
    progs = [(c.tag, c.ds, c.src) for c in cases] + [("gate-graph-unsafe", c.ds, c.src) for c in gunsafe]
    structural(chk, progs)
    # gate programs through the scope model too (error class must agree) — written as ASTs where it matters
    gate_asts = [
        ("gate", [fwd('g', [('x', INT)], INT), ('let', 'r', ('c', 'g', [('i', 1)]), INT), ('fn', 'g', [('x', INT, None)], INT, [], ('v', 'x'))]),
        ("gate", [fwd('g', [('x', INT)], INT), ('let', 'h', ('v', 'g'), None), ('fn', 'g', [('x', INT, None)], INT, [], ('v', 'x'))]),
        ("gate", [fwd('g', [('x', INT)], INT), ('fn', 'f', [('x', INT, None)], INT, [], ('c', 'g', [('v', 'x')])), ('let', 'h', ('v', 'f'), None),
                  ('fn', 'g', [('x', INT, None)], INT, [], ('v', 'x'))]),
        ("gate", [fwd('g', [('x', INT)], INT), ('let', 'k', ('lam', [('x', INT, None)], [], ('c', 'g', [('v', 'x')]), INT), None),
                  ('fn', 'g', [('x', INT, None)], INT, [], ('v', 'x'))]),
        ("gate", [fwd('a', [('x', INT)], INT), fwd('b', [('x', INT)], INT), ('fn', 'a', [('x', INT, None)], INT, [], ('c', 'b', [('v', 'x')])),
                  ('let', 'r', ('c', 'a', [('i', 1)]), INT), ('fn', 'b', [('x', INT, None)], INT, [], ('v', 'x'))]),
        ("gate", [fwd('g', [('x', INT)], INT), ('fn', 'f', [('x', INT, None)], INT, [], ('c', 'g', [('v', 'x')])),
                  ('fn', 'k', [('x', INT, None)], INT, [], ('c', 'f', [('v', 'x')])), ('let', 'r', ('c', 'k', [('i', 1)]), INT),
                  ('fn', 'g', [('x', INT, None)], INT, [], ('v', 'x'))]),
        ("gate", [('fn', 'outer', [('a', INT, None)], FN([INT], INT),
                   [fwd('g', [('x', INT)], INT), ('fn', 'f', [('x', INT, None)], INT, [], ('c', 'g', [('v', 'x')]))], ('v', 'f'))]),
        ("gate", [('let', 'x', ('i', 1), INT), ('let', 'y', ('v', 'nope'), INT)]),
        ("gate", [('fn', 'g', [('x', INT, None)], INT, [], ('v', 'x')),
                  ('fn', 'f', [('a', INT, None)], INT, [('fn', 'g', [('x', INT, None)], INT, [], ('v', 'x'))], ('c', 'g', [('v', 'a')]))]),
    ]
    structural(chk, [(t, ds, cg.Printer(None, sugar=False).program(ds)) for (t, ds) in gate_asts])

    # ---- (c) spellings
    names = spellings(4)
    if quick:
        special = [n for n in names if n.startswith("item") or n in ("i", "it", "ite", "_", "__", "a")]
        rest = [n for n in names if n not in set(special)]
        names = special + rng.sample(rest, 1500)
    extra = ["item1a", "item1b", "item01", "item1", "item10", "item_1", "item1_", "item00", "item0", "item11", "items",
             "item12345678901234567890123", "item99999", "Item1", "ITEM1", "item1A"]
    names = sorted(set(names) | set(extra))
    rng.shuffle(names)
    chk.count("spellings", len(names))
    interner(chk, names, 150)

    return chk.finish(rule="generated core programs + targeted templates (captures at ancestor distance 1..6 through fn/lambda mixes, the same cell index captured at several distances (depth 3..6, every level's two parameters mentioned by every inner level in shuffled order), shadowing chains "
                           "incl. same-scope redeclaration, escaping closures, recursion through captured recursion cells, displaying defaults, "
                           "forward declarations incl. a forward function referenced 3..5 levels below its declaration with decoys at the same cell index, the forward gate on random dependency graphs of 1..4 forward functions with the use in every scope position) three ways (implementation / Lean core model / Python reference evaluator); the same programs' "
                           "compiled structure (cells, capture pairs, declarations, Value references, forward-requirement counts) real compiler vs "
                           "Lean scope model; forward-gate programs; identifier spellings over {i,t,e,m,0,1,9,_,a} up to length 4; "
                           "non-trivial = targeted or containing a lambda (behavioural), capture chain of length >= 2 (structural); distinct by source text")


def replay(path):
    return replay_file(path, "C03")
