"""C19 — Derived equality, hash, order and text are coherent; sorting is right.
Proofs: lean/Props/C19.lean over lean/XrayModel/{Sort,Derive,Format}.lean.
Tie: (1) unit level through the hook wrappers — try_sort / TryHeap with comparators that are total
orders, preorders with many ties, or fail (error value / violation) at the k-th comparison for every k;
the final buffer, the buffer left behind by a failure and the number of comparisons are compared with
the compiled Lean model; object conservation is checked by pointer identity; (2) through the language —
sort / n_largest / n_smallest / nth_* / median, the derived eq/ne/lt/le/gt/ge/cmp/min/max/hash/to_str
on generated nested values, format on ints/strs/floats; accounted bytes after a failed sort.
Oracle: plain Python (sorted() is stable; tuples/lists compare lexicographically)."""
import functools
import re, struct
from .common import *

ERR = "ERR"

_eval_exprs_shared = eval_exprs


def eval_exprs(exprs, prelude="", **kw):
    """common.eval_exprs, but an expression answered `hang` / `abort` (a 10 s per-request budget that a
    heavily loaded machine can exceed) is evaluated once more alone with a generous budget before it counts"""
    res = _eval_exprs_shared(exprs, prelude=prelude, **kw)
    again = [i for i, r in enumerate(res) if r == "hang" or r.startswith("abort")]
    if again:
        r2 = _eval_exprs_shared([exprs[i] for i in again], prelude=prelude, chunk=1, per_req_timeout=120.0)
        for i, r in zip(again, r2):
            res[i] = r
    return res


def show(l):
    return ",".join(map(str, l)) if l else "-"


def parse_list(s):
    return [] if s == "-" else [int(x) for x in s.split(",")]


# ------------------------------------------------------------------ generators
def gen_keys(rng, n):
    """key sequences that exercise run detection (ascending / strictly descending runs, plateaus),
    the MIN_RUN extension and merges in both directions"""
    style = rng.choice(["rand", "fewkeys", "asc", "desc", "saw", "runs", "plateau", "organ", "allsame"])
    if style == "rand":
        return [rng.randrange(0, 50) for _ in range(n)]
    if style == "fewkeys":
        m = rng.choice([2, 3, 5])
        return [rng.randrange(0, m) for _ in range(n)]
    if style == "asc":
        return sorted(rng.randrange(0, 30) for _ in range(n))
    if style == "desc":
        return sorted((rng.randrange(0, 30) for _ in range(n)), reverse=True)
    if style == "saw":
        p = rng.choice([2, 3, 7, 11, 13])
        m = rng.choice([5, 7, 11, 17])
        return [(i * p) % m for i in range(n)]
    if style == "runs":
        out = []
        while len(out) < n:
            ln = rng.choice([1, 2, 3, 5, 9, 10, 11, 15, 25])
            base = rng.randrange(0, 40)
            step = rng.choice([-2, -1, 0, 1, 2])
            out += [base + step * i for i in range(ln)]
        return out[:n]
    if style == "plateau":
        out = []
        while len(out) < n:
            out += [rng.randrange(0, 6)] * rng.choice([1, 2, 4, 8, 12])
        return out[:n]
    if style == "organ":
        h = n // 2
        return list(range(h)) + list(range(n - h, 0, -1))
    return [7] * n


def gen_list(rng, n):
    """distinct elements key*1000+index: comparing by x // 1000 makes stability observable"""
    return [k * 1000 + i for i, k in enumerate(gen_keys(rng, n))]


# ------------------------------------------------------------------ unit level: try_sort
def sort_cases(chk, quick):
    rng = chk.rng
    lens = list(range(0, 41)) + [rng.randrange(41, 61) for _ in range(6)] if quick else \
        list(range(0, 201)) + [rng.randrange(200, 400) for _ in range(10)]
    lists = []
    for n in lens:
        for _ in range(2 if quick else 3):
            lists.append(gen_list(rng, n))
    base = []
    for xs in lists:
        d = rng.choice([1000, 1000, 1, 3000])
        base.append((xs, d))
    reqs = [{"op": "ord", "f": "sort", "d": d, "k": -1, "xs": xs} for xs, d in base]
    lines = [f"ord sort {d} -1 {show(xs)}" for xs, d in base]
    impl = run_harness(reqs)
    model = run_model(lines)
    fail_reqs, fail_lines, fail_meta = [], [], []
    for (xs, d), req, line, ri, rm in zip(base, reqs, lines, impl, model):
        chk.evaluations += 1
        chk.count("unit:sort:ok")
        chk.count(f"unit:sort:len{'<=20' if len(xs) <= 20 else '>20'}")
        got = "PANIC " + ri["panic"] if "panic" in ri else ri.get("r", json.dumps(ri))
        want = sorted(xs, key=lambda x: x // d)
        parts = got.split(" ")
        if parts[0] != "ok" or parse_list(parts[1]) != want:
            kind = "panic" if got.startswith("PANIC") else ("unsorted" if sorted(parse_list(parts[1])) == sorted(xs) else "lost-elements")
            chk.violation(f"unit:sort:{kind}", f"try_sort of {len(xs)} elements by key x//{d} gives {got[:200]}; the stable sort is {show(want)[:200]}",
                          {"harness": req, "expected": "ok " + show(want)})
            continue
        if not ri.get("conserved"):
            chk.violation("unit:sort:conservation", "after try_sort the buffer does not hold each input object exactly once", {"harness": req})
        if rm != got:
            chk.violation("tie:unit:sort", f"model disagrees with the implementation (which sorts correctly): model={rm[:160]} impl={got[:160]}",
                          {"harness": req, "model": line, "impl": got, "model_out": rm}, no_input=True)
        if len(set(x // d for x in xs)) < len(xs) and len(xs) > 20:
            chk.nontrivial.add(("sort", tuple(xs), d))
        ncmp = int(parts[2])
        ks = list(range(ncmp)) if (len(xs) <= 40 or not quick) and ncmp <= 2500 else sorted(rng.sample(range(ncmp), 40))
        if not quick and len(xs) > 60:
            ks = sorted(set(rng.sample(range(ncmp), min(ncmp, 60)) + [0, ncmp - 1]))
        for k in ks:
            kind = "violation" if (k + len(xs)) % 3 == 0 else "error"
            fail_reqs.append({"op": "ord", "f": "sort", "d": d, "k": k, "kind": kind, "xs": xs})
            fail_lines.append(f"ord sort {d} {k} {show(xs)}")
            fail_meta.append((xs, d, k, kind))
        # one k beyond the end: must not fail
        fail_reqs.append({"op": "ord", "f": "sort", "d": d, "k": ncmp, "kind": "error", "xs": xs})
        fail_lines.append(f"ord sort {d} {ncmp} {show(xs)}")
        fail_meta.append((xs, d, ncmp, "beyond"))
    impl = run_harness(fail_reqs)
    model = run_model(fail_lines)
    for (xs, d, k, kind), req, line, ri, rm in zip(fail_meta, fail_reqs, fail_lines, impl, model):
        chk.evaluations += 1
        chk.count("unit:sort:fail-at-k")
        got = "PANIC " + ri["panic"] if "panic" in ri else ri.get("r", json.dumps(ri))
        parts = got.split(" ")
        if kind == "beyond":
            if parts[0] != "ok" or parse_list(parts[1]) != sorted(xs, key=lambda x: x // d):
                chk.violation("unit:sort:spurious-failure", f"comparator failing only at comparison {k} (never reached) changed the result: {got[:160]}", {"harness": req})
            elif rm != got:
                chk.violation("tie:unit:sort", f"model/impl differ: model={rm[:160]} impl={got[:160]}", {"harness": req, "model": line}, no_input=True)
            continue
        tagw = "V" if kind == "violation" else "E"
        ok = (parts[0] == "fail" and parts[1] == tagw and int(parts[3]) == k + 1
              and sorted(parse_list(parts[2])) == sorted(xs) and ri.get("conserved"))
        if not ok:
            what = "panic" if got.startswith("PANIC") else ("swallowed" if parts[0] == "ok" else "lost-or-duplicated")
            chk.violation(f"unit:sort:fail:{what}", f"comparator failing ({kind}) at comparison {k} while sorting {len(xs)} elements: {got[:200]} conserved={ri.get('conserved')}",
                          {"harness": req})
            continue
        chk.nontrivial.add(("sortfail", len(xs), k, tuple(xs[:5])))
        if rm.replace("fail E ", f"fail {tagw} ", 1) != got:
            chk.violation("tie:unit:sort:fail", f"buffer left behind by a failing comparator differs: model={rm[:200]} impl={got[:200]}",
                          {"harness": req, "model": line, "impl": got, "model_out": rm}, no_input=True)
    if fail_reqs:
        chk.sample({"unit": {k: v for k, v in fail_reqs[len(fail_reqs) // 2].items()}, "expected": "fail, buffer a permutation, k+1 comparisons"})


# ------------------------------------------------------------------ language level: sorting
def xs_lit(xs):
    return "[" + ", ".join(lit(x) for x in xs) + "]" if xs else "[].map((x:int)->{x})"


def dump_ints(l):
    return "(seq" + "".join(f" (int S {x})" for x in l) + ")"


def lang_sort_cases(chk, quick):
    rng = chk.rng
    cases = []  # (key, expr, expected dump or predicate)
    n_lists = 60 if quick else 600
    for _ in range(n_lists):
        n = rng.choice([0, 1, 2, 3, 5, 8, 13, 19, 20, 21, 22, 25, 30, 33, 40, 64])
        xs = gen_list(rng, n)
        L = xs_lit(xs)
        keyf = "(a: int, b: int)->{cmp(div_floor(a, 1000), div_floor(b, 1000))}"
        by_key = sorted(xs, key=lambda x: x // 1000)
        cases.append(("sort", f"{L}.sort().to_array()", dump_ints(sorted(xs))))
        cases.append(("sort-cmp", f"{L}.sort({keyf}).to_array()", dump_ints(by_key)))
        cases.append(("sort_reverse", f"{L}.sort_reverse({keyf}).to_array()", dump_ints(sorted(xs, key=lambda x: -(x // 1000)))))
        k = rng.choice([0, 1, 2, 3, n // 2, n, n + 3])
        cases.append(("n_smallest", f"{L}.n_smallest({k})", dump_ints(sorted(xs)[:k])))
        cases.append(("n_largest", f"{L}.n_largest({k})", dump_ints(sorted(xs, reverse=True)[:k])))
        if n:
            i = rng.randrange(0, n)
            cases.append(("nth_smallest", f"{L}.nth_smallest({i})", f"(int S {sorted(xs)[i]})"))
            cases.append(("nth_largest", f"{L}.nth_largest({i})", f"(int S {sorted(xs, reverse=True)[i]})"))
            cases.append(("median", f"{L}.median()", f"(int S {sorted(xs)[n // 2]})"))
            # with ties only the key of the selected element is determined
            cases.append(("nth_smallest-key", f"div_floor({L}.nth_smallest({i}, {keyf}), 1000)", f"(int S {by_key[i] // 1000})"))
        else:
            cases.append(("median-empty", f"{L}.median()", ERR))
        cases.append(("nth-oob", f"{L}.nth_smallest({n})", ERR))
        # failing comparator: error on one particular pair
        if n >= 2:
            a, b = rng.sample(xs, 2)
            failf = f"(a: int, b: int)->{{if(a == {a} && b == {b}, error('boom'), cmp(a, b))}}"
            cases.append(("sort-failing-cmp", f"{L}.sort({failf}).to_array()", ("ERR-or", dump_ints(sorted(xs)))))
    dumps = eval_exprs([c[1] for c in cases])
    for (key, expr, want), d in zip(cases, dumps):
        chk.evaluations += 1
        chk.count("lang:" + key)
        got = ERR if d.startswith("(error ") else d
        replay = {"src": f"let r = {expr};", "get": ["r"], "expected": want, "got": d}
        if isinstance(want, tuple):
            if got != ERR and got != want[1]:
                chk.violation(f"lang:{key}:wrong", f"{expr[:300]} = {d[:200]}: neither the comparator's error nor the sorted sequence", replay)
            else:
                chk.count("lang:sort-failing-cmp:" + ("error" if got == ERR else "not-reached"))
            continue
        if got != want:
            kind = "panic" if d.startswith("panic") else ("hang" if d == "hang" else "wrong")
            chk.violation(f"lang:{key}:{kind}", f"{expr[:300]} evaluates to {d[:200]}; expected {str(want)[:200]}", replay)
    chk.sample({"lang": cases[1][1][:200], "expected": cases[1][2][:200]})


def select_cases(chk, quick):
    """nth_smallest / nth_largest / median through the language with a comparator by key (ties) that errors
    on chosen arguments, against the quickselect model (exact element) and the oracle (key of the k-th)"""
    rng = chk.rng
    cases = []
    for _ in range(120 if quick else 2000):
        n = rng.choice([1, 2, 3, 4, 5, 7, 8, 12, 20, 21, 33])
        xs = gen_list(rng, n)
        L = xs_lit(xs)
        i = rng.randrange(0, n + 1)
        mode = rng.choice(["none", "none", "first", "pair"])
        fa, fb = -7, -7
        cond = "false"
        if mode == "first":
            fa, fb = rng.choice(xs), -1
            cond = f"a == {fa}"
        elif mode == "pair" and n >= 2:
            fa, fb = rng.sample(xs, 2)
            cond = f"a == {fa} && b == {fb}"
        f = f"(a: int, b: int)->{{if({cond}, error('boom'), cmp(div_floor(a, 1000), div_floor(b, 1000)))}}"
        by_key = sorted(xs, key=lambda x: x // 1000)
        cases.append(("nth_smallest", f"{L}.nth_smallest({i}, {f})", f"ord select 1000 {i} {fa} {fb} {show(xs)}",
                      None if i >= n else by_key[i] // 1000, xs))
        if i < n:
            cases.append(("nth_largest", f"{L}.nth_largest({i}, {f})", f"ord select 1000 {n - i - 1} {fa} {fb} {show(xs)}",
                          by_key[n - i - 1] // 1000, xs))
        cases.append(("median", f"{L}.median({f})", f"ord select 1000 {n // 2} {fa} {fb} {show(xs)}", by_key[n // 2] // 1000, xs))
    dumps = eval_exprs([c[1] for c in cases])
    model = run_model([c[2] for c in cases])
    for (kind, expr, mline, wantkey, xs), d, rm in zip(cases, dumps, model):
        chk.evaluations += 1
        chk.count("select:" + kind)
        replay = {"src": f"let r = {expr};", "get": ["r"], "got": d}
        if d.startswith("(error "):
            got = "oob" if "out of bounds" in d else "fail"
        elif d.startswith("(int S "):
            got = "ok " + d[7:-1]
        else:
            got = d
        # oracle: out of range -> error; otherwise the comparator's error or an element with the k-th key
        if wantkey is None:
            good = got == "oob"
        elif got.startswith("ok "):
            v = int(got[3:])
            good = v in xs and v // 1000 == wantkey
        else:
            good = got == "fail" and "boom" in d and "false" not in expr.split("->")[1][:12]
        if not good:
            k2 = "panic" if d.startswith("panic") else "wrong"
            chk.violation(f"lang:select:{kind}:{k2}", f"{expr[:300]} evaluates to {d[:120]}; the element at that rank has key {wantkey}", replay)
            continue
        chk.count("select:outcome:" + got.split(" ")[0])
        if got.startswith("ok") and len(set(x // 1000 for x in xs)) < len(xs):
            chk.nontrivial.add(("select", expr))
        if rm != got:
            chk.violation(f"tie:select:{kind}", f"quickselect model disagrees with the implementation (which satisfies the oracle) on {expr[:200]}: model={rm} impl={got}",
                          {"src": replay["src"], "model": mline}, no_input=True)


def accounting_cases(chk, quick):
    """accounted bytes return to the baseline after a sort whose comparator fails midway"""
    rng = chk.rng
    reqs, meta = [], []
    for _ in range(12 if quick else 120):
        n = rng.choice([5, 12, 21, 30, 45])
        xs = gen_list(rng, n)
        a, b = rng.sample(xs, 2)
        failf = f"(a: int, b: int)->{{if(a == {a} && b == {b}, error('boom'), cmp(a, b))}}"
        src = f"fn f()->bool {{ is_error({xs_lit(xs)}.map((x: int)->{{x * 1000000007 * 1000000007}}).to_array().sort((a: int, b: int)->{{if(a == {a}*1000000007*1000000007 && b == {b}*1000000007*1000000007, error('boom'), cmp(a, b))}})) }}\n"
        reqs.append({"op": "run", "src": src, "get": [], "calls": ["f", "f"], "limits": {"size": 10_000_000}})
        meta.append(src)
    resps = run_harness(reqs)
    for src, r in zip(meta, resps):
        chk.evaluations += 1
        chk.count("lang:accounting")
        if _resp_fail_local(r):
            chk.violation("lang:accounting:run", f"program did not run: {_resp_fail_local(r)}", {"src": src})
            continue
        if r["size2"] != r["size0"] or r["size_live"] != r["size1"]:
            chk.violation("lang:accounting:leak", f"accounted bytes do not return to the baseline after a sort with a failing comparator: "
                          f"size0={r['size0']} size1={r['size1']} live={r['size_live']} size2={r['size2']}", {"src": src, "calls": ["f", "f"], "limits": {"size": 10_000_000}})
        chk.count("lang:accounting:failed-sort" if r["calls"][0] == "(bool true)" else "lang:accounting:sort-finished")


# ------------------------------------------------------------------ derived eq / cmp / hash / to_str
# types: ("int",) ("bool",) ("str",) ("tuple", [t..]) ("seq", t) ("opt", t) ("stack", t)
def gen_type(rng, depth):
    if depth == 0 or rng.random() < 0.25:
        return (rng.choice(["int", "int", "bool", "str", "float"]),)
    k = rng.choice(["tuple", "seq", "seq", "opt", "stack"])
    if k == "tuple":
        return ("tuple", [gen_type(rng, depth - 1) for _ in range(rng.choice([2, 2, 3]))])
    return (k, gen_type(rng, depth - 1))


def type_str(t):
    if t[0] in ("int", "bool", "str", "float"):
        return t[0]
    if t[0] == "tuple":
        return "(" + ", ".join(type_str(x) for x in t[1]) + ")"
    return {"seq": "Sequence", "opt": "Optional", "stack": "Stack"}[t[0]] + "<" + type_str(t[1]) + ">"


def has(t, kinds):
    if t[0] in kinds:
        return True
    if t[0] == "tuple":
        return any(has(x, kinds) for x in t[1])
    if t[0] in ("seq", "opt", "stack"):
        return has(t[1], kinds)
    return False


INTS = [-1, 0, 1, 2, 7, 2**63, 2**64 + 1, -(2**64) - 5]
STRS = ["", "a", "ab", "b", "aé", "A"]
FLOATS = [0.0, -0.0, 1.5, -2.25, 0.1, 3.0, 100000.5]


def fbits(v):
    return struct.unpack("<Q", struct.pack("<d", v))[0]


def gen_val(rng, t, big):
    k = t[0]
    if k == "int":
        return rng.choice(INTS[:5] if rng.random() < 0.8 else INTS)
    if k == "bool":
        return rng.random() < 0.5
    if k == "str":
        return rng.choice(STRS)
    if k == "float":
        return rng.choice(FLOATS)
    if k == "tuple":
        return tuple(gen_val(rng, x, big) for x in t[1])
    if k == "opt":
        return None if rng.random() < 0.35 else ("some", gen_val(rng, t[1], big))
    n = rng.choice([0, 1, 1, 2, 2, 3] + ([5, 8] if big else []))
    return [gen_val(rng, t[1], False) for _ in range(n)]


def mutate(rng, t, v):
    """a value close to v (often equal in a prefix) so that ties and near-ties are frequent"""
    k = t[0]
    r = rng.random()
    if r < 0.35:
        return v
    if k in ("int", "bool", "str", "float"):
        return gen_val(rng, t, False)
    if k == "tuple":
        j = rng.randrange(len(v))
        return tuple(mutate(rng, t[1][i], x) if i == j else x for i, x in enumerate(v))
    if k == "opt":
        if v is None or rng.random() < 0.3:
            return gen_val(rng, t, False)
        return ("some", mutate(rng, t[1], v[1]))
    if not v or rng.random() < 0.3:
        return v + [gen_val(rng, t[1], False)] if rng.random() < 0.6 else v[:-1]
    j = rng.randrange(len(v))
    return [mutate(rng, t[1], x) if i == j else x for i, x in enumerate(v)]


def xlit(t, v):
    k = t[0]
    if k == "int":
        return lit(v)
    if k == "bool":
        return "true" if v else "false"
    if k == "str":
        return '"' + v + '"'
    if k == "float":
        return repr(v) if fbits(v) >> 63 == 0 else f"(-{repr(-v)})"
    if k == "tuple":
        return "(" + ", ".join(xlit(x, y) for x, y in zip(t[1], v)) + ")"
    if k == "opt":
        return f"cast<{type_str(t)}>(none())" if v is None else f"some({xlit(t[1], v[1])})"
    if k == "seq":
        return f"cast<{type_str(t)}>([])" if not v else "[" + ", ".join(xlit(t[1], x) for x in v) + "]"
    # stack: top first in v
    e = f"cast<{type_str(t)}>(stack())" if not v else "stack()"
    for x in reversed(v):
        e += f".push({xlit(t[1], x)})"
    return e


def enc(t, v):
    k = t[0]
    if k == "int":
        return f"i{v};"
    if k == "bool":
        return "T" if v else "F"
    if k == "str":
        return "s" + ".".join(str(ord(c)) for c in v) + ";"
    if k == "float":
        return f"f{fbits(v)};"
    if k == "tuple":
        return "(" + "".join(enc(x, y) for x, y in zip(t[1], v)) + ")"
    if k == "opt":
        return "N" if v is None else "?" + enc(t[1], v[1])
    o, c = ("[", "]") if k == "seq" else ("{", "}")
    return o + "".join(enc(t[1], x) for x in v) + c


def esc(s):
    out = '"'
    for ch in s:
        if ch == '"':
            out += '\\"'
        elif ch == "\\":
            out += "\\\\"
        elif ord(ch) < 0x20 or ord(ch) > 0x7e:
            out += "\\u{%x}" % ord(ch)
        else:
            out += ch
    return out + '"'


def dump(t, v):
    k = t[0]
    if k == "int":
        return f"(int {'S' if -2**63 <= v < 2**63 else 'L'} {v})"
    if k == "bool":
        return "(bool true)" if v else "(bool false)"
    if k == "str":
        return "(str " + esc(v) + ")"
    if k == "float":
        return "(float %016x)" % fbits(v)
    if k == "tuple":
        return "(struct" + "".join(" " + dump(x, y) for x, y in zip(t[1], v)) + ")"
    if k == "opt":
        return "(none)" if v is None else "(some " + dump(t[1], v[1]) + ")"
    return "(" + k + "".join(" " + dump(t[1], x) for x in v) + ")"


def key(t, v):
    """python value whose ==/< are the structural eq / lexicographic cmp"""
    k = t[0]
    if k in ("int", "bool", "str", "float"):
        return v
    if k == "tuple":
        return tuple(key(x, y) for x, y in zip(t[1], v))
    if k == "opt":
        return (0,) if v is None else (1, key(t[1], v[1]))
    return [key(t[1], x) for x in v]


def to_str(t, v):
    k = t[0]
    if k == "int":
        return str(v)
    if k == "bool":
        return "true" if v else "false"
    if k == "str":
        return v
    if k == "float":
        return repr(v + 0.0) if v != 0 else "0.0"     # to_str normalises -0.0
    if k == "tuple":
        return "(" + ", ".join(to_str(x, y) for x, y in zip(t[1], v)) + ")"
    if k == "opt":
        return "None" if v is None else to_str(t[1], v[1])
    return "[" + ", ".join(to_str(t[1], x) for x in v) + "]"


def derive_cases(chk, quick):
    rng = chk.rng
    cases = []   # (op, expr, expected dump, model line or None, expected model answer)
    structs = []
    n_types = 36 if quick else 500
    for _ in range(n_types):
        t = gen_type(rng, rng.choice([1, 2, 2, 3]))
        comparable = not has(t, ("opt", "stack"))
        printable = not has(t, ("stack",))
        modelhash = not has(t, ("str", "float"))
        hashable = not has(t, ("float",))          # the library defines no hash for floats
        modelstr = not has(t, ("float",))
        sname = None
        if t[0] == "tuple":
            sname = f"S{len(structs)}"
            structs.append(f"struct {sname}(" + ", ".join(f"f{i}: {type_str(x)}" for i, x in enumerate(t[1])) + ")\n")
            chk.count("derive:struct-members")
        smem = lambda v: f"{sname}(" + ", ".join(xlit(x, y) for x, y in zip(t[1], v)) + ").members()"
        base = gen_val(rng, t, True)
        vals = [base, mutate(rng, t, base), mutate(rng, t, base)]
        vals.append(mutate(rng, t, vals[1]))
        chk.count("derive:type:" + t[0])
        for a in vals[:3]:
            for b in vals[1:]:
                ka, kb = key(t, a), key(t, b)
                A, B = xlit(t, a), xlit(t, b)
                ea, eb = enc(t, a), enc(t, b)
                b2 = lambda x: "(bool true)" if x else "(bool false)"
                m2 = lambda x: "bool true" if x else "bool false"
                cases.append(("eq", f"{A} == {B}", b2(ka == kb), f"ord derive eq {ea} {eb}", m2(ka == kb)))
                cases.append(("ne", f"{A} != {B}", b2(ka != kb), f"ord derive ne {ea} {eb}", m2(ka != kb)))
                if hashable:
                    cases.append(("hash-congr", f"(hash({A}) == hash({B})) || {A} != {B}", b2(True), None, None))
                if sname:
                    cases.append(("members-eq", f"{smem(a)} == {smem(b)}", b2(ka == kb), None, None))
                    cases.append(("members-eq-tuple", f"{smem(a)} == {B}", b2(ka == kb), None, None))
                if comparable:
                    c = (ka > kb) - (ka < kb)
                    cases.append(("cmp", f"cmp({A}, {B})", f"(int S {c})", f"ord derive cmp {ea} {eb}", f"int {c}"))
                    cases.append(("lt", f"{A} < {B}", b2(c < 0), f"ord derive lt {ea} {eb}", m2(c < 0)))
                    cases.append(("le", f"{A} <= {B}", b2(c <= 0), f"ord derive le {ea} {eb}", m2(c <= 0)))
                    cases.append(("gt", f"{A} > {B}", b2(c > 0), f"ord derive gt {ea} {eb}", m2(c > 0)))
                    cases.append(("ge", f"{A} >= {B}", b2(c >= 0), f"ord derive ge {ea} {eb}", m2(c >= 0)))
                    # include.rs: max = if(lt(a,b), b, a); min = if(lt(b,a), b, a): ties give the FIRST argument
                    mn = b if c > 0 else a
                    mx = b if c < 0 else a
                    if sname:
                        cases.append(("members-cmp", f"cmp({smem(a)}, {smem(b)})", f"(int S {c})", None, None))
                    cases.append(("min", f"min({A}, {B})", dump(t, mn), f"ord derive min {ea} {eb}", "val " + enc(t, mn)))
                    cases.append(("max", f"max({A}, {B})", dump(t, mx), f"ord derive max {ea} {eb}", "val " + enc(t, mx)))
            A, ea = xlit(t, a), enc(t, a)
            if hashable:
                cases.append(("hash", f"hash({A})", "HASH", f"ord derive hash {ea} N" if modelhash else None, "MODELHASH"))
                if sname:
                    cases.append(("members-hash", f"hash({smem(a)}) == hash({A})", "(bool true)", None, None))
            if printable:
                ts = to_str(t, a)
                cases.append(("to_str", f"to_str({A})", "(str " + esc(ts) + ")", f"ord derive to_str {ea} N" if modelstr else None,
                              "str " + ".".join(str(ord(ch)) for ch in ts)))
                if sname:
                    cases.append(("members-to_str", f"to_str({smem(a)})", "(str " + esc(ts) + ")", None, None))
    prelude = "".join(structs)
    dumps = eval_exprs([c[1] for c in cases], prelude=prelude)
    mi = [i for i, c in enumerate(cases) if c[3]]
    mres = dict(zip(mi, run_model([cases[i][3] for i in mi])))
    for i, ((op, expr, want, mline, mwant), d) in enumerate(zip(cases, dumps)):
        chk.evaluations += 1
        chk.count("derive:" + op)
        replay = {"src": prelude + f"let r = {expr};", "get": ["r"], "expected": want, "got": d}
        if want == "HASH":
            okh = d.startswith("(int ") and 0 <= int(d.split()[2].rstrip(")")) < 2**64
            if not okh:
                chk.violation("lang:derive:hash:range", f"{expr[:300]} = {d[:100]}: not an int in [0, 2^64)", replay)
            elif i in mres and mres[i] != "int " + d.split()[2].rstrip(")"):
                chk.violation("tie:derive:hash", f"model hash differs from the implementation's on {expr[:200]}: model={mres[i]} impl={d}",
                              {"src": replay["src"], "model": mline}, no_input=True)
            continue
        if d != want:
            kind = "panic" if d.startswith("panic") else ("compile" if d.startswith("compile-err") else "wrong")
            chk.violation(f"lang:derive:{op}:{kind}", f"{expr[:300]} evaluates to {d[:200]}; the structural answer is {want[:200]}", replay)
            continue
        if op in ("cmp", "lt", "le", "gt", "ge", "eq", "ne"):
            chk.nontrivial.add((op, expr))
        if i in mres and mres[i] != mwant:
            chk.violation(f"tie:derive:{op}", f"model disagrees with the implementation (which matches the oracle) on {expr[:200]}: model={mres[i][:100]}",
                          {"src": replay["src"], "model": mline, "model_out": mres[i]}, no_input=True)
    chk.sample({"lang": cases[0][1][:200], "expected": cases[0][2]})
    # set / mapping hash after removals (the model and theorems are C17's; here only the replay of the
    # observation of DESIGN §7 as a regression)
    extra = [("set-hash-after-remove", "hash(set<int>().update([1, 2, 3]).remove(2)) == hash(set<int>().update([1, 3]))", "(bool true)"),
             ("set-eq-after-remove", "set<int>().update([1, 2, 3]).remove(2) == set<int>().update([1, 3])", "(bool true)"),
             ("mapping-hash-after-pop", "hash(mapping<int>().set(1, 10).set(2, 20).discard(2)) == hash(mapping<int>().set(1, 10))", "(bool true)")]
    for (k, expr, want), d in zip(extra, eval_exprs([e[1] for e in extra])):
        chk.evaluations += 1
        chk.count("derive:" + k)
        if d != want:
            chk.violation(f"lang:derive:{k}", f"{expr} = {d}; equal collections must hash equally", {"src": f"let r = {expr};", "get": ["r"]})


# ------------------------------------------------------------------ format specifiers
SPEC_RE = re.compile(r"""^((?P<fill>.)?(?P<align>[<>=^]))?(?P<sign>[-+ ])?(?P<alt>\#)?(?P<zero_pad>0)?(?P<width>[1-9][0-9]*)?(?P<grouping>[,_])?(?:\.(?P<precision>[0-9]*))?(?P<type>.)?\Z""")


def py_spec(s):
    """the documented grammar, read by Python's backtracking regex engine (independent of both sides)"""
    m = SPEC_RE.match(s)
    if not m:
        return None
    g = m.groupdict()
    width = int(g["width"]) if g["width"] and int(g["width"]) < 2**64 else None
    if width is not None and g["fill"] and ord(g["fill"]) >= 128:
        return None
    prec = g["precision"]
    prec = int(prec) if prec and int(prec) < 2**64 else None
    return {"fill": g["fill"] if width is not None else None, "align": g["align"] if width is not None else None,
            "zero": (g["zero_pad"] is not None) if width is not None else None, "width": width, "prec": prec,
            "sign": g["sign"], "group": g["grouping"], "type": g["type"], "alt": g["alt"] is not None}


def spec_line(p):
    if p is None:
        return "none"
    o = lambda c: "-" if c is None else str(ord(c))
    z = "-" if p["zero"] is None else ("1" if p["zero"] else "0")
    return (f"fill={o(p['fill'])} align={o(p['align'])} zero={z} width={'-' if p['width'] is None else p['width']} "
            f"prec={'-' if p['prec'] is None else p['prec']} sign={o(p['sign'])} group={o(p['group'])} type={o(p['type'])} alt={1 if p['alt'] else 0}")


def pads(p, ln):
    if p["width"] is None or p["width"] < ln:
        return "", "", ""
    pad = p["width"] - ln
    ch = p["fill"] if p["fill"] is not None else ("0" if p["zero"] else " ")
    al = p["align"] if p["align"] is not None else ("=" if p["zero"] else ">")
    if al == "<":
        return "", "", ch * pad
    if al == ">":
        return ch * pad, "", ""
    if al == "=":
        return "", ch * pad, ""
    return ch * (pad // 2), "", ch * (pad - pad // 2)


def py_fmt_int(i, s):
    p = py_spec(s)
    if p is None or p["prec"] is not None:
        return ERR
    radix = {None: 10, "x": 16, "X": 16, "o": 8, "O": 8, "b": 2, "B": 2}.get(p["type"])
    if radix is None:
        return ERR
    n, digs = abs(i), ""
    while True:
        digs = "0123456789abcdef"[n % radix] + digs
        n //= radix
        if n == 0:
            break
    if p["group"]:
        parts = []
        while digs:
            parts.insert(0, digs[-3:])
            digs = digs[:-3]
        digs = p["group"].join(parts)
    sg = "-" if i < 0 else ("+" if p["sign"] == "+" else (" " if p["sign"] == " " else ""))
    if p["alt"]:
        if p["type"] is None:
            return ERR
        sg += "0" + p["type"]
    a, b, c = pads(p, len(digs) + len(sg))
    return a + sg + b + digs + c


def py_fmt_str(x, s):
    p = py_spec(s)
    if p is None or p["prec"] is not None or p["type"] is not None or p["alt"] or p["group"] or p["sign"]:
        return ERR
    if p["width"] is None:
        return x
    if p["align"] == "=" or (p["align"] is None and p["zero"]):
        return ERR
    a, b, c = pads(p, len(x))
    return a + x + c


def gen_spec(rng):
    if rng.random() < 0.6:
        s = ""
        if rng.random() < 0.5:
            s += rng.choice(["", "", "!", "*", "0", " ", "é", "<"]) + rng.choice("<>=^")
        s += rng.choice(["", "", "+", "-", " "])
        s += rng.choice(["", "", "#"])
        s += rng.choice(["", "", "0"])
        s += rng.choice(["", "1", "6", "9", "12", "20", "07", "99999999999999999999"])
        s += rng.choice(["", "", ",", "_"])
        s += rng.choice(["", "", "", ".", ".0", ".3"])
        s += rng.choice(["", "", "x", "X", "o", "b", "B", "d", "e", "%", "é"])
        return s
    return "".join(rng.choice("<>=^+- #0159,_.xXobe!é\n") for _ in range(rng.choice([1, 2, 3, 4, 5, 7])))


def cps(s):
    return ".".join(str(ord(c)) for c in s) if s else "-"


def format_cases(chk, quick):
    rng = chk.rng
    specs = sorted({gen_spec(rng) for _ in range(400 if quick else 6000)} |
                   {"", "0", "00", "05", "<", "<<", "x<", "+", "++", "5", ",", ",,", ".", ".5", "5.", "#", "#x", "!<#6x", "015.3e", "\n", "\n<5"})
    # unit level: the parsed fields
    reqs = [{"op": "ord", "f": "spec", "s": s} for s in specs]
    impl = run_harness(reqs)
    model = run_model([f"ord spec {cps(s)}" for s in specs])
    for s, ri, rm in zip(specs, impl, model):
        chk.evaluations += 1
        chk.count("format:spec")
        got = "PANIC " + ri["panic"] if "panic" in ri else ri.get("r", json.dumps(ri))
        want = spec_line(py_spec(s))
        if got != want:
            chk.violation("unit:format:spec:" + ("panic" if got.startswith("PANIC") else "wrong"),
                          f"specifier {s!r} is parsed as [{got}]; the documented grammar gives [{want}]", {"harness": {"op": "ord", "f": "spec", "s": s}})
        elif rm != got:
            chk.violation("tie:format:spec", f"model parses {s!r} as [{rm}], implementation [{got}]", {"model": f"ord spec {cps(s)}"}, no_input=True)
        else:
            chk.nontrivial.add(("spec", s))
    # language level: format of ints and strs
    cases = []
    ints = [0, 5, -5, 27, -298, 1234567, -1234567, 2**63, -(2**63), 2**70 + 12345, 999, 1000, -1000]
    strs = ["", "ab", "héé", "x" * 7]
    for s in specs:
        if "\n" in s or '"' in s or "\\" in s:
            continue
        for _ in range(2):
            i = rng.choice(ints)
            w = py_fmt_int(i, s)
            cases.append(("int", f'format({lit(i)}, "{s}")', ERR if w == ERR else "(str " + esc(w) + ")", f"ord fmtint {i} {cps(s)}",
                          "err" if w == ERR else "str " + cps(w).replace("-", "") if w == "" else ("err" if w == ERR else "str " + cps(w))))
        x = rng.choice(strs)
        w = py_fmt_str(x, s)
        cases.append(("str", f'format("{x}", "{s}")', ERR if w == ERR else "(str " + esc(w) + ")", f"ord fmtstr {cps(x)} {cps(s)}",
                      "err" if w == ERR else ("str " + cps(w) if w else "str ")))
    for i in ints:
        cases.append(("empty-int", f'format({lit(i)}, "") == to_str({lit(i)})', "(bool true)", None, None))
    for x in strs:
        cases.append(("empty-str", f'format("{x}", "") == to_str("{x}")', "(bool true)", None, None))
    for f in ["1.5", "0.1", "1e20", "-2.25", "0.0", "123456789.125", "1e-7"]:
        cases.append(("empty-float", f'format({f}, "") == to_str({f})', "(bool true)", None, None))
    dumps = eval_exprs([c[1] for c in cases])
    mi = [i for i, c in enumerate(cases) if c[3]]
    mres = dict(zip(mi, run_model([cases[i][3] for i in mi])))
    for i, ((kind, expr, want, mline, mwant), d) in enumerate(zip(cases, dumps)):
        chk.evaluations += 1
        chk.count("format:" + kind)
        got = ERR if d.startswith("(error ") else d
        replay = {"src": f"let r = {expr};", "get": ["r"], "expected": want, "got": d}
        if got != want:
            k2 = "panic" if d.startswith("panic") else "wrong"
            chk.violation(f"lang:format:{kind}:{k2}", f"{expr} evaluates to {d[:200]}; the documented grammar gives {want[:200]}", replay)
            continue
        if i in mres:
            gm = mres[i]
            if gm.rstrip() != mwant.rstrip():
                chk.violation(f"tie:format:{kind}", f"model disagrees with the implementation (which matches the oracle) on {expr}: model={gm}",
                              {"src": replay["src"], "model": mline, "model_out": gm}, no_input=True)
    chk.sample({"lang": cases[5][1], "expected": cases[5][2]})


# ------------------------------------------------------------------ unit level: TryHeap (n_largest / n_smallest)
def heap_cases(chk, quick):
    """push all, pop n, with the comparator failing at every k.  Oracle: the n largest (smallest) in order;
    on failure every object is accounted for exactly once (popped / still in the heap / not yet pushed / the
    one a failing pop had already removed), checked by pointer identity and reference counts."""
    rng = chk.rng
    base = []
    for n in (list(range(0, 14)) + [20, 33]) if quick else (list(range(0, 40)) + [64, 100, 200]):
        for _ in range(2):
            xs = gen_list(rng, n)
            base.append((xs, rng.choice([1000, 1]), rng.random() < 0.5, rng.choice([0, 1, 2, n // 2, n, n + 2])))
    reqs = [{"op": "ord", "f": "heap", "d": d, "k": -1, "n": m, "dec": dec, "xs": xs} for xs, d, dec, m in base]
    impl = run_harness(reqs)
    mline = lambda q: f"ord heap {q['d']} {q['k']} {1 if q['dec'] else 0} {q['n']} {show(q['xs'])}"

    def norm(r):
        # implementation report -> the model's form (outcome class, no `missing` field)
        p = r.split(" ")
        return " ".join(["ok" if p[0] == "ok" else "fail"] + p[1:7] + p[9:])
    model = run_model([mline(q) for q in reqs])
    nl_model = run_model([f"ord nlargest {q['d']} {1 if q['dec'] else 0} {q['n']} {show(q['xs'])}" for q in reqs])
    freqs, fmeta = [], []
    for (xs, d, dec, m), req, ri, rm, rnl in zip(base, reqs, impl, model, nl_model):
        chk.evaluations += 1
        chk.count("unit:heap:ok")
        got = "PANIC " + ri["panic"] if "panic" in ri else ri.get("r", json.dumps(ri))
        parts = got.split(" ")
        keyf = (lambda x: -(x // d)) if dec else (lambda x: x // d)
        ok = parts[0] == "ok" and ri.get("conserved") and parts[8] == "-"
        if ok:
            popped, drained = parse_list(parts[2]), parse_list(parts[6])
            allp = popped + drained
            ok = (len(popped) == min(m, len(xs)) and sorted(allp) == sorted(xs)
                  and [keyf(x) for x in allp] == sorted(keyf(x) for x in xs))
        if not ok:
            chk.violation("unit:heap:" + ("panic" if got.startswith("PANIC") else "wrong"), f"heap run (dec={dec}, n={m}) over {len(xs)} elements: {got[:200]}", {"harness": req})
            continue
        if rm != norm(got):
            chk.violation("tie:unit:heap", f"heap model disagrees with the implementation (which is right): model={rm[:160]} impl={got[:160]}",
                          {"harness": req, "model": mline(req)}, no_input=True)
        if rnl != f"ok {parts[2]} {parts[10]}":
            chk.violation("tie:unit:nlargest", f"Heap.nLargest (the function heap_nlargest_spec is about) disagrees with the implementation: model={rnl[:160]} impl popped={parts[2][:120]} n={parts[10]}",
                          {"harness": req}, no_input=True)
        ncmp = int(parts[10])
        ks = range(ncmp) if ncmp <= 300 else sorted(rng.sample(range(ncmp), 60))
        for k in ks:
            kind = "violation" if k % 2 else "error"
            freqs.append({"op": "ord", "f": "heap", "d": d, "k": k, "kind": kind, "n": m, "dec": dec, "xs": xs})
            fmeta.append((xs, k, kind))
    impl = run_harness(freqs)
    model = run_model([mline(q) for q in freqs])
    for (xs, k, kind), req, ri, rm in zip(fmeta, freqs, impl, model):
        chk.evaluations += 1
        chk.count("unit:heap:fail-at-k")
        got = "PANIC " + ri["panic"] if "panic" in ri else ri.get("r", json.dumps(ri))
        parts = got.split(" ")
        good = parts[0] == kind and ri.get("conserved") and int(parts[10]) >= k + 1
        if good:
            popped, drained, missing = parse_list(parts[2]), parse_list(parts[6]), parse_list(parts[8])
            notp = parse_list(ri.get("not_pushed", "-"))
            good = sorted(popped + drained + missing + notp) == sorted(xs) and len(missing) <= 1 and int(parts[4]) == len(drained)
        if not good:
            chk.violation("unit:heap:fail:" + ("panic" if got.startswith("PANIC") else "lost-or-duplicated"),
                          f"heap with the comparator failing ({kind}) at comparison {k}: {got[:200]} conserved={ri.get('conserved')}", {"harness": req})
            continue
        chk.nontrivial.add(("heapfail", len(xs), k, tuple(xs[:4])))
        if rm != norm(got):
            chk.violation("tie:unit:heap:fail", f"heap state after a failing comparator differs: model={rm[:200]} impl={got[:200]}",
                          {"harness": req, "model": mline(req)}, no_input=True)


# ------------------------------------------------------------------ user-defined cmp / eq / hash
# struct types whose `cmp` is USER code returning arbitrary integers; the derived operators must follow the
# SIGN of that result (book/src/std/general.md: "`gt`: Returns whether `cmp(a,b)` is greater than zero")
USER_CMPS = [
    ("a::x - b::x", lambda a, b: a - b),
    ("(a::x - b::x) * 7", lambda a, b: (a - b) * 7),
    ("(b::x - a::x) * 3", lambda a, b: (b - a) * 3),                      # a reversed order is an order too
    ("(a::x - b::x) * 1000000007 * 1000000007 * 1000000007", lambda a, b: (a - b) * 1000000007 ** 3),
    ("if(a::x < b::x, -7, if(a::x > b::x, 2, 0))", lambda a, b: -7 if a < b else (2 if a > b else 0)),
]


def user_cmp_cases(chk, quick):
    rng = chk.rng
    prelude = ""
    for i, (body, _) in enumerate(USER_CMPS):
        prelude += (f"struct U{i}(x: int, y: int)\n"
                    f"fn cmp(a: U{i}, b: U{i})->int {{ {body} }}\n"
                    f"fn eq(a: U{i}, b: U{i})->bool {{ a::x == b::x }}\n"
                    f"fn hash(a: U{i})->int {{ hash(a::x) }}\n")
    b2 = lambda v: "(bool true)" if v else "(bool false)"
    sgn = lambda v: (v > 0) - (v < 0)
    cases = []   # (op, expr, expected)
    for _ in range(14 if quick else 300):
        i = rng.randrange(len(USER_CMPS))
        ucmp = USER_CMPS[i][1]
        mk = lambda x, y: f"U{i}({lit(x)}, {y})"
        xs = [rng.choice([-3, 0, 1, 2, 5, 9, 10, 2**40]) for _ in range(4)]
        p, q = (xs[0], 0), (xs[1], 1)
        P, Q = mk(*p), mk(*q)
        c = ucmp(p[0], q[0])
        lt_pq, lt_qp = c < 0, ucmp(q[0], p[0]) < 0
        chk.count(f"usercmp:result:{'>1' if c > 1 else ('<-1' if c < -1 else str(c))}")
        cases += [("lt", f"{P} < {Q}", b2(c < 0)), ("le", f"{P} <= {Q}", b2(c <= 0)),
                  ("gt", f"{P} > {Q}", b2(c > 0)), ("ge", f"{P} >= {Q}", b2(c >= 0)),
                  ("eq", f"{P} == {Q}", b2(p[0] == q[0])), ("ne", f"{P} != {Q}", b2(p[0] != q[0])),
                  ("cmp", f"cmp({P}, {Q})", f"(int {'S' if -2**63 <= c < 2**63 else 'L'} {c})"),
                  # include.rs: max = if(lt(a,b), b, a); min = if(lt(b,a), b, a)
                  ("max", f"max({P}, {Q})::y", f"(int S {1 if lt_pq else 0})"),
                  ("min", f"min({P}, {Q})::y", f"(int S {1 if lt_qp else 0})"),
                  ("hash-congr", f"(hash({P}) == hash({Q})) || {P} != {Q}", b2(True)),
                  # one level inside tuples, sequences, optionals: lexicographic with the user cmp at the leaves
                  ("tuple-lt", f"({P}, 1) < ({Q}, 1)", b2(c < 0)), ("tuple-gt", f"({P}, 1) > ({Q}, 1)", b2(c > 0)),
                  ("tuple-ge", f"(0, {P}) >= (0, {Q})", b2(c >= 0)), ("tuple-le", f"(0, {P}) <= (0, {Q})", b2(c <= 0)),
                  ("tuple-eq", f"({P}, 1) == ({Q}, 1)", b2(p[0] == q[0])),
                  ("tuple-cmp-sign", f"cmp(({P}, 1), ({Q}, 2)) < 0", b2(c < 0 or c == 0)),
                  ("tuple-hash-congr", f"(hash(({P}, 1)) == hash(({Q}, 1))) || {P} != {Q}", b2(True)),
                  ("seq-lt", f"[{P}, {Q}] < [{Q}, {P}]", b2(c < 0)), ("seq-gt", f"[{P}, {Q}] > [{Q}, {P}]", b2(c > 0)),
                  ("seq-ge-prefix", f"[{P}, {Q}] >= [{P}]", b2(True)), ("seq-ne", f"[{P}] != [{Q}]", b2(p[0] != q[0])),
                  ("seq-max", f"max([{P}], [{Q}])[0]::y", f"(int S {1 if lt_pq else 0})"),
                  ("opt-eq", f"some({P}) == some({Q})", b2(p[0] == q[0])), ("opt-ne", f"some({P}) != some({Q})", b2(p[0] != q[0]))]
        # sorting and selection with the derived (user) cmp: stable by the sign of the user's cmp
        items = [(x, j) for j, x in enumerate(xs + [rng.choice(xs) for _ in range(rng.choice([0, 2, 20]))])]
        L = "[" + ", ".join(mk(x, j) for x, j in items) + "]"
        order = sorted(items, key=functools.cmp_to_key(lambda a, b: sgn(ucmp(a[0], b[0]))))
        cases.append(("sort", f"{L}.sort().map((t: U{i})->{{t::y}}).to_array()", dump_ints([j for _, j in order])))
        cases.append(("is-sorted-after-sort", f"{L}.sort().to_array() == {L}.sort().sort().to_array()", b2(True)))
        k = rng.randrange(len(items))
        cases.append(("nth_smallest-key", f"{L}.nth_smallest({k})::x", f"(int S {order[k][0]})"))
        cases.append(("n_largest-keys", f"{L}.n_largest(2).map((t: U{i})->{{t::x}}).to_array()", dump_ints([x for x, _ in order[::-1][:2]])))
    dumps = eval_exprs([c[1] for c in cases], prelude=prelude)
    for (op, expr, want), d in zip(cases, dumps):
        chk.evaluations += 1
        chk.count("usercmp:" + op)
        if d != want:
            kind = "panic" if d.startswith("panic") else ("compile" if d.startswith("compile-err") else "wrong")
            chk.violation(f"lang:usercmp:{op}:{kind}",
                          f"with a user-defined cmp/eq/hash on the struct: {expr[:300]} evaluates to {d[:160]}; by the sign of the user's cmp (and the user's eq) it is {want[:160]}",
                          {"src": prelude + f"let r = {expr};", "get": ["r"], "expected": want, "got": d})
        else:
            chk.nontrivial.add(("usercmp", op, expr))
    chk.sample({"lang": cases[2][1], "prelude": prelude[:160], "expected": cases[2][2]})


# ------------------------------------------------------------------ equal values, different representation
# pairs A ≡ B that are equal but come about differently (negative / positive zero, floats by different routes,
# ints across the small/big representation, strings and sequences built differently): every derived function
# must treat them alike — directly, one and two levels inside tuples / sequences / optionals with a deciding
# later component, and in sort / max / min / distinct / set / mapping keys.
EQUIV_PAIRS = [
    # (type, A, B, lo, hi, hashable)   with lo < A ≡ B < hi
    ("float", "(-0.0)", "0.0", "(-1.5)", "2.5", False),
    ("float", "(0.0 * (-1.0))", "0.0", "(-1.5)", "2.5", False),
    ("float", "(0.1 + 0.2)", "0.30000000000000004", "0.25", "0.5", False),
    ("float", "1e0", "1.0", "0.5", "1.5", False),
    ("float", "(2.0**53)", "(2.0**53 + 1.0)", "1.0", "(2.0**60)", False),
    ("int", "(2**64 - 2**64)", "0", "(-1)", "1", True),
    ("int", "((2**63) - 1 + 1 - 2**63)", "0", "(-1)", "1", True),
    ("int", "(2**70 - 2**70 + 5)", "5", "4", "(2**70)", True),
    ("str", '("a" + "b")', '"ab"', '"a"', '"b"', True),
    ("str", '(chr(97) + "b")', '"ab"', '"a"', '"b"', True),
    ("Sequence<int>", "range(3)", "[0, 1, 2]", "[0]", "[9]", True),
    ("Sequence<int>", "[0, 1, 2].map((x: int)->{x})", "range(3)", "[0]", "[9]", True),
    ("Sequence<int>", "([0] + [1, 2])", "[0, 1, 2]", "[0]", "[9]", True),
    ("Sequence<float>", "[(-0.0), 1.0]", "[0.0, 1.0]", "[(-1.0)]", "[5.0]", False),
]


def equiv_cases(chk, quick):
    T, F = "(bool true)", "(bool false)"
    cases = []
    for (ty, a0, b0, lo, hi, hashable) in EQUIV_PAIRS:
        for (A, B) in ((a0, b0), (b0, a0)):
            proj = f".map((p: ({ty}, int))->{{p::item1}}).to_array()"
            c = [("eq", f"{A} == {B}", T), ("ne", f"{A} != {B}", F), ("cmp", f"cmp({A}, {B})", "(int S 0)"),
                 ("lt", f"{A} < {B}", F), ("le", f"{A} <= {B}", T), ("ge", f"{A} >= {B}", T), ("gt", f"{A} > {B}", F),
                 ("to_str", f"to_str({A}) == to_str({B})", T),
                 # one level inside, a later component decides
                 ("tuple-cmp", f"cmp(({A}, 1), ({B}, 0)) > 0", T), ("tuple-lt", f"({A}, 0) < ({B}, 1)", T),
                 ("tuple-gt", f"({A}, 1) > ({B}, 0)", T), ("tuple-le", f"({A}, 1) <= ({B}, 0)", F),
                 ("tuple-eq", f"({A}, 1) == ({B}, 1)", T), ("tuple-to_str", f"to_str(({A}, 1)) == to_str(({B}, 1))", T),
                 ("seq-cmp", f"cmp([{A}, {hi}], [{B}, {lo}]) > 0", T), ("seq-lt", f"[{A}, {lo}] < [{B}, {hi}]", T),
                 ("seq-ge", f"[{A}, {lo}] >= [{B}, {hi}]", F), ("seq-eq", f"[{A}] == [{B}]", T),
                 ("seq-cmp0", f"cmp([{A}, {lo}], [{B}, {lo}])", "(int S 0)"),
                 ("opt-eq", f"some({A}) == some({B})", T), ("opt-ne", f"some({A}) != some({B})", F),
                 # two levels inside
                 ("tuple2-cmp", f"cmp((({A}, 1), 2), (({B}, 1), 1)) > 0", T),
                 ("seq2-cmp", f"cmp([[{A}], [{hi}]], [[{B}], [{lo}]]) > 0", T),
                 ("seq-of-tuple-gt", f"[({A}, 1)] > [({B}, 0)]", T),
                 ("tuple-of-opt-eq", f"(some({A}), 1) == (some({B}), 1)", T),
                 ("tuple-of-seq-lt", f"([{A}], 0) < ([{B}], 1)", T),
                 # sorting and extrema: equal keys keep the input order, the later component decides
                 ("sort-later-component", f"[({A}, 1), ({B}, 0)].sort()" + proj, dump_ints([0, 1])),
                 ("sort-stable", f"[({A}, 0), ({B}, 1), ({A}, 2), ({lo}, 3)].sort((p: ({ty}, int), q: ({ty}, int))->{{cmp(p::item0, q::item0)}})" + proj,
                  dump_ints([3, 0, 1, 2])),
                 ("sort-leaf", f"[{hi}, {A}, {B}, {lo}].sort().to_array() == [{lo}, {A}, {B}, {hi}]", T),
                 ("max", f"max(({A}, 1), ({B}, 0))::item1", "(int S 1)"), ("min", f"min(({A}, 1), ({B}, 0))::item1", "(int S 0)"),
                 ("nth_smallest", f"[({A}, 1), ({B}, 0), ({lo}, 5)].nth_smallest(1)::item1", "(int S 0)")]
            if hashable:
                c += [("hash", f"hash({A}) == hash({B})", T), ("tuple-hash", f"hash(({A}, 1)) == hash(({B}, 1))", T),
                      ("seq-hash", f"hash([{A}]) == hash([{B}])", T), ("opt-hash", f"hash(some({A})) == hash(some({B}))", T),
                      ("distinct", f"[{A}, {B}, {A}].to_generator().distinct().len()", "(int S 1)"),
                      ("set", f"set<{ty}>().update([{A}, {B}]).len()", "(int S 1)"),
                      ("set-contains", f"set<{ty}>().update([{A}]).contains({B})", T),
                      ("mapping-keys", f"mapping<{ty}>().set({A}, 1).set({B}, 2).len()", "(int S 1)")]
            cases += [(ty, op, expr, want) for op, expr, want in c]
    dumps = eval_exprs([c[2] for c in cases])
    for (ty, op, expr, want), d in zip(cases, dumps):
        chk.evaluations += 1
        chk.count("equiv:" + op)
        chk.count("equiv:type:" + ty)
        if d != want:
            kind = "panic" if d.startswith("panic") else ("compile" if d.startswith("compile-err") else "wrong")
            chk.violation(f"lang:equiv:{op}:{kind}",
                          f"equal values of different representation must be treated alike: {expr[:300]} evaluates to {d[:160]}; expected {want[:100]}",
                          {"src": f"let r = {expr};", "get": ["r"], "expected": want, "got": d})
        else:
            chk.nontrivial.add(("equiv", op, expr))
    chk.sample({"lang": cases[2][2], "expected": cases[2][3]})


# ------------------------------------------------------------------ comparators that fail on a PAIR of values
def _eval_with_out(exprs, chunk=40):
    """like eval_exprs, but with the print permission and the captured output: returns (dump, set of indices whose
    comparator `display`ed its HIT tag).  Every expression carries its own index in the tag."""
    res, hits = [None] * len(exprs), set()
    batches = [list(range(i, min(i + chunk, len(exprs)))) for i in range(0, len(exprs), chunk)]

    def mk(idx):
        return {"op": "run", "src": "".join(f"let r{j} = {exprs[j]};\n" for j in idx), "get": [f"r{j}" for j in idx],
                "limits": {"allow": ["print"]}}

    def take(idx, r):
        f = _resp_fail_local(r)
        if f is not None:
            return False
        for j in idx:
            res[j] = r["vals"][f"r{j}"]
        for line in r.get("out", "").splitlines():
            if line.startswith("HIT"):
                hits.add(int(line[3:]))
        return True

    singles = []
    for b, r in zip(batches, run_harness([mk(b) for b in batches], per_req_timeout=60.0)):
        if not take(b, r):
            singles += b
    for j, r in zip(singles, run_harness([mk([j]) for j in singles], per_req_timeout=60.0)):
        if not take([j], r):
            res[j] = _resp_fail_local(r)
    return res, hits


def pairfail_cases(chk, quick):
    """a user comparator that answers an error value for one unordered PAIR {a, b} of the array's values (and the
    plain order otherwise), through every sorting / selecting library function.  Oracles: (1) the model — the
    `sorted` pre-pass + try_sort, quickselect, the heap — predicts exactly whether that pair is ever compared;
    (2) model-free: the comparator `display`s a tag when it is asked about the pair; if it was asked, the result
    must be that error, if it was not, the result must be the normal one."""
    rng = chk.rng
    arrays = [[1, 5, 3], [1, 2, 3, 4], [4, 3, 2, 1], [1, 2, 3, 5, 4], [2, 1, 3, 4, 5], [1, 3, 5, 7, 2], [3, 3, 1, 2]]
    for _ in range(3 if quick else 40):
        n = rng.choice([2, 3, 5, 6, 8])
        base = sorted(rng.sample(range(20), n))
        style = rng.choice(["sorted", "nearly", "prefix", "reversed", "random"])
        if style == "nearly" and n >= 2:
            i = rng.randrange(n - 1); base[i], base[i + 1] = base[i + 1], base[i]
        elif style == "prefix":
            base.append(rng.choice(base[:-1]) - 0 if n < 2 else base.pop(rng.randrange(n - 1)))
        elif style == "reversed":
            base.reverse()
        elif style == "random":
            rng.shuffle(base)
        arrays.append(base)
    exprs, meta = [], []

    def add(fn, xs, a, b, k, tmpl, normal, mline):
        idx = len(exprs)
        cond = f"(x == {a} && y == {b}) || (x == {b} && y == {a})"
        f = f"(x: int, y: int)->{{if({cond}, if(display({idx}, 'HIT') == {idx}, error('pair'), error('pair')), cmp(x, y))}}"
        lt = f"(x: int, y: int)->{{if({cond}, if(display({idx}, 'HIT') == {idx}, error('pair'), error('pair')), x < y)}}"
        exprs.append(tmpl.format(L=xs_lit(xs), f=f, lt=lt, k=k))
        meta.append((fn, xs, a, b, k, normal, mline))

    for xs in arrays:
        n = len(xs)
        vals = sorted(set(xs))
        pairs = [(a, b) for i, a in enumerate(vals) for b in vals[i + 1:]]
        if quick and len(pairs) > 10:
            pairs = rng.sample(pairs, 10)
        for a, b in pairs + [(-7, -8)]:   # the last pair never occurs: the comparator never fails
            k = rng.randrange(n)
            m = lambda fn, kk=0: f"ord pairfail {fn} {kk} {a} {b} {show(xs)}"
            add("sort", xs, a, b, 0, "{L}.sort({f}).to_array()", dump_ints(sorted(xs)), m("sort"))
            add("sort_reverse", xs, a, b, 0, "{L}.sort_reverse({f}).to_array()", dump_ints(sorted(xs, reverse=True)), m("sort_reverse"))
            add("nth_smallest", xs, a, b, k, "{L}.nth_smallest({k}, {f})", f"(int S {sorted(xs)[k]})", m("nth_smallest", k))
            add("nth_largest", xs, a, b, k, "{L}.nth_largest({k}, {f})", f"(int S {sorted(xs, reverse=True)[k]})", m("nth_largest", k))
            add("median", xs, a, b, 0, "{L}.median({f})", f"(int S {sorted(xs)[n // 2]})", m("median"))
            add("n_smallest", xs, a, b, k, "{L}.n_smallest({k}, {f}).to_array()", dump_ints(sorted(xs)[:k]), m("n_smallest", k))
            add("n_largest", xs, a, b, k, "{L}.n_largest({k}, {f}).to_array()", dump_ints(sorted(xs, reverse=True)[:k]), m("n_largest", k))
            add("max-lt", xs, a, b, 0, "max({L}, {lt})", f"(int S {max(xs)})", None)
            add("min-lt", xs, a, b, 0, "min({L}, {lt})", f"(int S {min(xs)})", None)
            add("rank_eq", xs, a, b, k, "{L}.rank_eq(" + str(xs[k]) + ", {f})", None, None)
            add("rank_avg", xs, a, b, k, "{L}.rank_avg(" + str(xs[k]) + ", {f})", None, None)
    dumps, hits = _eval_with_out(exprs)
    mi = [i for i, mm in enumerate(meta) if mm[6]]
    mres = dict(zip(mi, run_model([meta[i][6] for i in mi])))
    for i, ((fn, xs, a, b, k, normal, mline), expr, d) in enumerate(zip(meta, exprs, dumps)):
        chk.evaluations += 1
        chk.count("pairfail:" + fn)
        is_pair_err = d.startswith("(error ") and "pair" in d
        asked = i in hits
        replay = {"src": f"let r = {expr};", "get": ["r"], "limits": {"allow": ["print"]}, "got": d}
        chk.count("pairfail:asked" if asked else "pairfail:not-asked")
        if d.startswith("panic") or d.startswith("viol") or d.startswith("abort") or d == "hang":
            chk.violation(f"lang:pairfail:{fn}:panic", f"{expr[:240]} → {d[:120]}", replay)
            continue
        if asked and not is_pair_err:
            chk.violation(f"lang:pairfail:{fn}:failure-swallowed",
                          f"the comparator was asked about the pair ({a}, {b}) and answered an error value, but {fn} of {xs} returned {d[:120]} instead of that error",
                          replay)
            continue
        if not asked and is_pair_err:
            chk.violation(f"lang:pairfail:{fn}:spurious-failure", f"{fn} of {xs} answers the pair error although the comparator was never asked about ({a}, {b})", replay)
            continue
        if not asked and normal is not None and d != normal:
            chk.violation(f"lang:pairfail:{fn}:wrong", f"{fn} of {xs} (comparator never asked about the failing pair) = {d[:120]}; expected {normal[:120]}", replay)
            continue
        chk.nontrivial.add(("pairfail", fn, tuple(xs), a, b, k))
        if i in mres:
            want = "fail" if is_pair_err else ("ok " + (d[7:-1] if d.startswith("(int S ") else show([int(t.rstrip(")")) for t in d.split() if t.rstrip(")").lstrip("-").isdigit()])))
            if mres[i] != want:
                chk.violation(f"tie:pairfail:{fn}", f"model and implementation disagree on whether / how {fn} of {xs} meets the failing pair ({a}, {b}): model={mres[i][:100]} impl={d[:100]}",
                              {"src": replay["src"], "model": mline}, no_input=True)
    chk.sample({"lang": exprs[0][:300], "law": "comparator asked about the pair <=> the result is that error"})
    # the violation variant: a comparator that exhausts the user-call limit midway stays a violation
    vreqs = []
    for xs in ([1, 2, 3, 5, 4], [4, 3, 2, 1, 6, 5], [1, 2, 3, 4, 5, 6]):
        for tmpl in ("{L}.sort({f}).to_array()", "{L}.sort_reverse({f}).to_array()", "{L}.nth_smallest(2, {f})", "{L}.median({f})",
                     "{L}.n_largest(2, {f}).to_array()", "{L}.n_smallest(2, {f}).to_array()", "{L}.rank_eq(3, {f})"):
            for lim in (1, 2, 3):
                src = "let r = " + tmpl.format(L=xs_lit(xs), f="(x: int, y: int)->{cmp(x, y)}") + ";"
                vreqs.append({"op": "run", "src": src, "get": ["r"], "limits": {"ud_calls": lim}})
    for req, r in zip(vreqs, run_harness(vreqs)):
        chk.evaluations += 1
        chk.count("pairfail:violation-variant")
        if not (isinstance(r.get("inst"), dict) and r["inst"].get("viol") == "MaximumUDCall"):
            chk.violation("lang:pairfail:violation-swallowed", f"a comparator exhausting the user-call limit ({req['limits']['ud_calls']}) must end in the MaximumUDCall violation: "
                          f"{req['src'][:200]} → {json.dumps(r)[:200]}", req)


def _resp_fail_local(r):
    if "panic" in r:
        return "panic " + r["panic"]
    if "abort" in r or "hang" in r:
        return "abort/hang"
    if r.get("compile") != "ok":
        return "compile-err " + json.dumps(r.get("compile"))[:300]
    if r.get("inst") != "ok":
        return "viol " + str(r["inst"])
    return None


def regression_cases(chk):
    """the witnesses of the defects repaired by `fix:` commits, replayed on every run"""
    wit = [("sort-run-detection", "range(30).map((x:int)->{x*7%11}).sort().to_array()", dump_ints(sorted(x * 7 % 11 for x in range(30)))),
           ("format-str-zero-pad", 'is_error(format("ab", "05"))', "(bool true)"),
           ("format-float-empty", 'format(1.5, "")', '(str "1.5")'),
           # 9e13c00 (agent-c01): a comparator that calls everything smaller used to index out of bounds
           ("quickselect-inconsistent-cmp", "[3, 1, 2].median((a: int, b: int)->{-1}) > 0", "(bool true)")]
    for (k, expr, want), d in zip(wit, eval_exprs([w[1] for w in wit])):
        chk.evaluations += 1
        chk.count("regression:" + k)
        if d != want:
            chk.violation(f"regression:{k}", f"{expr} evaluates to {d[:200]}; expected {want[:200]} (a repaired defect is back)",
                          {"src": f"let r = {expr};", "get": ["r"]})


def miri_support(chk, cap_s=600):
    """SUPPORTING evidence only (DESIGN §3), thorough tier: the interpreter's `unsafe` modules
    (util/trysort.rs, util/try_heap.rs — the source files themselves, compiled into the dependency-free
    crate harness/miri_ord) run under Miri on arrays of Rc-managed elements with the comparator failing at
    every comparison index.  Undefined behaviour, a leak or a failed conservation assertion is a violation
    (replay = the op announced last); an unavailable Miri, a build problem or the time cap is only recorded."""
    info = {"role": "supporting evidence only — the decision is the proofs + the correspondence check",
            "what": "cargo +nightly miri run of harness/miri_ord: try_sort (insertion path, lengths 0-8; merge path, lengths 21 and 24) "
                    "and TryHeap push/pop/drain (lengths 0-6) over Rc elements, comparator failing (error / violation) at every k"}
    chk.coverage["supporting"] = info
    rc, ver = sh(["cargo", "+nightly", "miri", "--version"])
    if rc != 0:
        info["status"] = "not run: `cargo +nightly miri` is not available: " + ver.strip()[-200:]
        return
    info["miri_version"] = ver.strip().splitlines()[-1]
    env = dict(os.environ)
    env.update({"CARGO_NET_OFFLINE": "true", "CARGO_TARGET_DIR": os.path.join(BUILD, "miri"), "XRAY_REPO": REPO,
                "MIRIFLAGS": "-Zmiri-disable-isolation"})
    t0 = time.time()
    try:
        p = subprocess.run(["cargo", "+nightly", "miri", "run"], cwd=os.path.join(HARNESS_DIR, "miri_ord"), env=env,
                           stdout=subprocess.PIPE, stderr=subprocess.PIPE, text=True, errors="replace", timeout=cap_s)
    except subprocess.TimeoutExpired as e:
        out = e.stdout or ""
        out = out.decode("utf-8", "replace") if isinstance(out, bytes) else out
        info["status"] = f"time cap of {cap_s} s reached (machine load); {out.count('OP ')} op sequences had run without a report"
        return
    info["wall_s"] = round(time.time() - t0, 1)
    ops = [l for l in p.stdout.splitlines() if l.startswith("OP ")]
    info["op_sequences"] = len(ops)
    done = [l for l in p.stdout.splitlines() if l.startswith("DONE ")]
    if p.returncode == 0 and done:
        info["status"] = "ok: no undefined behaviour, no leak, every object conserved (" + done[-1] + ")"
        chk.count("miri:op-sequences", len(ops))
        return
    err = p.stderr[-3000:]
    last = ops[-1] if ops else "(none)"
    if "Undefined Behavior" in p.stderr or "memory leaked" in p.stderr or "panicked at" in p.stderr:
        kind = "ub" if "Undefined Behavior" in p.stderr else ("leak" if "memory leaked" in p.stderr else "conservation")
        info["status"] = f"{kind} reported"
        chk.violation(f"miri:{kind}", f"Miri reports {kind} in the unsafe sort/heap code during: {last[:300]} — {err[-600:]}",
                      {"miri_op": last, "cmd": "cd harness/miri_ord && cargo +nightly miri run", "stderr": err})
    else:
        info["status"] = "not run to completion (build or toolchain problem, no verdict): " + err[-400:]


def run(chk):
    quick = chk.tier == "quick"
    chk.trusted += [
        "Python's sorted() (stable) and tuple/list comparison as the independent oracle",
        "memory safety of the unsafe blocks in trysort.rs / try_heap.rs is not proved: the model is their functional reading, "
        "tied by comparing final buffers, buffers left behind by failures, comparison counts and object identity/refcounts",
        "SipHash (DefaultHasher), f64 formatting and Unicode tables are parameters of the theorems",
    ]
    ok = chk.prove()
    if not ok:
        handle_broken(chk)
    sort_cases(chk, quick)
    lang_sort_cases(chk, quick)
    accounting_cases(chk, quick)
    heap_cases(chk, quick)
    select_cases(chk, quick)
    pairfail_cases(chk, quick)
    derive_cases(chk, quick)
    user_cmp_cases(chk, quick)
    equiv_cases(chk, quick)
    format_cases(chk, quick)
    regression_cases(chk)
    if not quick:
        miri_support(chk)
    return chk.finish(rule="sequences of length 0-40 (quick) / 0-200+ (thorough) over 9 key patterns (random, few keys, ascending, strictly descending, "
                           "sawtooth, concatenated runs, plateaus, organ pipe, all equal) sorted by key with the comparator failing at every comparison index k; "
                           "non-trivial = distinct (list, k) where the list has ties and more than 20 elements, or a failure was injected")
