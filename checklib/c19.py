"""C19 — Derived equality, hash, order and text are coherent; sorting is right.
Proofs: lean/Props/C19.lean over lean/XrayModel/{Sort,Derive,Format}.lean.
Tie: (1) unit level through the hook wrappers — try_sort / TryHeap with comparators that are total
orders, preorders with many ties, or fail (error value / violation) at the k-th comparison for every k;
the final buffer, the buffer left behind by a failure and the number of comparisons are compared with
the compiled Lean model; object conservation is checked by pointer identity; (2) through the language —
sort / n_largest / n_smallest / nth_* / median, the derived eq/ne/lt/le/gt/ge/cmp/min/max/hash/to_str
on generated nested values, format on ints/strs/floats; accounted bytes after a failed sort.
Oracle: plain Python (sorted() is stable; tuples/lists compare lexicographically)."""
import functools
from .common import *

ERR = "ERR"


def show(l):
    return ",".join(map(str, l)) if l else "-"


def parse_list(s):
    return [] if s == "-" else [int(x) for x in s.split(",")]


# ------------------------------------------------------------------ generators
def gen_keys(rng, n):
    """key sequences that exercise run detection (ascending / strictly descending runs, plateaus),
    the MIN_RUN extension and merges in both directions"""
    style = rng.choice(["rand", "fewkeys", "asc", "desc", "saw", "runs", "plateau", "organ", "allsame"])
    if style == "rand":
        return [rng.randrange(0, 50) for _ in range(n)]
    if style == "fewkeys":
        m = rng.choice([2, 3, 5])
        return [rng.randrange(0, m) for _ in range(n)]
    if style == "asc":
        return sorted(rng.randrange(0, 30) for _ in range(n))
    if style == "desc":
        return sorted((rng.randrange(0, 30) for _ in range(n)), reverse=True)
    if style == "saw":
        p = rng.choice([2, 3, 7, 11, 13])
        m = rng.choice([5, 7, 11, 17])
        return [(i * p) % m for i in range(n)]
    if style == "runs":
        out = []
        while len(out) < n:
            ln = rng.choice([1, 2, 3, 5, 9, 10, 11, 15, 25])
            base = rng.randrange(0, 40)
            step = rng.choice([-2, -1, 0, 1, 2])
            out += [base + step * i for i in range(ln)]
        return out[:n]
    if style == "plateau":
        out = []
        while len(out) < n:
            out += [rng.randrange(0, 6)] * rng.choice([1, 2, 4, 8, 12])
        return out[:n]
    if style == "organ":
        h = n // 2
        return list(range(h)) + list(range(n - h, 0, -1))
    return [7] * n


def gen_list(rng, n):
    """distinct elements key*1000+index: comparing by x // 1000 makes stability observable"""
    return [k * 1000 + i for i, k in enumerate(gen_keys(rng, n))]


# ------------------------------------------------------------------ unit level: try_sort
def sort_cases(chk, quick):
    rng = chk.rng
    lens = list(range(0, 41)) + [rng.randrange(41, 61) for _ in range(6)] if quick else \
        list(range(0, 201)) + [rng.randrange(200, 400) for _ in range(10)]
    lists = []
    for n in lens:
        for _ in range(2 if quick else 3):
            lists.append(gen_list(rng, n))
    base = []
    for xs in lists:
        d = rng.choice([1000, 1000, 1, 3000])
        base.append((xs, d))
    reqs = [{"op": "ord", "f": "sort", "d": d, "k": -1, "xs": xs} for xs, d in base]
    lines = [f"ord sort {d} -1 {show(xs)}" for xs, d in base]
    impl = run_harness(reqs)
    model = run_model(lines)
    fail_reqs, fail_lines, fail_meta = [], [], []
    for (xs, d), req, line, ri, rm in zip(base, reqs, lines, impl, model):
        chk.evaluations += 1
        chk.count("unit:sort:ok")
        chk.count(f"unit:sort:len{'<=20' if len(xs) <= 20 else '>20'}")
        got = "PANIC " + ri["panic"] if "panic" in ri else ri.get("r", json.dumps(ri))
        want = sorted(xs, key=lambda x: x // d)
        parts = got.split(" ")
        if parts[0] != "ok" or parse_list(parts[1]) != want:
            kind = "panic" if got.startswith("PANIC") else ("unsorted" if sorted(parse_list(parts[1])) == sorted(xs) else "lost-elements")
            chk.violation(f"unit:sort:{kind}", f"try_sort of {len(xs)} elements by key x//{d} gives {got[:200]}; the stable sort is {show(want)[:200]}",
                          {"harness": req, "expected": "ok " + show(want)})
            continue
        if not ri.get("conserved"):
            chk.violation("unit:sort:conservation", "after try_sort the buffer does not hold each input object exactly once", {"harness": req})
        if rm != got:
            chk.violation("tie:unit:sort", f"model disagrees with the implementation (which sorts correctly): model={rm[:160]} impl={got[:160]}",
                          {"harness": req, "model": line, "impl": got, "model_out": rm}, no_input=True)
        if len(set(x // d for x in xs)) < len(xs) and len(xs) > 20:
            chk.nontrivial.add(("sort", tuple(xs), d))
        ncmp = int(parts[2])
        ks = list(range(ncmp)) if (len(xs) <= 40 or not quick) and ncmp <= 2500 else sorted(rng.sample(range(ncmp), 40))
        if not quick and len(xs) > 60:
            ks = sorted(set(rng.sample(range(ncmp), min(ncmp, 60)) + [0, ncmp - 1]))
        for k in ks:
            kind = "violation" if (k + len(xs)) % 3 == 0 else "error"
            fail_reqs.append({"op": "ord", "f": "sort", "d": d, "k": k, "kind": kind, "xs": xs})
            fail_lines.append(f"ord sort {d} {k} {show(xs)}")
            fail_meta.append((xs, d, k, kind))
        # one k beyond the end: must not fail
        fail_reqs.append({"op": "ord", "f": "sort", "d": d, "k": ncmp, "kind": "error", "xs": xs})
        fail_lines.append(f"ord sort {d} {ncmp} {show(xs)}")
        fail_meta.append((xs, d, ncmp, "beyond"))
    impl = run_harness(fail_reqs)
    model = run_model(fail_lines)
    for (xs, d, k, kind), req, line, ri, rm in zip(fail_meta, fail_reqs, fail_lines, impl, model):
        chk.evaluations += 1
        chk.count("unit:sort:fail-at-k")
        got = "PANIC " + ri["panic"] if "panic" in ri else ri.get("r", json.dumps(ri))
        parts = got.split(" ")
        if kind == "beyond":
            if parts[0] != "ok" or parse_list(parts[1]) != sorted(xs, key=lambda x: x // d):
                chk.violation("unit:sort:spurious-failure", f"comparator failing only at comparison {k} (never reached) changed the result: {got[:160]}", {"harness": req})
            elif rm != got:
                chk.violation("tie:unit:sort", f"model/impl differ: model={rm[:160]} impl={got[:160]}", {"harness": req, "model": line}, no_input=True)
            continue
        tagw = "V" if kind == "violation" else "E"
        ok = (parts[0] == "fail" and parts[1] == tagw and int(parts[3]) == k + 1
              and sorted(parse_list(parts[2])) == sorted(xs) and ri.get("conserved"))
        if not ok:
            what = "panic" if got.startswith("PANIC") else ("swallowed" if parts[0] == "ok" else "lost-or-duplicated")
            chk.violation(f"unit:sort:fail:{what}", f"comparator failing ({kind}) at comparison {k} while sorting {len(xs)} elements: {got[:200]} conserved={ri.get('conserved')}",
                          {"harness": req})
            continue
        chk.nontrivial.add(("sortfail", len(xs), k, tuple(xs[:5])))
        if rm.replace("fail E ", f"fail {tagw} ", 1) != got:
            chk.violation("tie:unit:sort:fail", f"buffer left behind by a failing comparator differs: model={rm[:200]} impl={got[:200]}",
                          {"harness": req, "model": line, "impl": got, "model_out": rm}, no_input=True)
    if fail_reqs:
        chk.sample({"unit": {k: v for k, v in fail_reqs[len(fail_reqs) // 2].items()}, "expected": "fail, buffer a permutation, k+1 comparisons"})


# ------------------------------------------------------------------ language level: sorting
def xs_lit(xs):
    return "[" + ", ".join(lit(x) for x in xs) + "]" if xs else "[].map((x:int)->{x})"


def dump_ints(l):
    return "(seq" + "".join(f" (int S {x})" for x in l) + ")"


def lang_sort_cases(chk, quick):
    rng = chk.rng
    cases = []  # (key, expr, expected dump or predicate)
    n_lists = 60 if quick else 600
    for _ in range(n_lists):
        n = rng.choice([0, 1, 2, 3, 5, 8, 13, 19, 20, 21, 22, 25, 30, 33, 40, 64])
        xs = gen_list(rng, n)
        L = xs_lit(xs)
        keyf = "(a: int, b: int)->{cmp(div_floor(a, 1000), div_floor(b, 1000))}"
        by_key = sorted(xs, key=lambda x: x // 1000)
        cases.append(("sort", f"{L}.sort().to_array()", dump_ints(sorted(xs))))
        cases.append(("sort-cmp", f"{L}.sort({keyf}).to_array()", dump_ints(by_key)))
        cases.append(("sort_reverse", f"{L}.sort_reverse({keyf}).to_array()", dump_ints(sorted(xs, key=lambda x: -(x // 1000)))))
        k = rng.choice([0, 1, 2, 3, n // 2, n, n + 3])
        cases.append(("n_smallest", f"{L}.n_smallest({k})", dump_ints(sorted(xs)[:k])))
        cases.append(("n_largest", f"{L}.n_largest({k})", dump_ints(sorted(xs, reverse=True)[:k])))
        if n:
            i = rng.randrange(0, n)
            cases.append(("nth_smallest", f"{L}.nth_smallest({i})", f"(int S {sorted(xs)[i]})"))
            cases.append(("nth_largest", f"{L}.nth_largest({i})", f"(int S {sorted(xs, reverse=True)[i]})"))
            cases.append(("median", f"{L}.median()", f"(int S {sorted(xs)[n // 2]})"))
            # with ties only the key of the selected element is determined
            cases.append(("nth_smallest-key", f"div_floor({L}.nth_smallest({i}, {keyf}), 1000)", f"(int S {by_key[i] // 1000})"))
        else:
            cases.append(("median-empty", f"{L}.median()", ERR))
        cases.append(("nth-oob", f"{L}.nth_smallest({n})", ERR))
        # failing comparator: error on one particular pair
        if n >= 2:
            a, b = rng.sample(xs, 2)
            failf = f"(a: int, b: int)->{{if(a == {a} && b == {b}, error('boom'), cmp(a, b))}}"
            cases.append(("sort-failing-cmp", f"{L}.sort({failf}).to_array()", ("ERR-or", dump_ints(sorted(xs)))))
    dumps = eval_exprs([c[1] for c in cases])
    for (key, expr, want), d in zip(cases, dumps):
        chk.evaluations += 1
        chk.count("lang:" + key)
        got = ERR if d.startswith("(error ") else d
        replay = {"src": f"let r = {expr};", "get": ["r"], "expected": want, "got": d}
        if isinstance(want, tuple):
            if got != ERR and got != want[1]:
                chk.violation(f"lang:{key}:wrong", f"{expr[:300]} = {d[:200]}: neither the comparator's error nor the sorted sequence", replay)
            else:
                chk.count("lang:sort-failing-cmp:" + ("error" if got == ERR else "not-reached"))
            continue
        if got != want:
            kind = "panic" if d.startswith("panic") else ("hang" if d == "hang" else "wrong")
            chk.violation(f"lang:{key}:{kind}", f"{expr[:300]} evaluates to {d[:200]}; expected {str(want)[:200]}", replay)
    chk.sample({"lang": cases[1][1][:200], "expected": cases[1][2][:200]})


def accounting_cases(chk, quick):
    """accounted bytes return to the baseline after a sort whose comparator fails midway"""
    rng = chk.rng
    reqs, meta = [], []
    for _ in range(12 if quick else 120):
        n = rng.choice([5, 12, 21, 30, 45])
        xs = gen_list(rng, n)
        a, b = rng.sample(xs, 2)
        failf = f"(a: int, b: int)->{{if(a == {a} && b == {b}, error('boom'), cmp(a, b))}}"
        src = f"fn f()->bool {{ is_error({xs_lit(xs)}.map((x: int)->{{x * 1000000007 * 1000000007}}).to_array().sort((a: int, b: int)->{{if(a == {a}*1000000007*1000000007 && b == {b}*1000000007*1000000007, error('boom'), cmp(a, b))}})) }}\n"
        reqs.append({"op": "run", "src": src, "get": [], "calls": ["f", "f"], "limits": {"size": 10_000_000}})
        meta.append(src)
    resps = run_harness(reqs)
    for src, r in zip(meta, resps):
        chk.evaluations += 1
        chk.count("lang:accounting")
        if _resp_fail_local(r):
            chk.violation("lang:accounting:run", f"program did not run: {_resp_fail_local(r)}", {"src": src})
            continue
        if r["size2"] != r["size0"] or r["size_live"] != r["size1"]:
            chk.violation("lang:accounting:leak", f"accounted bytes do not return to the baseline after a sort with a failing comparator: "
                          f"size0={r['size0']} size1={r['size1']} live={r['size_live']} size2={r['size2']}", {"src": src, "calls": ["f", "f"], "limits": {"size": 10_000_000}})
        chk.count("lang:accounting:failed-sort" if r["calls"][0] == "(bool true)" else "lang:accounting:sort-finished")


def _resp_fail_local(r):
    if "panic" in r:
        return "panic " + r["panic"]
    if "abort" in r or "hang" in r:
        return "abort/hang"
    if r.get("compile") != "ok":
        return "compile-err " + json.dumps(r.get("compile"))[:300]
    if r.get("inst") != "ok":
        return "viol " + str(r["inst"])
    return None


def run(chk):
    quick = chk.tier == "quick"
    chk.trusted += [
        "Python's sorted() (stable) and tuple/list comparison as the independent oracle",
        "memory safety of the unsafe blocks in trysort.rs / try_heap.rs is not proved: the model is their functional reading, "
        "tied by comparing final buffers, buffers left behind by failures, comparison counts and object identity/refcounts",
        "SipHash (DefaultHasher), f64 formatting and Unicode tables are parameters of the theorems",
    ]
    ok = chk.prove()
    if not ok:
        handle_broken(chk)
    sort_cases(chk, quick)
    lang_sort_cases(chk, quick)
    accounting_cases(chk, quick)
    return chk.finish(rule="sequences of length 0-40 (quick) / 0-200+ (thorough) over 9 key patterns (random, few keys, ascending, strictly descending, "
                           "sawtooth, concatenated runs, plateaus, organ pipe, all equal) sorted by key with the comparator failing at every comparison index k; "
                           "non-trivial = distinct (list, k) where the list has ties and more than 20 elements, or a failure was injected")
