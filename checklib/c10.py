"""C10 — Limits bound all work: no unbounded native loop.
Proofs: lean/Props/C10.lean (step counts of the generator machine of XrayModel/Gen.lean; the time gate of
XrayModel/GenLimits.lean).
Tie: (A) the model's permit accounting against the implementation: generator pipelines under tiny search
limits must end the same way (same value / error / violation) in both; (B) adversarial programs (infinite
and huge sources, native never-true predicates, huge counts, numeric builtins, searching builtins) under
finite search / call / size / time limits, each in a watched child: a hang (or a panic) is the failing
observation, the wall-clock time is recorded; (C) the order of the checks at the beginning of a user call
(error argument, call limit, time limit) against the gate model; (E) checklib/c10_adv.py: every library function with numeric
parameters (from the signature hook) with boundary values in every position under finite limits: it must answer."""
from .common import *
from . import c16
sys.set_int_max_str_digits(0)

LIMITS = {"search": 1000, "ud_calls": 5000, "size": 50_000_000, "time_ms": 3000, "depth": 2000, "recursion": 100000}
WATCHDOG = 90.0   # generous: the machine may be loaded; a real hang never answers


QUICK_ANSWER = 30.0   # an adversarial program under LIMITS answers within seconds; a request silent for this long is
                      # killed and re-run once alone under the full WATCHDOG before it counts as a hang


def _watched_worker(reqs, idxs, out, timeout):
    """one harness child fed one request at a time; a request that does not answer within `timeout` kills the
    child (answer {"hang": true}), a dead child answers {"abort": ..}; the child is restarted for the next one"""
    import select
    proc = None

    def start():
        return subprocess.Popen([HARNESS_BIN], stdin=subprocess.PIPE, stdout=subprocess.PIPE, stderr=subprocess.DEVNULL, bufsize=0)
    for i in idxs:
        if proc is None or proc.poll() is not None:
            proc = start()
        try:
            proc.stdin.write((json.dumps(reqs[i]) + "\n").encode())
            proc.stdin.flush()
        except Exception:
            out[i] = {"abort": "stdin closed"}
            proc = None
            continue
        buf = b""
        deadline = time.time() + timeout
        res = None
        while True:
            left = deadline - time.time()
            if left <= 0:
                res = {"hang": True}
                break
            r, _, _ = select.select([proc.stdout], [], [], left)
            if not r:
                continue
            chunk = os.read(proc.stdout.fileno(), 1 << 16)
            if not chunk:
                res = {"abort": f"rc={proc.poll()}"}
                break
            buf += chunk
            if b"\n" in buf:
                line = buf.split(b"\n")[0]
                try:
                    res = json.loads(line.decode("utf-8", "replace"))
                except Exception:
                    res = {"abort": "unparsable answer"}
                break
        if "hang" in res or "abort" in res:
            try:
                proc.kill()
                proc.wait(timeout=5)
            except Exception:
                pass
            proc = None
        out[i] = res
    if proc is not None:
        try:
            proc.stdin.close()
            proc.wait(timeout=5)
        except Exception:
            proc.kill()


def run_watched(reqs, timeout, jobs=None):
    """like common.run_harness, but every single request has its own deadline, so a hanging program costs
    `timeout` seconds, not the budget of a whole batch"""
    jobs = jobs or JOBS
    out = [None] * len(reqs)
    k = max(1, min(jobs, len(reqs)))
    parts = [list(range(j, len(reqs), k)) for j in range(k)]
    with ThreadPoolExecutor(max_workers=k) as ex:
        list(ex.map(lambda idxs: _watched_worker(reqs, idxs, out, timeout), parts))
    return out


def run_timed(srcs, limits, timeout=WATCHDOG):
    reqs = [{"op": "gen", "f": "timed_run", "src": s, "get": ["a"], "limits": limits} for s in srcs]
    res = run_watched(reqs, QUICK_ANSWER)
    again = [i for i, r in enumerate(res) if "hang" in r]
    if again:
        # silent for QUICK_ANSWER seconds: once more, alone (two at a time), with the full watchdog
        res2 = run_watched([reqs[i] for i in again], timeout, jobs=2)
        for i, r in zip(again, res2):
            res[i] = r
    return res


def outcome(r):
    f = c16._fail(r)
    if f is not None:
        return f
    return r["vals"].get("a", "?")


# ---------------------------------------------------------------------------------- adversarial programs
NEVER = ["[true].to_generator().repeat().filter(not)", "[true].to_generator().repeat().skip_until(not)",
         "count().to_generator().filter((x:int)->{x < 0})", "count().to_generator().skip_until((x:int)->{x < 0})",
         "[1].to_generator().take(0).repeat()", "[1].to_generator().filter((x:int)->{x > 1}).repeat()",
         "[1].to_generator().repeat().distinct().skip(1)"]
INFINITE = ["count().to_generator()", "count(3, 2).to_generator()", "successors(1, (x:int)->{x * 2})",
            "[1, 2].to_generator().repeat()", "[1].to_generator().repeat().repeat()",
            "count().to_generator().map((x:int)->{x + 1})", "count().to_generator().aggregate(0, (a:int, b:int)->{a + b})",
            "count().to_generator().zip(count().to_generator()).map((t:(int,int))->{t::item0})",
            "count().to_generator().add(count().to_generator())", "[1].to_generator().add(count().to_generator())",
            "count().to_generator().windows(3).map((s:Sequence<int>)->{s.len()})",
            "count().to_generator().take_while((x:int)->{x >= 0})", "count().to_generator().enumerate().map((t:(int,int))->{t::item0})",
            "[1].to_generator().repeat().group((a:int, b:int)->{a == b}).map((s:Sequence<int>)->{s.len()})",
            "count().to_generator().product(count().to_generator()).map((t:(int,int))->{t::item1})"]
HUGE = ["10**15", "10**9", "2**70", "2**62"]
CONSUMERS = ["{g}.take(1).to_array()", "{g}.to_array()", "{g}.len()", "{g}.last()", "{g}.get({n})", "{g}.skip({n}).take(1).to_array()",
             "{g}.nth({n}, (x:int)->{{x >= 0}})", "{g}.nth(0, (x:int)->{{x < 0}})", "{g}.windows({n}).take(1).to_array()",
             "{g}.chunks({n}).take(1).to_array()", "{g}.repeat({n}).take(1).to_array()", "{g}.sum()",
             "{g}.reduce((a:int, b:int)->{{a + b}})", "{g}.map(to_str{{int}}).join(',')", "{g}.with_count().last()",
             "{g}.distinct().len()", "{g}.any((x:int)->{{x < 0}})", "{g}.all((x:int)->{{x >= 0}})", "{g}.contains(-1)",
             "{g}.count((x:int)->{{x < 0}})", "{g}.max()", "{g}.mean()", "{g}.take({n}).len()", "{g}.take({n}).last()",
             "{g}.map((x:int)->{{[x].to_generator()}}).flatten().take(1).to_array()"]
FIXED = [
    "count().nth(0, (x:int)->{x < 0})", "count().map((x:int)->{x}).take(10**9).to_array()", "range(10**15).to_array()",
    "range(10**12).sum()", "count().take(10**15).len()", "count().take(10**9).to_generator().len()",
    "binom(10**6, 5*10**5)", "binom(2**70, 2**69)", "factorial(10**5)", "2**(2**20)", "digits(10**1000, 2).len()",
    "digits(10**1000, 1).len()", "digits(5, 0).len()", "multinom([10**5, 10**5])", "multinom([2**64, 2**64])",
    "count().take(10**7).sort().len()", "('a' * 10**12).len()", "count().take(10**9).to_array().len()",
    "count().filter((x:int)->{x < 0}).take(1).to_array()", "count().take(10**9).map((x:int)->{x}).sum()",
    "range(10**9).to_generator().skip(10**9 - 1).to_array()", "gcd(2**4000 + 1, 3**2500)", "lcm(2**4000 + 1, 3**2500).bit_length()",
    "count().to_generator().take(10**9).to_array().len()", "count().skip(10**15).take(3).to_array()",
    "count().to_generator().skip(10**15).skip(10**15).take(1).to_array()",
    "[1, 2].to_generator().product([true].to_generator().repeat().filter(not)).take(1).to_array()",
    "[1, 2].to_generator().product([1].to_generator().take(0)).to_array()",
]


NATIVE_INFINITE = ["count().to_generator()", "[1].to_generator().repeat()", "[1, 2, 3].to_generator().repeat()",
                   "count().to_generator().zip(count().to_generator())", "count().to_generator().add(count().to_generator())",
                   "[true].to_generator().repeat()", "count().to_generator().windows(2)", "count().to_generator().with_count()"]


def huge_slices(rng, n):
    """`<native infinite generator>.skip(N).take(k)` and `.take(N + k).skip(N)` with N far above the search limit: the
    N discarded elements are native work, so the only acceptable outcome is MaximumSearch (and quickly)"""
    out = []
    for _ in range(n):
        g = rng.choice(NATIVE_INFINITE)
        N = rng.choice([10**7, 10**8, 10**9, 10**12, 10**15, 10**18, 2**62, 3 * 10**7 + 1])
        k = rng.choice([1, 2, 5, 100])
        shape = rng.choice(["{g}.skip({N}).take({k})", "{g}.take({M}).skip({N})", "{g}.skip({N}).take({k}).skip(1)",
                            "{g}.take({M}).skip({N}).take(1)", "{g}.skip(1).take({M}).skip({N})"])
        if "skip(1)" in shape and not shape.startswith("{g}.skip(1)"):
            k = max(k, 2)          # skip(N).take(1).skip(1) is the empty slice [N+1, N+1): nothing to discard
        cons = rng.choice(["to_array()", "len()", "get(0)", "take(1).to_array()"])
        if cons == "take(1).to_array()" and rng.random() < 0.5:
            cons = "to_array()"
        out.append((shape.format(g=g, N=N, k=k, M=N + k) + "." + cons))
    return out


def adversarial(rng, n):
    out = list(FIXED)
    for g in NEVER:
        for c in ("{g}.take(1).to_array()", "{g}.len()", "{g}.get(0)", "{g}.last()"):
            out.append(c.format(g=g, n=3))
    for _ in range(n):
        g = rng.choice(INFINITE + NEVER)
        c = rng.choice(CONSUMERS)
        if "x < 0" in c or "x >= 0" in c or "sum" in c or "reduce" in c or "to_str" in c or "max" in c or "mean" in c or "contains" in c \
                or "[x]" in c or "distinct" in c or "with_count" in c:
            if "not)" in g:
                continue   # bool elements: the int callbacks of the consumer would not type-check
        out.append(c.format(g=g, n=rng.choice(HUGE)))
    return out


EDGE_PROGRAM = """
fn down(n:int)->int{ if(n <= 0, 0, 1 + down(n - 1)) }
fn helper(x:int)->int{ x + 1 }
fn loop_(i:int, acc:int)->int{ if(i <= 0, acc, loop_(i - 1, helper(acc))) }
fn deep()->int{ down(300) }
fn many()->int{ range(25).map((i:int)->{down(39)}).to_array().len() }
fn tailloop()->int{ loop_(10000000, 0) }
fn never()->int{ count().filter((x:int)->{x < 0}).take(1).to_array().len() }
fn nativenever()->int{ [true].to_generator().repeat().filter(not).take(1).to_array().len() }
fn big()->int{ (3 ** (10 ** 9)) % 7 }
fn small()->int{ helper(1) }
"""
EDGE_FNS = ["deep", "many", "tailloop", "never", "nativenever", "big", "small"]
# user-function calls an unlimited run makes at least (the host's call of the function itself counts)
EDGE_MIN_CALLS = {"deep": 300, "many": 1000, "tailloop": 10**7, "never": 10**9, "nativenever": 1, "big": 1, "small": 2}
EDGE_ORDINARY = {"ud_calls": 5000, "search": 1000, "time_ms": 2000, "size": 50_000_000}
EDGE_VIOL = {"ud_calls": "MaximumUDCall", "search": "MaximumSearch", "time_ms": "Timeout", "size": "AllocationLimitReached"}


def limit_edges(chk):
    """every limit kind that bounds work x the edge values 0, 1, 2 (and the ordinary value), the other limits ordinary: programs
    that would run (nearly) for ever without the limit, as a first host call, as later host calls on the same runtime after
    a violation without reset, and after a reset of the call counter.  Oracle: every call answers; a call limit of v refuses
    every program that needs more than v calls; an exhausted call budget (and a passed deadline) stays exhausted for every
    later call until it is reset; the user-call counter never exceeds limit + number of host calls + 1."""
    reqs, metas = [], []
    for kind in ("ud_calls", "search", "time_ms", "size"):
        for v in (0, 1, 2, EDGE_ORDINARY[kind]):
            limits = dict(EDGE_ORDINARY)
            limits[kind] = v
            for fn in EDGE_FNS:
                for hist, label in (([fn, fn, "small", "small"], "reuse"),
                                    ([fn, {"fn": "small", "reset": True}, fn, "small"], "reset")):
                    reqs.append({"op": "run", "src": EDGE_PROGRAM, "get": [], "limits": limits, "calls": hist})
                    metas.append((kind, v, fn, label, hist))
    slow = c01_slowdown()
    res = run_watched(reqs, QUICK_ANSWER * slow)
    again = [i for i, r in enumerate(res) if "hang" in r][:6]
    if again:
        for i, r in zip(again, run_watched([reqs[i] for i in again], WATCHDOG * min(slow, 3.0), jobs=6)):
            res[i] = r
    for meta, r, req in zip(metas, res, reqs):
        chk.evaluations += 1
        v = edge_verdict(meta, r, req)
        if v is None:
            chk.count("G:ok")
        elif v[0] is None:
            chk.count("G:" + v[1])
        else:
            chk.violation(v[0], v[1], {**req, "edge_meta": list(meta), "got": v[2]})


def edge_verdict(meta, r, req):
    """None if fine; (None, counter) for an uninteresting outcome; (key, text, got) for a violation"""
    kind, v, fn, label, hist = meta
    vv = v if v < 1000 else "ordinary"
    f = c16._fail(r)
    if f is not None:
        kindf = "hang" if f == "HANG" else "panic" if f.startswith("panic") else None
        if kindf:
            return (f"edge:{kind}={vv}:{fn}:{kindf}", f"host calls {hist} on one runtime under {req['limits']}: {f[:160]}", f)
        return (None, "instantiation:" + f.split()[0])
    outs = r.get("calls", [])
    names = [h if isinstance(h, str) else h["fn"] for h in hist]
    resets = [False if isinstance(h, str) else h.get("reset", False) for h in hist]
    # (1) a call limit of v refuses every program that needs more calls than that
    if kind == "ud_calls" and outs:
        need = EDGE_MIN_CALLS[fn]
        if v < 1000 and need >= max(v, 1) and outs[0] != "!viol MaximumUDCall":
            return (f"edge:ud_calls={vv}:{fn}:not-enforced",
                    f"under a user-call limit of {v} the host call {fn}() (at least {need} user calls) answered {outs[0][:80]}", outs)
        if v >= 1000 and need > v and not outs[0].startswith("!viol"):
            return (f"edge:ud_calls={vv}:{fn}:not-enforced",
                    f"under a user-call limit of {v} the host call {fn}() (at least {need} user calls) answered {outs[0][:80]}", outs)
    # (2) sticky budgets: after that limit's violation every later user call violates again, until the counter is reset
    if kind in ("ud_calls", "time_ms"):
        seen = False
        for nm, rs, o in zip(names, resets, outs):
            if rs and kind == "ud_calls":
                seen = False
            if seen and o != "!viol " + EDGE_VIOL[kind]:
                return (f"edge:{kind}={vv}:{fn}:not-sticky",
                        f"host calls {hist} on one runtime under {req['limits']}: answers {outs}; after {EDGE_VIOL[kind]} the budget is used up, "
                        f"yet {nm}() answered {o[:80]}", outs)
            if o == "!viol " + EDGE_VIOL[kind]:
                seen = True
    # (3) the user-call counter stays within the limit plus one per host call
    lim = req["limits"]["ud_calls"]
    last_reset = max([i for i, rs in enumerate(resets) if rs], default=0)
    since = len(hist) - last_reset
    total = r.get("ud_calls", 0)
    if total > lim + since + 1:
        return (f"edge:{kind}={vv}:{fn}:calls-unbounded",
                f"host calls {hist} under a user-call limit of {lim}: the runtime counted {total} user calls", outs)
    return None


def c01_slowdown():
    from . import c01
    return c01.slowdown()


def run(chk):
    rng = chk.rng
    quick = chk.tier == "quick"
    chk.trusted += [
        "wall-clock watchdog of checklib.common.run_harness (a request that does not answer within %.0f s is a hang)" % WATCHDOG,
        "the step-count theorems speak about the model's iterations; real time, the allocator and third-party loops "
        "(num-bigint, regex, statrs) are watched by the tie, not proved",
        "Instant::now() is a parameter of the gate model; the tie can only put the deadline in the past (time_ms = 0) or let it pass",
    ]
    ok = chk.prove()
    if not ok:
        handle_broken(chk)
    phases = {"prove": round(time.time() - chk.t0, 1)}

    # ------------------------------------------------------------------ (A) permit accounting, model vs implementation
    nA = 1000 if quick else 4000
    cases = []
    while len(cases) < nA:
        c = c16.gen_case(rng, 4 if quick else 8)
        cases.append((c, rng.choice([0, 1, 2, 3, 5, 8, 13, 40])))
    reqs, mlines = [], []
    for (p, cons, arg, call), L in cases:
        reqs.append({"op": "run", "src": f"let g = {p.src};\nlet a = g.{call};\n", "get": ["a"],
                     "limits": {"search": L, "ud_calls": 2_000_000}})
        cname = c16.cons_name(cons, arg)
        mlines.append(f"gen {cname} {L} {c16.FUEL} " + " ".join(p.toks))
    impl = run_harness(reqs, per_req_timeout=WATCHDOG)
    model = run_model(mlines)
    for ((p, cons, arg, call), L), r, m, req, ml in zip(cases, impl, model, reqs, mlines):
        chk.evaluations += 1
        f = c16._fail(r)
        a = c16.canon_impl(f if f is not None else r["vals"]["a"])
        mm = c16.parse_model(m)
        chk.count("A:limit:" + str(L))
        chk.count("A:outcome:" + (a if a in ("ERR", "VIOL", "PANIC", "HANG") else "value"))
        if len(p.ops) >= 3:
            chk.nontrivial.add(tuple(p.toks) + (cname, L))
        sig = "+".join(sorted(set(p.ops)))
        if a in ("HANG", "PANIC") or a.startswith("COMPILE"):
            kind = "hang" if a == "HANG" else ("panic" if a == "PANIC" else "harness")
            chk.violation(f"limit:{sig}:{cons}:{kind}", f"{req['src']} under search limit {L}: {f}", {**req, "got": f},
                          no_input=(kind == "harness"))
        elif mm != a:
            chk.violation(f"tie:permits:{sig}:{cons}", f"{req['src']} under search limit {L}: implementation {a}, model {mm}",
                          {**req, "model": ml, "impl": a, "model_out": mm}, no_input=True)

    phases["A"] = round(time.time() - chk.t0, 1)
    # ------------------------------------------------------------------ (B) adversarial programs under a watchdog
    slices = huge_slices(rng, 120 if quick else 600)
    progs = adversarial(rng, 400 if quick else 1500) + slices
    must_search = set(slices)
    srcs = [f"let a = {e};" for e in progs]
    resps = run_timed(srcs, LIMITS)
    worst = (0, "")
    for e, s, r in zip(progs, srcs, resps):
        chk.evaluations += 1
        o = outcome(r)
        kind = ("hang" if o == "HANG" else "panic" if o.startswith("panic") else "compile" if o.startswith("COMPILE")
                else "viol:" + o.split()[1] if o.startswith("viol ") else "error" if o.startswith("(error") else "value")
        chk.count("B:" + kind)
        ms = r.get("ms", 0) if isinstance(r, dict) else 0
        if ms > worst[0]:
            worst = (ms, e)
        chk.nontrivial.add(e)
        if e in must_search and kind not in ("hang", "panic", "viol:MaximumSearch"):
            shape = re.sub(r"\d+", "N", e)[:70]
            chk.violation(f"busy:unlimited-skip:{shape}",
                          f"`{s}` under limits {LIMITS}: {o[:120]}; discarding more elements than the search limit allows must end in MaximumSearch",
                          {"op": "gen", "f": "timed_run", "src": s, "get": ["a"], "limits": LIMITS, "expected": "viol MaximumSearch", "got": o})
        if kind in ("hang", "panic"):
            shape = re.sub(r"\d+", "N", e)[:70]
            chk.violation(f"busy:{kind}:{shape}",
                          f"`{s}` under limits {LIMITS}: {o if kind == 'panic' else 'no answer within %.0f s' % WATCHDOG}",
                          {"op": "gen", "f": "timed_run", "src": s, "get": ["a"], "limits": LIMITS, "got": o})
    chk.coverage["slowest_ms"] = {"ms": worst[0], "program": worst[1]}

    phases["B"] = round(time.time() - chk.t0, 1)
    # ------------------------------------------------------------------ (D) numeric loops of int.rs under the search limit
    import math
    Lh = LIMITS["search"]
    dcases = []   # (expr, expected dump | "ERR" | "VIOL", model line or None)
    ns = [0, 1, 5, 20, 60, 100, 999, 1000, 1001, 1500, 10**6, 2**70]
    for _ in range(150 if quick else 1500):
        n = rng.choice(ns)
        k = rng.choice([0, 1, 2, n // 2, n - 1, n, n + 1, -1, 999, 1000, 1001, 1002, 5000])
        if k < 0 or k > n:
            want = "ERR"
        elif k > Lh:
            want = "VIOL"      # the loop runs k times, a permit each (int.rs:326)
        else:
            want = c16.dump(math.comb(n, k))
        dcases.append((f"binom({lit(n)}, {lit(k)})", want, f"int b.binom {n} {k}" if 0 <= n <= 300 else None))
        ks = [rng.choice([0, 1, 2, 3, 10, 400, 600, 1000, 1001, 2**64]) for _ in range(rng.choice([1, 2, 3]))]
        srt = sorted(ks, reverse=True)
        work = sum(srt[1:])
        if len(ks) <= 1:
            wantm = c16.dump(1)
        elif work > Lh:
            wantm = "VIOL"     # one permit per factor of every part but the largest (int.rs:373-375)
        else:
            m = math.factorial(sum(ks)) if sum(ks) < 5000 else None
            if m is None:
                m = 1
                acc = srt[0]
                for q in srt[1:]:
                    m *= math.comb(acc + q, q)
                    acc += q
            else:
                for q in ks:
                    m //= math.factorial(q)
            wantm = c16.dump(m)
        dcases.append((f"multinom([{', '.join(lit(q) for q in ks)}])", wantm, None))
        x = rng.choice([0, 1, 7, 255, 10**30, 2**64, 10**300, 2**4000 + 1])
        base = rng.choice([-1, 0, 1, 2, 10, 16, 2**64])
        if base < 2:
            wantd = "ERR"      # the loop would not shrink its argument (repaired in ac58086)
        else:
            ds, t = [], x
            while t:
                ds.append(t % base)
                t //= base
            wantd = c16.dump(ds)
        dcases.append((f"digits({lit(x)}, {lit(base)})", wantd, f"int b.digits {x} {base}" if x < 2**70 else None))
    dres = run_timed([f"let a = {e};" for e, _, _ in dcases], LIMITS)
    dmod = run_model([m or "ping" for _, _, m in dcases])
    for (e, want, mline), r, mo in zip(dcases, dres, dmod):
        chk.evaluations += 1
        o = outcome(r)
        got = c16.canon_impl(o)
        fn = e.split("(")[0]
        chk.count(f"D:{fn}:" + (got if got in ("ERR", "VIOL", "HANG", "PANIC") else "value"))
        chk.nontrivial.add(e)
        if got != want:
            kind = "hang" if got == "HANG" else "panic" if got == "PANIC" else "wrong"
            chk.violation(f"numeric:{fn}:{kind}", f"`let a = {e};` under search limit {Lh}: {o[:200]}; expected {want[:200]}",
                          {"op": "gen", "f": "timed_run", "src": f"let a = {e};", "get": ["a"], "limits": LIMITS, "expected": want, "got": o})
        elif mline and mo != "bad-op" and want not in ("VIOL",):
            from .c14 import model_to_dump
            gm = model_to_dump(mo)
            if gm != (want if want != "ERR" else "ERR"):
                chk.violation(f"tie:numeric:{fn}", f"C14 model on `{mline}` answers {mo[:120]}, implementation and oracle {want[:120]}",
                              {"model": mline, "model_out": mo, "impl": o}, no_input=True)
    phases["D"] = round(time.time() - chk.t0, 1)
    # ------------------------------------------------------------------ (E) adversarial arguments for every numeric library function
    from . import c10_adv
    c10_adv.run_sweep(chk)
    phases["E"] = round(time.time() - chk.t0, 1)
    # ------------------------------------------------------------------ (F) native loops over huge lazy sources with builtin callbacks
    c10_adv.run_loop_sweep(chk)
    phases["F"] = round(time.time() - chk.t0, 1)
    # ------------------------------------------------------------------ (G) limit edges and re-use of a runtime after a violation
    limit_edges(chk)
    phases["G"] = round(time.time() - chk.t0, 1)
    # ------------------------------------------------------------------ (C) the gate at the beginning of a user call
    gate = [
        # (program, limits, model request, what the model's answer means for the program)
        ("fn f(x:int)->int{x + 1}\nlet a = f(1);", {"time_ms": 0}, "gen begincall 0 - 0 0 0"),
        ("fn f(x:int)->int{x + 1}\nlet a = f(1);", {"time_ms": 0, "ud_calls": 1}, "gen begincall 0 1 0 0 0"),
        ("fn f(x:int)->int{x + 1}\nlet a = f(div_floor(1, 0));", {"time_ms": 0, "ud_calls": 1}, "gen begincall 1 1 0 0 0"),
        ("fn f(x:int)->int{x + 1}\nlet a = f(1);", {"time_ms": 600000, "ud_calls": 5}, "gen begincall 0 5 0 600000 0"),
        ("fn f(x:int)->int{f(x + 1)}\nlet a = f(1);", {"time_ms": 300}, "gen tailiter - 1 0 0"),
        ("fn f(x:int)->int{f(x + 1)}\nlet a = f(1);", {"time_ms": 300, "recursion": 10**9}, "gen tailiter 1000000000 1 0 0"),
        ("fn f(x:int)->int{1 + f(x + 1)}\nlet a = f(1);", {"time_ms": 300, "depth": 10**9, "ud_calls": 10**9}, "gen begincall 0 1000000000 5 0 0"),
    ]
    resps = run_harness([{"op": "run", "src": s, "get": ["a"], "limits": l} for s, l, _ in gate], per_req_timeout=WATCHDOG)
    models = run_model([m for _, _, m in gate])
    for (s, l, mline), r, m in zip(gate, resps, models):
        chk.evaluations += 1
        f = c16._fail(r)
        got = f if f is not None else r["vals"]["a"]
        if m == "body-runs":
            okc = got == "(int S 2)"
        elif m == "error-argument":
            okc = got.startswith("(error")
        else:
            okc = got == m
        chk.count("C:" + m)
        if got == "HANG" or (got.startswith("panic") and "overflow" not in got):
            chk.violation("gate:" + ("hang" if got == "HANG" else "panic"), f"`{s}` under {l}: {got}",
                          {"op": "run", "src": s, "get": ["a"], "limits": l, "got": got})
        elif not okc:
            chk.violation("tie:gate:" + mline.split()[1], f"`{s}` under {l}: implementation {got}, gate model {m}",
                          {"op": "run", "src": s, "get": ["a"], "limits": l, "model": mline, "impl": got, "model_out": m}, no_input=True)
    phases["C"] = round(time.time() - chk.t0, 1)
    chk.coverage["phase_end_s"] = phases
    chk.sample({"A": reqs[0]["src"], "limit": cases[0][1]})
    chk.sample({"B": srcs[0], "limits": LIMITS})
    chk.sample({"B": srcs[-1], "limits": LIMITS})
    chk.sample({"C": gate[0][0], "limits": gate[0][1]})
    return chk.finish(rule="(A) generator pipelines under search limits 0..40, outcome compared with the model's permit accounting; "
                           "(B) adversarial programs (infinite / never-accepting sources x consumers with huge counts, numeric and "
                           "searching builtins) under search=1000, ud_calls=5000, size=50MB, time=3s in a watched child; "
                           "(C) check order at the beginning of a user call; (D) binom / multinom / digits of int.rs against Python's int and the rule 'one permit per iteration'; non-trivial = distinct programs (A: at least 3 operations)")


def replay(path):
    """re-run a replay file: the program through the interpreter (and the model request, if any); exit 1 while it still fails"""
    d = json.load(open(path))
    r = d["replay"]
    if "edge_meta" in r:
        req = {"op": "run", "src": r["src"], "get": [], "limits": r["limits"], "calls": r["calls"]}
        resp = run_harness([req], per_req_timeout=120.0)[0]
        print("host calls:", r["calls"], "limits:", r["limits"])
        print("answers   :", resp.get("calls"), "ud_calls:", resp.get("ud_calls"))
        m = r["edge_meta"]
        v = edge_verdict((m[0], m[1], m[2], m[3], m[4]), resp, req)
        bad = v is not None and v[0] is not None
        print("VIOLATION property=C10 replay=%s" % path if bad else "no longer failing")
        return 1 if bad else 0
    req = {"op": r.get("op", "run"), "src": r["src"], "get": r.get("get", ["a"]), "limits": r.get("limits", {})}
    if "f" in r:
        req["f"] = r["f"]
    resp = run_harness([req], per_req_timeout=30.0)[0]
    fail = c16._fail(resp)
    got = {k: (fail if fail is not None else resp["vals"].get(k)) for k in req["get"]}
    print("program :", r["src"])
    print("limits  :", req["limits"])
    print("got     :", got)
    if "expected" in r:
        print("expected:", r["expected"])
    mo = None
    if "model" in r:
        mo = run_model([r["model"]])[0]
        print("model   :", r["model"], "=>", mo)
    vals = [c16.canon_impl(v) for v in got.values()]
    bad = any(v in ("HANG", "PANIC") or v.startswith("COMPILE") for v in vals) or len(set(vals)) > 1
    if r.get("expected") is not None:
        bad = bad or any(v != r["expected"] for v in vals)
    if r.get("expect_answer"):
        bad = any(v in ("HANG",) or v.startswith("panic abort") for v in vals)
    if mo is not None and r.get("expected") is None:
        bad = bad or any(v != c16.parse_model(mo) for v in vals)
    print("VIOLATION property=C10 replay=%s" % path if bad else "no longer failing")
    return 1 if bad else 0
