"""C01 — Accepted programs never go wrong (type soundness).

Proofs: lean/Props/C01.lean (natives_sound, soundness, preservation of the checker XrayModel/CoreTyping.lean over the core
evaluator XrayModel/Core.lean; all full).
Tie (what no model can replace):
 (a) generated core programs and near-miss mutations of them: accept/reject of the real compiler vs the Lean checker
     (engine `typing check`), the accepted ones run three ways (implementation / Lean core model / Python reference
     evaluator) under a sweep of limit configurations: no panic, no abort, every binding a value / error value / violation;
 (b) panic search over the whole standard library: well-typed calls of every overload the root scope exports (signatures
     through the hook `verif_hooks/typing.rs`), arguments from a typed pool of edge values, plus value-level mutations of
     test_scripts/*.xr and of the book's code blocks, each top-level binding and zero-argument function run under limits;
 (c) shape check: the dump of every value so produced has the shape of the static type the compiler reports for it;
 (d) function values of different types (arity, optional parameters, parameter and result types, named and lambda, core and
     library) in every position where the compiler computes a common type, then called with each arity;
 (e) declaration structure: generated programs with forward functions (call graphs among the implementations, a use at every
     position) and structure mutants of the shipped programs (declarations moved, swapped, deleted, forwards duplicated):
     what the compiler accepts must instantiate and run;
 (f) default values x every parameter-type form (generic functions with the generic inside containers and tuples; concrete,
     generic-neutral, ill-typed defaults): every result of every accepted call has the shape of its static type and survives
     a use according to that type;
 (g) user structs / unions with user overloads (generic and not, right and wrong return type) of eq / cmp / hash / to_str / lt / add,
     used through every derived library function (comparisons on containers of it, sort, max, distinct, display, set, mapping ..).
A corpus of minimised past failures (corpus/C01/*.case) runs first."""
import glob
from .common import *
from . import coregen as cg
from .corecheck import Case, three_way, limits_json

CORPUS = os.path.join(VERIF, "corpus", "C01")

# ================================================================================================ type texts
# type AST: 'int' 'float' 'bool' 'str' '?' | ('G', name) | ('N', name, [args]) | ('T', [items]) | ('F', [params], ret)


class TyParser:
    def __init__(self, s, generics=()):
        self.s, self.i, self.generics = s, 0, set(generics)

    def ws(self):
        while self.i < len(self.s) and self.s[self.i] == ' ':
            self.i += 1

    def peek(self, t):
        self.ws()
        return self.s.startswith(t, self.i)

    def eat(self, t):
        self.ws()
        if not self.s.startswith(t, self.i):
            raise ValueError(f"expected {t!r} at {self.i} in {self.s!r}")
        self.i += len(t)

    def name(self):
        self.ws()
        m = re.compile(r'[A-Za-z_][A-Za-z0-9_]*').match(self.s, self.i)
        if not m:
            raise ValueError(f"name expected at {self.i} in {self.s!r}")
        self.i = m.end()
        return m.group(0)

    def type_list(self, close, allow_opt=False):
        items, opts = [], []
        self.ws()
        if self.peek(close):
            self.eat(close)
            return items, opts
        while True:
            items.append(self.type())
            if allow_opt and self.peek('?'):
                self.eat('?')
                opts.append(True)
            else:
                opts.append(False)
            if self.peek(','):
                self.eat(',')
                continue
            self.eat(close)
            return items, opts

    def type(self):
        self.ws()
        if self.peek('?'):
            self.eat('?')
            return '?'
        if self.peek('('):
            self.eat('(')
            items, opts = self.type_list(')', allow_opt=True)
            if self.peek('->'):
                self.eat('->')
                ret = self.type()
                if isinstance(ret, tuple) and ret[0] == 'T' and len(ret[1]) == 1:
                    ret = ret[1][0]      # a callable prints its result in parentheses
                return ('F', items, ret) if not any(opts) else ('F', items, ret, opts)
            return ('T', items)
        n = self.name()
        if n in ('int', 'float', 'bool', 'str'):
            return n
        if n in self.generics:
            return ('G', n)
        args = []
        if self.peek('<'):
            self.eat('<')
            args, _ = self.type_list('>')
        return ('N', n, args)


def parse_sig(text):
    """'<T, U>(Sequence<T>, int?)->T' -> (generics, [(type, required)], ret)"""
    generics = []
    s = text
    if s.startswith('<'):
        j = s.index('>')
        generics = [g.strip() for g in s[1:j].split(',')]
        s = s[j + 1:]
    p = TyParser(s, generics)
    p.eat('(')
    items, opts = p.type_list(')', allow_opt=True)
    p.eat('->')
    ret = p.type()
    p.ws()
    if p.i != len(p.s):
        raise ValueError("trailing text in " + text)
    return generics, [(t, not o) for t, o in zip(items, opts)], ret


def parse_type(text):
    p = TyParser(text)
    t = p.type()
    p.ws()
    if p.i != len(p.s):
        raise ValueError("trailing text in type " + text)
    return t


def ts(t):
    """type AST -> xray type text"""
    if isinstance(t, str):
        return t
    if t[0] == 'G':
        return t[1]
    if t[0] == 'N':
        return t[1] + ('<' + ', '.join(ts(a) for a in t[2]) + '>' if t[2] else '')
    if t[0] == 'T':
        return '(' + ', '.join(ts(a) for a in t[1]) + ')'
    if t[0] == 'F':
        return '(' + ', '.join(ts(a) for a in t[1]) + ')->(' + ts(t[2]) + ')'
    raise ValueError(t)


def subst(t, b):
    if isinstance(t, str):
        return t
    if t[0] == 'G':
        return b.get(t[1], t)
    if t[0] == 'N':
        return ('N', t[1], [subst(a, b) for a in t[2]])
    if t[0] == 'T':
        return ('T', [subst(a, b) for a in t[1]])
    if t[0] == 'F':
        return ('F', [subst(a, b) for a in t[1]], subst(t[2], b)) + tuple(t[3:])
    raise ValueError(t)


def has_generic(t):
    if isinstance(t, str):
        return False
    if t[0] == 'G':
        return True
    if t[0] == 'N':
        return any(has_generic(a) for a in t[2])
    if t[0] == 'T':
        return any(has_generic(a) for a in t[1])
    return any(has_generic(a) for a in t[1]) or has_generic(t[2])


SEQ = lambda t: ('N', 'Sequence', [t])
GEN = lambda t: ('N', 'Generator', [t])
OPT = lambda t: ('N', 'Optional', [t])

INT_EDGES = ["0", "1", "(-1)", "2", "3", "7", "10", "63", "64", "100", "1000000", "2**31", "2**31-1", "(-(2**31))",
             "2**63-1", "2**63", "(-(2**63))", "(-(2**63))-1", "2**64", "2**64-1", "2**64+1", "(-(2**64))", "2**127", "10**30", "(-(10**30))"]
INT_SMALL = ["0", "1", "(-1)", "2", "3", "5", "7"]
FLOAT_EDGES = ["0.0", "1.0", "(-1.5)", "0.5", "2.0", "3.14", "1e308", "(-1e308)", "1e-300", "5e-324", "1e-320", "1e18", "(-0.0)", "100.0",
               "9007199254740993.0", "0.1"]
STR_EDGES = ['""', '"a"', '"abc"', '"é"', '"aİb"', '"日本語"', '" x "', '"12"', '"-5"', '"a,b,c"', '"{}"', '"%d"', '"ß"',
             '"1e5"', '"A b"', '("ab"*1000)', '"\\n"', '"(a+)"', '"["', '"İ"', '"ŉǰ"', '"ﬃ"', '"e\\u{301}"', '"👋a"', '"Straße"', '"ǅ"',
             '"0x1F"', '" 7 "', '"1_000"', '"{0}{1}"', '"%Y-%m-%d"']
HASHABLE = ('int', 'str', 'bool')


LIB_PRELUDE_FNS = {
    'int': 'e_int', 'str': 'e_str', 'float': 'e_float', 'bool': 'e_bool',
}
LIB_PRELUDE = ("fn e_int()->int{error('e')}\nfn e_str()->str{error('e')}\nfn e_float()->float{error('e')}\nfn e_bool()->bool{error('e')}\n")



class Pool:
    """expressions of a given concrete type, chosen to sit on the edges the natives branch on"""

    def __init__(self, rng, producers):
        self.rng = rng
        self.producers = producers     # type text -> [(fname, [param types])]

    force_empty = False   # when set, every top-level container argument is empty at run time

    def pick(self, t, depth=0, small=False):
        if depth == 0 and (self.force_empty or self.rng.random() < 0.12):
            e = self.empty(t)
            if e is not None:
                return e
        return self._pick(t, depth, small, True)

    def _pick(self, t, depth=0, small=False, inject=False):
        rng = self.rng
        if inject and depth < 3 and rng.random() < 0.04:
            if depth == 0 and isinstance(t, str) and t in LIB_PRELUDE_FNS:
                return LIB_PRELUDE_FNS[t] + '()'
            if depth == 0:
                return None if isinstance(t, str) else self._pick(t, depth, small)
            return 'error("e")'
        if t == 'int':
            return rng.choice(INT_SMALL if small or rng.random() < 0.45 else INT_EDGES)
        if t == 'float':
            return rng.choice(FLOAT_EDGES)
        if t == 'bool':
            return rng.choice(['true', 'false'])
        if t == 'str':
            return rng.choice(STR_EDGES[:6] if small else STR_EDGES)
        if t == '?':
            return 'error("u")'
        k = t[0]
        if k == 'G':
            return self.pick('int', depth, small)
        if k == 'T':
            items = [self.pick(a, depth + 1, small) for a in t[1]]
            if any(i is None for i in items):
                return None
            return '(' + ', '.join(items) + (',' if len(items) == 1 else '') + ')'
        if k == 'F':
            return self.lam(t, depth)
        name, args = t[1], t[2]
        if name == 'Sequence':
            return self.seq(args[0], depth)
        if name == 'Generator':
            e = args[0]
            r = rng.random()
            if e == 'int' and r < 0.15:
                return rng.choice(['count().to_generator()', 'count().to_generator().map((x: int)->{x+1})', '[1].repeat().to_generator()',
                                   'count().to_generator().filter((x: int)->{x % 1000 == 999})'])
            if e == 'int' and r < 0.25:
                return rng.choice(['successors(0, (x: int)->{x+1})', 'successors(1, (x: int)->{x*2})', 'range(0).to_generator()',
                                   'count().to_generator().take(0)', 'range(3).to_generator().skip(5)'])
            return self.seq(e, depth, finite=r < 0.8) + '.to_generator()'
        if name == 'Optional':
            if rng.random() < 0.35:
                return 'none()'
            v = self.pick(args[0], depth + 1, small)
            return None if v is None else 'some(' + v + ')'
        if name == 'Stack':
            s = 'stack()'
            for _ in range(rng.choice([0, 1, 2, 3])):
                v = self.pick(args[0], depth + 1, True)
                if v is None:
                    return None
                s += '.push(' + v + ')'
            return s
        if name == 'Set':
            if args[0] not in HASHABLE:
                return None
            s = f'set<{ts(args[0])}>()'
            n = rng.choice([0, 1, 3, 6])
            if n:
                s += '.update([' + ', '.join(self.pick(args[0], 3, True) for _ in range(n)) + '])'
            return s
        if name == 'Mapping':
            if args[0] not in HASHABLE:
                return None
            s = f'mapping<{ts(args[0])}>()'
            for _ in range(rng.choice([0, 1, 2, 4])):
                v = self.pick(args[1], depth + 1, True)
                if v is None:
                    return None
                s += '.set(' + self.pick(args[0], 3, True) + ', ' + v + ')'
            return s
        # anything else: a function of the library that returns it
        ps = self.producers.get(ts(t), [])
        if not ps or depth > 3:
            return None
        fname, ptys = rng.choice(ps)
        as_ = [self.pick(p, depth + 1, True) for p in ptys]
        if any(a is None for a in as_):
            return None
        return fname + '(' + ', '.join(as_) + ')'

    def empty(self, t, depth=1):
        """a value of container type t that is EMPTY AT RUN TIME but whose static element type is fully known
        (None if t is not such a container type)"""
        rng = self.rng
        if isinstance(t, str) or t[0] != 'N' or not t[2]:
            return None
        name, args = t[1], t[2]
        if any(a == '?' for a in args):
            return None
        item = lambda a: self._pick(a, 3, True)
        if name in ('Sequence', 'Generator'):
            e = args[0]
            x = item(e)
            if x is None:
                return None
            forms = [f'[{x}].take(0)', f'[{x}].skip(1)', f'[{x}, {x}].skip(5)', f'[{x}].filter((v: {ts(e)})->{{false}}).to_array()']
            if e == 'int':
                forms += ['range(0).map((x: int)->{x})', 'range(3, 3)', 'range(2).skip(2)']
            if not isinstance(e, str) and e[0] == 'T' and len(e[1]) == 2:
                a, b = item(e[1][0]), item(e[1][1])
                if a is not None and b is not None:
                    forms += [f'zip([{a}], [{b}]).skip(1)', f'zip([{a}], [{b}]).take(0)', f'zip([{a}].take(0), [{b}])']
            sq = rng.choice(forms)
            if name == 'Sequence':
                return sq
            return rng.choice([sq + '.to_generator()', f'[{x}].to_generator().take(0)', f'[{x}].to_generator().skip(2)',
                               f'[{x}].to_generator().filter((v: {ts(e)})->{{false}})'])
        if name == 'Optional':
            x = item(args[0])
            return None if x is None else rng.choice([f'if(false, some({x}), none())', f'[{x}].first((v: {ts(args[0])})->{{false}})'])
        if name == 'Stack':
            x = item(args[0])
            return None if x is None else f'stack().push({x}).tail()'
        if name == 'Set':
            if args[0] not in HASHABLE:
                return None
            x = item(args[0])
            return rng.choice([f'set<{ts(args[0])}>()', f'set<{ts(args[0])}>().update([{x}]).remove({x})'])
        if name == 'Mapping':
            if args[0] not in HASHABLE:
                return None
            k, v = item(args[0]), item(args[1])
            if k is None or v is None:
                return None
            return f'mapping<{ts(args[0])}>().set({k}, {v}).pop({k})'
        return None

    def seq(self, e, depth, finite=False):
        rng = self.rng
        r = rng.random()
        if e == 'int' and not finite:
            if r < 0.06:
                return rng.choice(['count()', 'count().map((x: int)->{x*x})', 'count(2**63, 2**63)', 'count().skip(2**63)', 'count() + [1]'])
            if r < 0.10:
                return rng.choice(['range(1000000)', 'range(2**63)', 'range((-(2**63)), 2**63-1)', 'range(0, 2**64, 2**62)'])
            if r < 0.14:
                return rng.choice(['[1, 2].repeat()', '[1].repeat(2**63)', '[].repeat()'])
            if r < 0.18:
                return rng.choice(['range(0).map((x: int)->{x})', '[1, 2].take(0)', 'range(5).skip(7)', 'range(3, 3)'])
        if e == 'int':
            if r < 0.28:
                return rng.choice(['range(5)', 'range(0)', 'range(3, 10, 2)', 'range(5, 0, (-1))'])
            if r < 0.36:
                return 'range(4).map((x: int)->{x*2})'
            if r < 0.42:
                return 'range(6).map((x: int)->{if(x == 3, error("lazy"), x)})'
        n = rng.choice([0, 0, 1, 2, 3, 5])
        items = [self.pick(e, depth + 1, True) for _ in range(n)]
        if any(i is None for i in items):
            return '[]'
        s = '[' + ', '.join(items) + ']'
        r2 = rng.random()
        if n >= 2 and r2 < 0.12:
            return s + '.skip(1)'
        if n >= 1 and r2 < 0.2:
            return '(' + s + ' + ' + s + ')'
        if n >= 1 and r2 < 0.26:
            return s + '.to_stack().to_array()'
        return s

    def lam(self, t, depth):
        rng = self.rng
        ps = [f'a{depth}_{i}' for i in range(len(t[1]))]
        head = '(' + ', '.join(f'{n}: {ts(p)}' for n, p in zip(ps, t[1])) + ')->'
        ret = t[2]
        r = rng.random()
        if r < 0.06:
            return head + '{error("cb")}'
        same = [n for n, p in zip(ps, t[1]) if p == ret]
        if same and r < 0.5:
            return head + '{' + rng.choice(same) + '}'
        ints = [n for n, p in zip(ps, t[1]) if p == 'int']
        if ret == 'int' and ints and r < 0.8:
            return head + '{' + ' + '.join(ints) + rng.choice(['', ' * 2', ' % 3', ' - 1']) + '}'
        if ret == 'bool' and ints:
            return head + '{' + ints[0] + rng.choice([' > 1', ' == 0', ' < 0', ' % 2 == 0']) + (' && ' + ints[-1] + ' != 2' if len(ints) > 1 else '') + '}'
        if ret == 'bool' and len(ps) == 2 and t[1][0] == t[1][1] and t[1][0] in ('str', 'bool', 'float'):
            return head + '{' + ps[0] + ' == ' + ps[1] + '}'
        if ret == 'int' and len(ps) == 2 and t[1][0] == t[1][1] and t[1][0] in ('str', 'float', 'bool'):
            return head + '{cmp(' + ps[0] + ', ' + ps[1] + ')}'
        if ret == 'int' and len(ps) == 1 and t[1][0] in ('str', 'bool'):
            return head + '{hash(' + ps[0] + ')}'
        if ret == 'str' and ints:
            return head + '{' + ints[0] + '.to_str()}'
        body = self.pick(ret, depth + 1, True)
        if body is None:
            return None
        return head + '{' + body + '}'


def force_expr(name, t):
    """an expression that makes a lazily produced value of type t do its work (bounded)"""
    if isinstance(t, str) or t[0] != 'N':
        return None
    if t[1] == 'Sequence':
        return f'{name}.take(4).to_array()'
    if t[1] == 'Generator':
        return f'{name}.take(4).to_array()'
    if t[1] in ('Set', 'Stack'):
        return f'{name}.to_array()'
    if t[1] == 'Mapping':
        return f'{name}.to_generator().take(4).to_array()'
    if t[1] == 'Optional' and t[2] and not isinstance(t[2][0], str) and t[2][0][0] == 'N' and t[2][0][1] in ('Sequence', 'Generator'):
        return f'{name}.map((v: {ts(t[2][0])})->{{v.take(4).to_array()}})'
    return None


def followup_expr(name, t):
    """a use of a value according to its static type t: a wrong-shaped value makes the interpreter fail here"""
    if isinstance(t, str):
        return {'int': f'{name} + 1', 'float': f'{name} + 1.0', 'bool': f'!{name}', 'str': f'{name}.len()'}.get(t)
    if t[0] == 'T':
        return f'{name}::item0' if t[1] else None
    if t[0] != 'N':
        return None
    if t[1] in ('Sequence', 'Set', 'Mapping', 'Stack'):
        return f'{name}.len()'
    if t[1] == 'Generator':
        return f'{name}.take(1).to_array()'
    if t[1] == 'Optional':
        return f'{name}.has_value()'
    return None


# argument types for the overloads whose signature is computed from the call (dynamic overloads)
DYN_CALLS = {
    'to_str': [[SEQ('int')], [('T', ['int', 'str'])], [OPT('int')], [SEQ(SEQ('str'))], [OPT(('T', ['bool']))], [('T', [])]],
    'eq': [[SEQ('int'), SEQ('int')], [('T', ['int', 'str']), ('T', ['int', 'str'])], [OPT('int'), OPT('int')],
           [('N', 'Stack', ['int']), ('N', 'Stack', ['int'])], [('N', 'Mapping', ['int', 'str']), ('N', 'Mapping', ['int', 'str'])],
           [SEQ(OPT('str')), SEQ(OPT('str'))]],
    'ne': [[SEQ('int'), SEQ('int')], [('T', ['int', 'str']), ('T', ['int', 'str'])], [OPT('float'), OPT('float')], ['str', 'str']],
    'hash': [[SEQ('int')], [('T', ['int', 'str'])], [OPT('int')], [('N', 'Stack', ['str'])], [('N', 'Mapping', ['int', 'int'])]],
    'cmp': [[SEQ('int'), SEQ('int')], [('T', ['int', 'str']), ('T', ['int', 'str'])], [SEQ(SEQ('str')), SEQ(SEQ('str'))]],
    'lt': [[SEQ('int'), SEQ('int')], [('T', ['int', 'str']), ('T', ['int', 'str'])], ['str', 'str']],
    'le': [[SEQ('int'), SEQ('int')], ['str', 'str']], 'gt': [[SEQ('int'), SEQ('int')], ['str', 'str']],
    'ge': [[('T', ['int']), ('T', ['int'])], ['str', 'str']],
    'sort': [[SEQ('int')], [SEQ('str')], [SEQ('float')], [SEQ(('T', ['int', 'str']))], [SEQ(SEQ('int'))]],
    'sort_reverse': [[SEQ('int')], [SEQ('str')], [SEQ('float')]],
    'sum': [[SEQ('int')], [SEQ('float')], [GEN('int')], [SEQ('str')]],
    'product': [[SEQ('int')], [SEQ('float')], [GEN('int')]],
    'max': [[SEQ('int')], [SEQ('str')], [GEN('int')], [SEQ('float')], ['int', 'int'], ['str', 'str']],
    'min': [[SEQ('int')], [SEQ('str')], [GEN('float')], ['float', 'float'], ['int', 'int']],
    'mean': [[SEQ('int')], [SEQ('float')], [GEN('int')], [GEN('float')]],
    'geo_mean': [[SEQ('int')], [SEQ('float')], [GEN('float')]],
    'harmonic_mean': [[SEQ('int')], [SEQ('float')], [GEN('float')]],
    'median': [[SEQ('int')], [SEQ('float')], [SEQ('str')]],
    'distinct': [[SEQ('int')], [SEQ('str')], [GEN('int')]],
    'contains': [[SEQ('int'), 'int'], [SEQ('str'), 'str'], [GEN('int'), 'int']],
    'count': [[SEQ('int'), 'int'], [SEQ('str'), 'str'], [GEN('bool'), 'bool']],
    'group': [[GEN('int')], [GEN('str')]],
    'n_largest': [[SEQ('int'), 'int'], [SEQ('str'), 'int']], 'n_smallest': [[SEQ('int'), 'int'], [SEQ('float'), 'int']],
    'nth_largest': [[SEQ('int'), 'int'], [SEQ('str'), 'int']], 'nth_smallest': [[SEQ('int'), 'int'], [SEQ('float'), 'int']],
    'rank_avg': [[SEQ('int'), 'int'], [SEQ('float'), 'float']], 'rank_eq': [[SEQ('int'), 'int'], [SEQ('str'), 'str']],
    'rank_sorted_avg': [[SEQ('int'), 'int']], 'rank_sorted_eq': [[SEQ('int'), 'int']],
    'with_count': [[SEQ('int')], [SEQ('str')], [GEN('int')]],
    'zip': [[SEQ('int'), SEQ('str')], [SEQ('int'), SEQ('int'), SEQ('bool')], [GEN('int'), GEN('str')], [SEQ('int')]],
    'unzip': [[SEQ(('T', ['int', 'str']))], [GEN(('T', ['int', 'bool']))], [SEQ(('T', ['int']))]],
    'json': [[SEQ('int')], [('N', 'Mapping', ['str', 'int'])], [OPT('int')], [SEQ(SEQ('str'))], [OPT(OPT('bool'))]],
    'display': [['int'], ['str'], [SEQ('int')], [('T', ['int', 'str'])], [OPT('float')], ['int', 'str']],
    'add': [[('N', 'Matrix', ['float']), ('N', 'Matrix', ['float'])]],
    'to_cmp': [[('F', ['int', 'int'], 'bool')]], 'to_eq': [[('F', ['int', 'int'], 'int')]], 'to_lt': [[('F', ['int', 'int'], 'int')]],
    'partial': [[('F', ['int', 'int'], 'int'), 'int'], [('F', ['int', 'str', 'bool'], 'str'), 'int', 'str'], [('F', ['int'], 'int'), 'int']],
}


# ================================================================================================ (b) library surface

LIB_LIMITS = [
    # nothing can hang or eat the machine: search / size / time always finite
    {"search": 20000, "size": 60000000, "time_ms": 3000, "depth": 400, "allow": ["regex", "now", "random", "print"], "forbid": ["sleep"]},
    {"search": 50, "size": 20000, "time_ms": 3000, "depth": 12, "ud_calls": 40, "recursion": 30, "forbid": ["sleep"]},
]
INST_TYPES = ['int', 'int', 'int', 'str', 'bool', 'float', SEQ('int'), ('T', ['int', 'str']), OPT('int')]


def candidate_names():
    words = set()
    for f in sorted(glob.glob(os.path.join(REPO, "src", "builtin", "*.rs")) + glob.glob(os.path.join(REPO, "book", "src", "std", "*.md"))
                    + glob.glob(os.path.join(REPO, "test_scripts", "*.xr"))):
        words |= set(re.findall(r'[a-zA-Z_][a-zA-Z0-9_]*', open(f, errors="replace").read()))
    return sorted(words)


def library_signatures():
    r = run_harness([{"op": "typing", "f": "sigs", "names": candidate_names()}])[0]
    if "sigs" not in r:
        raise BuildError("typing sigs hook did not answer: " + json.dumps(r)[:300])
    return r["sigs"]


def build_producers(sigs):
    """concrete non-container types -> library functions with simple parameters that return them"""
    prod = {}
    simple = ('int', 'float', 'str', 'bool')
    for name in sorted(sigs):
        if name.startswith('__'):
            continue
        for s in sigs[name]:
            if s.startswith('dyn:'):
                continue
            try:
                gs, ps, ret = parse_sig(s)
            except ValueError:
                continue
            if gs or isinstance(ret, str) or ret[0] != 'N' or ret[1] in ('Sequence', 'Generator', 'Optional', 'Set', 'Mapping', 'Stack'):
                continue
            req = [t for t, r in ps if r]
            if all(t in simple for t in req) and name not in ('now', 'sleep'):
                prod.setdefault(ts(ret), []).append((name, req))
    # second round: producers whose parameters are produced types (Datetime from Date, ..)
    for name in sorted(sigs):
        for s in sigs[name]:
            if s.startswith('dyn:') or name.startswith('__'):
                continue
            try:
                gs, ps, ret = parse_sig(s)
            except ValueError:
                continue
            if gs or isinstance(ret, str) or ret[0] != 'N' or ts(ret) in prod or ret[1] in ('Sequence', 'Generator', 'Optional', 'Set', 'Mapping', 'Stack'):
                continue
            req = [t for t, r in ps if r]
            if req and all(t in simple or ts(t) in prod for t in req):
                prod.setdefault(ts(ret), []).append((name, req))
    prod.setdefault('Matrix<float>', []).append(('eye', ['int']))
    prod.setdefault('Matrix<int>', []).append(('matrix', ['int', 'int', ('F', ['int', 'int'], 'int')]))
    return prod


def gen_calls(rng, sigs, per_overload):
    """[(fname, overload text, call expression, result type or None)]"""
    pool = Pool(rng, build_producers(sigs))
    out = []
    skipped = {}
    for name in sorted(sigs):
        for s in sigs[name]:
            if s.startswith('dyn:'):
                continue
            try:
                gs, ps, ret = parse_sig(s)
            except ValueError as e:
                skipped[name + " " + s] = "unparsed signature"
                continue
            made = 0
            for attempt in range(per_overload * 4):
                if made >= per_overload:
                    break
                b = {g: rng.choice(INST_TYPES) for g in gs}
                nopt = sum(1 for _, r in ps if not r)
                k = len(ps) - nopt + rng.randint(0, nopt)
                args = [pool.pick(subst(t, b), 0) for t, _ in ps[:k]]
                if any(a is None for a in args):
                    continue
                made += 1
                out.append((name, s, name + '(' + ', '.join(args) + ')', subst(ret, b)))
            if made and any(pool.empty(subst(t, {g: 'int' for g in gs})) is not None for t, _ in ps):
                # once more with every container argument empty at run time (static element types known)
                pool.force_empty = True
                for attempt in range(3):
                    b = {g: rng.choice(INST_TYPES[:6] + [('T', ['int', 'str'])]) for g in gs}
                    args = [pool.pick(subst(t, b), 0) for t, _ in ps if _] or []
                    if args and not any(a is None for a in args):
                        out.append((name, s, name + '(' + ', '.join(args) + ')', subst(ret, b)))
                        break
                pool.force_empty = False
            if made == 0:
                skipped[name + " " + s] = "no argument values for a parameter type"
    for name in sorted(DYN_CALLS):
        if name not in sigs:
            continue
        for tys in DYN_CALLS[name]:
            for _ in range(per_overload):
                args = [pool.pick(t, 0) for t in tys]
                if any(a is None for a in args):
                    continue
                out.append((name, 'dyn ' + ', '.join(ts(t) for t in tys), name + '(' + ', '.join(args) + ')', None))
            if any(pool.empty(t) is not None for t in tys):
                pool.force_empty = True
                args = [pool.pick(t, 0) for t in tys]
                pool.force_empty = False
                if not any(a is None for a in args):
                    out.append((name, 'dyn ' + ', '.join(ts(t) for t in tys), name + '(' + ', '.join(args) + ')', None))
    return out, skipped


_SLOWDOWN = []


def slowdown():
    """how much slower than an idle machine a trivial request currently is (deadlines scale with it, so that a busy
    machine does not turn ordinary requests into `hangs` and lose their verdicts)"""
    if not _SLOWDOWN:
        t = time.time()
        run_harness([{"op": "run", "src": "let a = 1 + 1;\n", "get": ["a"]}], per_req_timeout=120.0)
        _SLOWDOWN.append(min(6.0, max(1.0, (time.time() - t) / 0.25)))
    return _SLOWDOWN[0]


def run_sliced(reqs, per_req_timeout=5.0, width=96):
    """run_harness in slices small enough that one request that hangs natively costs seconds, not the whole chunk budget"""
    per_req_timeout = per_req_timeout * slowdown()
    out = []
    for i in range(0, len(reqs), width):
        out.extend(run_harness(reqs[i:i + width], per_req_timeout=per_req_timeout))
    # a request that timed out on a busy machine is asked once more, alone and with a long deadline, before it counts as a hang
    again = [i for i, r in enumerate(out) if "hang" in r][:32]
    if again:
        with ThreadPoolExecutor(max_workers=8) as ex:
            for i, r in zip(again, ex.map(lambda i: run_harness([reqs[i]], per_req_timeout=25.0 * slowdown())[0], again)):
                out[i] = r
    return out


def fail_of(r):
    if "panic" in r:
        return "panic", r["panic"]
    if "abort" in r:
        return "abort", str(r["abort"])
    if "hang" in r:
        return "hang", ""
    return None


def panic_key(kind, detail):
    if kind == "panic":
        m = re.match(r'(\S+?):(\d+):', detail)
        loc = (m.group(1) + ":" + m.group(2)) if m else detail[:60]
        loc = loc.replace("/repo/", "")
        return "panic:" + loc
    return kind


def run_bindings(chk, items, limits, tag, chunk=24, with_types=True, prelude=LIB_PRELUDE):
    """items: [(label, expr, forcing suffix or None)] each run as `let r<j> = expr;` (+ `let s<j> = force;`).
    Batched; a batch that fails as a whole is re-run one item per program. Returns per item
    dict(outcome=ok|compile|viol|panic|abort|hang, dump, forced, type, detail, src)."""
    res = [None] * len(items)

    def mk(idx):
        lines = []
        names = []
        for j in idx:
            lines.append(f"let r{j} = {items[j][1]};")
            names.append(f"r{j}")
            if items[j][2]:
                lines.append(f"let s{j} = {items[j][2].replace('$', f'r{j}')};")
                names.append(f"s{j}")
        return {"op": "typing", "f": "run", "src": prelude + "\n".join(lines) + "\n", "get": names, "types": names if with_types else [], "limits": limits}

    def settle(j, r, req):
        f = fail_of(r)
        d = {"src": req["src"], "limits": limits}
        if f:
            d.update(outcome=f[0], detail=f[1])
        elif r.get("compile") != "ok":
            c = r.get("compile")
            d.update(outcome="compile", detail=(c.get("class", "?") + ": " + c.get("msg", "")[:200]) if isinstance(c, dict) else str(c))
        elif r.get("inst") != "ok":
            d.update(outcome="viol", detail=r["inst"]["viol"])
        else:
            d.update(outcome="ok", dump=r["vals"].get(f"r{j}"), forced=r["vals"].get(f"s{j}"),
                     type=r.get("types", {}).get(f"r{j}"), ftype=r.get("types", {}).get(f"s{j}"))
        res[j] = d

    batches = [list(range(i, min(i + chunk, len(items)))) for i in range(0, len(items), chunk)]
    reqs = [mk(b) for b in batches]
    resps = run_sliced(reqs)
    singles = []
    for b, r, q in zip(batches, resps, reqs):
        ok = fail_of(r) is None and r.get("compile") == "ok" and r.get("inst") == "ok"
        if ok or len(b) == 1:
            for j in b:
                settle(j, r, q)
        else:
            singles.extend(b)
    if singles:
        reqs = [mk([j]) for j in singles]
        resps = run_sliced(reqs)
        for j, r, q in zip(singles, resps, reqs):
            settle(j, r, q)
    chk.count(f"{tag}:programs", len(batches) + len(singles))
    return res


# ------------------------------------------------------------------------------------------------ (c) shape of a dump

def parse_dump(s):
    """dump text -> nested python list (atoms as strings); string literals kept as one atom"""
    toks = re.findall(r'"(?:\\.|[^"\\])*"|[()]|[^\s()]+', s)
    stack = [[]]
    for t in toks:
        if t == '(':
            stack.append([])
        elif t == ')':
            x = stack.pop()
            stack[-1].append(x)
        else:
            stack[-1].append(t)
    return stack[0][0] if stack[0] else None


def shape_ok(d, t, structs=None):
    """does the dumped value d have the shape of static type t? Returns None if ok, else a reason."""
    if not isinstance(d, list) or not d:
        return "not a value dump"
    head = d[0]
    if head == 'error':
        return None                       # an error value inhabits every type
    if t == 'int':
        return None if head == 'int' and len(d) == 3 and d[1] in ('S', 'L') and re.fullmatch(r'-?\d+', d[2]) else f"{head} where int expected"
    if t == 'float':
        return None if head == 'float' else f"{head} where float expected"
    if t == 'bool':
        return None if head == 'bool' else f"{head} where bool expected"
    if t == 'str':
        return None if head == 'str' else f"{head} where str expected"
    if t == '?':
        return f"a value ({head}) of the type without values"
    if t[0] == 'G':
        return None
    if t[0] == 'T':
        if head != 'struct' or len(d) - 1 != len(t[1]):
            return f"{head}/{len(d) - 1} where a {len(t[1])}-tuple expected"
        for x, xt in zip(d[1:], t[1]):
            r = shape_ok(x, xt)
            if r:
                return r
        return None
    if t[0] == 'F':
        return None if head == 'fn' else f"{head} where a function expected"
    name, args = t[1], t[2]
    if name == 'Sequence':
        if head == 'lazyseq':
            return None
        if head != 'seq':
            return f"{head} where Sequence expected"
        for x in d[1:]:
            r = shape_ok(x, args[0])
            if r:
                return r
        return None
    if name == 'Optional':
        if head == 'none' and len(d) == 1:
            return None
        if head == 'some' and len(d) == 2:
            return shape_ok(d[1], args[0])
        return f"{head} where Optional expected"
    if name == 'Stack':
        if head != 'stack':
            return f"{head} where Stack expected"
        for x in d[1:]:
            r = shape_ok(x, args[0])
            if r:
                return r
        return None
    if head in ('native', 'struct', 'union'):
        return None                       # other natives are opaque; compounds are checked by arity where known
    return f"{head} where {name} expected"


def short_loc(detail):
    m = re.match(r'(\S+?):(\d+):\s*(.*)', detail)
    if not m:
        return detail[:60]
    path = m.group(1)
    if "/src/" in path and "/.cargo/" not in path and "/rustc/" not in path:
        path = "src/" + path.split("/src/", 1)[1]        # the interpreter's own sources, wherever the tree is checked out
    elif path.startswith("/"):
        path = "/".join(path.split("/")[-2:])
    return f"{path}:{m.group(2)}"


def report_failure(chk, tag, label, r, extra=None):
    """a panic / abort of the interpreter on an accepted program is a C01 violation; a hang is counted (C10's subject)"""
    kind = r["outcome"]
    if kind == "hang":
        chk.count(f"{tag}:hang")
        hs = chk.coverage.setdefault("hangs_seen_not_judged_here", [])
        if len(hs) < 12:
            hs.append({"what": label, "src": r["src"][-400:], "limits": r.get("limits", {})})
        return
    where = short_loc(r["detail"]) if kind == "panic" else "abort"
    replay = {"src": r["src"], "limits": r.get("limits", {}), "what": label, "failure": kind + " " + r["detail"][:300]}
    if extra:
        replay.update(extra)
    chk.violation(f"{tag}:{kind}:{where}",
                  f"the interpreter itself failed on a program the compiler accepted ({label}): {kind} {r['detail'][:200]}; program: {r['src'][:300]!r}",
                  replay)


def library_search(chk, per_overload):
    rng = chk.rng
    sigs = library_signatures()
    n_over = sum(len(v) for v in sigs.values())
    chk.coverage["library_names"] = len(sigs)
    chk.coverage["library_overloads"] = n_over
    chk.coverage["library_dynamic_overloads"] = sum(1 for v in sigs.values() for s in v if s.startswith("dyn:"))
    calls, skipped = gen_calls(rng, sigs, per_overload)
    chk.coverage["library_overloads_without_values"] = sorted(skipped)[:40]
    items = [(n + ' ' + s, e, force_expr('$', t) if t is not None else None, t) for n, s, e, t in calls]
    reached, ran = set(), set()
    first_pass = []
    for li, limits in enumerate(LIB_LIMITS):
        res = run_bindings(chk, items, limits, f"lib{li}")
        if li == 0:
            first_pass = res
        for it, r in zip(items, res):
            chk.evaluations += 1
            chk.count(f"lib{li}:{r['outcome']}")
            if r["outcome"] in ("panic", "abort", "hang"):
                report_failure(chk, "lib", "library call " + it[0], r)
                reached.add(it[0])
                continue
            if r["outcome"] == "compile":
                continue
            reached.add(it[0])
            if r["outcome"] != "ok":
                continue
            ran.add(it[0])
            chk.nontrivial.add(it[1])
            # (c) shape of the value against the compiler's static type
            for dump, tytext, what in ((r["dump"], r.get("type"), "result"), (r.get("forced"), r.get("ftype"), "forced result")):
                if dump is None or tytext is None or tytext.startswith("!"):
                    continue
                try:
                    t = parse_type(tytext)
                except ValueError:
                    chk.count("shape:unparsed-type")
                    continue
                chk.count("shape:checked")
                why = shape_ok(parse_dump(dump), t)
                if why:
                    chk.violation(f"shape:lib:{it[0].split(' ')[0]}",
                                  f"the value of a library call does not have the shape of its static type {tytext}: {why}; call {it[1]!r} gave {dump[:200]}",
                                  {"src": r["src"], "limits": limits, "static_type": tytext, "dump": dump})
    # second pass: the values that came out are USED according to their static type (member of a tuple, length of a
    # sequence, has_value of an optional ..): a value of the wrong shape makes the interpreter itself fail here
    follow = []
    for it, r in zip(items, first_pass):
        if r["outcome"] != "ok" or not r.get("type") or r["type"].startswith("!"):
            continue
        try:
            t = parse_type(r["type"])
        except ValueError:
            continue
        f = use_expr('$', t) or followup_expr('$', t)
        if f:
            follow.append((it[0] + " then " + f.replace('$', 'result'), it[1], f))
            if not isinstance(t, str) and t[0] == 'T' and len(t[1]) > 1:
                follow.append((it[0] + " then last member", it[1], f'$::item{len(t[1]) - 1}'))
    res = run_bindings(chk, follow, LIB_LIMITS[0], "libuse")
    for it, r in zip(follow, res):
        chk.evaluations += 1
        chk.count(f"libuse:{r['outcome']}")
        if r["outcome"] in ("panic", "abort", "hang"):
            report_failure(chk, "lib-use", "library call " + it[0], r)
        elif r["outcome"] == "ok" and r.get("forced") and r.get("ftype") and not r["ftype"].startswith("!"):
            try:
                why = shape_ok(parse_dump(r["forced"]), parse_type(r["ftype"]))
            except ValueError:
                why = None
            chk.count("shape:checked")
            if why:
                chk.violation(f"shape:lib-use:{it[0].split(' ')[0]}", f"a use of a library result does not have the shape of its static type {r['ftype']}: {why}; {it[0]}: {it[1]!r} gave {r['forced'][:200]}",
                              {"src": r["src"], "limits": LIB_LIMITS[0], "static_type": r["ftype"], "dump": r["forced"]})
    chk.coverage["library_overloads_reached"] = len(reached)
    chk.coverage["library_overloads_run_to_a_value"] = len(ran)
    all_static = set(n + ' ' + s for n in sigs for s in sigs[n] if not s.startswith("dyn:"))
    chk.coverage["library_static_overloads_never_accepted"] = sorted(all_static - reached)[:60]
    return sigs


# ================================================================================================ mutations of shipped programs

def book_blocks():
    out = []
    for f in sorted(glob.glob(os.path.join(REPO, "book", "src", "**", "*.md"), recursive=True)):
        txt = open(f, errors="replace").read()
        for i, m in enumerate(re.finditer(r"```xray[^\n]*\n(.*?)```", txt, re.S)):
            out.append((os.path.relpath(f, REPO) + f"#{i}", m.group(1)))
    return out


def shipped_programs():
    out = []
    for f in sorted(glob.glob(os.path.join(REPO, "test_scripts", "*.xr"))):
        out.append((os.path.relpath(f, REPO), open(f, errors="replace").read()))
    return out + book_blocks()


TOKEN = re.compile(r'//[^\n]*|/\*.*?\*/|[rf]?"(?:\\.|[^"\\])*"|[rf]?\'(?:\\.|[^\'\\])*\'|\d+\.\d+(?:[eE][-+]?\d+)?|\d[\d_]*|[A-Za-z_][A-Za-z0-9_]*|\s+|.', re.S)
MUT_INTS = ["0", "1", "(-1)", "2", "64", "1000000", "2**31", "2**63", "(-(2**63))", "2**64", "10**30", "(-7)"]
MUT_STRS = ['""', '"é"', '"aİb"', '"日本語"', '"a"', '" "']
MUT_FLOATS = ["0.0", "(-1.5)", "1e308", "1e-300", "0.5"]


def mutate_text(rng, src):
    """one value-level mutation that usually keeps the program well-typed: a literal replaced by an edge value of its
    type, a boolean flipped, two arguments of a call swapped, an argument dropped"""
    toks = TOKEN.findall(src)
    idx = {"int": [], "str": [], "float": [], "bool": [], "comma": []}
    for i, t in enumerate(toks):
        if re.fullmatch(r'\d[\d_]*', t):
            if not (i > 0 and re.fullmatch(r'[A-Za-z_][A-Za-z0-9_]*', toks[i - 1])):   # not part of item0 etc. (tokenised apart anyway)
                idx["int"].append(i)
        elif re.fullmatch(r'\d+\.\d+(?:[eE][-+]?\d+)?', t):
            idx["float"].append(i)
        elif t[:1] in '"\'' and len(t) >= 2:
            idx["str"].append(i)
        elif t in ("true", "false"):
            idx["bool"].append(i)
        elif t == ",":
            idx["comma"].append(i)
    kinds = [k for k in idx if idx[k]]
    if not kinds:
        return None, None
    k = rng.choice([x for x in kinds for _ in range({"int": 6, "str": 3, "float": 2, "bool": 1, "comma": 1}[x])])
    i = rng.choice(idx[k])
    toks = list(toks)
    if k == "int":
        # `::item3`, `x.item0` are identifiers; a digit run directly after `item` was tokenised with it
        toks[i] = rng.choice(MUT_INTS)
    elif k == "str":
        toks[i] = rng.choice(MUT_STRS)
    elif k == "float":
        toks[i] = rng.choice(MUT_FLOATS)
    elif k == "bool":
        toks[i] = "false" if toks[i] == "true" else "true"
    else:
        toks[i] = rng.choice([", 0,", ",", " "]) if rng.random() < 0.5 else ","
        if toks[i] == ",":
            # drop the argument that follows (up to the next comma / closing bracket at the same depth)
            j, depth = i + 1, 0
            while j < len(toks):
                if toks[j] in "([{":
                    depth += 1
                elif toks[j] in ")]}":
                    if depth == 0:
                        break
                    depth -= 1
                elif toks[j] == "," and depth == 0:
                    break
                j += 1
            del toks[i:j]
    return "".join(toks), k


SCRIPT_LIMITS = [
    {"search": 20000, "size": 60000000, "time_ms": 2500, "depth": 300, "ud_calls": 200000, "allow": ["regex", "now", "random", "print"], "forbid": ["sleep"]},
    {"search": 30, "size": 30000, "time_ms": 2500, "depth": 10, "ud_calls": 25, "recursion": 20, "forbid": ["sleep"]},
]


def names_of_program(src):
    lets = re.findall(r'^\s*let\s+([A-Za-z_][A-Za-z0-9_]*)', src, re.M)
    fns = re.findall(r'^fn\s+([A-Za-z_][A-Za-z0-9_]*)\s*\(\s*\)', src, re.M)
    seen, l2 = set(), []
    for n in lets:
        if n not in seen and not re.fullmatch(r'item\d+.*', n):
            seen.add(n)
            l2.append(n)
    return l2, sorted(set(fns))


def script_search(chk, n_mut):
    rng = chk.rng
    progs = shipped_programs()
    chk.coverage["shipped_programs"] = len(progs)
    reqs, meta = [], []
    # every shipped program unmutated under the small configuration, then mutants
    for name, src in progs:
        lets, fns = names_of_program(src)
        reqs.append({"op": "typing", "f": "run", "src": src, "get": lets, "types": lets, "calls": fns, "limits": SCRIPT_LIMITS[1]})
        meta.append((name, "original", SCRIPT_LIMITS[1]))
    for _ in range(n_mut):
        name, src = rng.choice(progs)
        m, kind = mutate_text(rng, src)
        if m is None or m == src:
            continue
        if rng.random() < 0.3:
            m2, k2 = mutate_text(rng, m)
            if m2:
                m, kind = m2, kind + "+" + k2
        lets, fns = names_of_program(m)
        lim = SCRIPT_LIMITS[0] if rng.random() < 0.6 else SCRIPT_LIMITS[1]
        reqs.append({"op": "typing", "f": "run", "src": m, "get": lets, "types": lets, "calls": fns, "limits": lim})
        meta.append((name, "mut-" + kind, lim))
    resps = run_sliced(reqs)
    for (name, kind, lim), q, r in zip(meta, reqs, resps):
        chk.evaluations += 1
        f = fail_of(r)
        tag = "script-" + kind.split("-")[0]
        if f:
            chk.count(f"{tag}:{f[0]}")
            report_failure(chk, "script", f"{kind} of {name}", {"outcome": f[0], "detail": f[1], "src": q["src"], "limits": lim},
                           {"get": q["get"], "calls": q["calls"]})
            continue
        if r.get("compile") != "ok":
            chk.count(f"{tag}:rejected")
            continue
        chk.count(f"{tag}:accepted")
        chk.nontrivial.add(q["src"])
        if r.get("inst") != "ok":
            chk.count(f"{tag}:viol")
            continue
        for n in q["get"]:
            dump, tytext = r["vals"].get(n), r.get("types", {}).get(n)
            if dump is None or dump.startswith("!") or tytext is None or tytext.startswith("!") or " | " in tytext:
                continue
            try:
                t = parse_type(tytext)
            except ValueError:
                chk.count("shape:unparsed-type")
                continue
            chk.count("shape:checked")
            why = shape_ok(parse_dump(dump), t)
            if why:
                chk.violation(f"shape:script:{name}:{n}",
                              f"binding {n} of {kind} of {name} does not have the shape of its static type {tytext}: {why}; dump {dump[:200]}",
                              {"src": q["src"], "limits": lim, "get": [n], "static_type": tytext, "dump": dump})
        for c in r.get("calls", []):
            if isinstance(c, str) and c.startswith("!tailcall"):
                chk.violation("script:tailcall-escaped", f"a zero-argument function of {kind} of {name} returned an unresolved tail call to the host",
                              {"src": q["src"], "limits": lim, "calls": q["calls"]})


# ================================================================================================ declaration structure

def split_decls(src):
    """top-level pieces of a declaration list: [(text, kind)] where kind is 'decl' (ends in `;` or a closing brace at
    depth 0) or 'tail' (a trailing expression); comments and strings are skipped as tokens"""
    toks = TOKEN.findall(src)
    out, cur, depth = [], [], 0
    for t in toks:
        cur.append(t)
        if t in ('(', '[', '{'):
            depth += 1
        elif t in (')', ']', '}'):
            depth -= 1
            if depth == 0 and t == '}' and re.match(r'\s*(fn|struct|union)\b', "".join(cur)):
                out.append(("".join(cur), 'decl'))
                cur = []
        elif t == ';' and depth == 0:
            out.append(("".join(cur), 'decl'))
            cur = []
        if depth < 0:
            return None
    rest = "".join(cur)
    if rest.strip():
        out.append((rest, 'tail'))
    return out if depth == 0 else None


def mutate_decls(rng, pieces):
    """one structural change of a declaration list (the trailing expression stays last)"""
    idx = [i for i, (t, k) in enumerate(pieces) if k == 'decl']
    if len(idx) < 2:
        return None, None
    ps = list(pieces)
    kind = rng.choice(['move', 'move', 'swap', 'delete', 'dup-forward', 'move-use-early'])
    if kind == 'move':
        i = rng.choice(idx)
        x = ps.pop(i)
        ps.insert(rng.choice([j for j in range(len(idx)) if j != i] or [0]), x)
    elif kind == 'swap':
        i = rng.choice(idx[:-1])
        ps[i], ps[i + 1] = ps[i + 1], ps[i]
    elif kind == 'delete':
        del ps[rng.choice(idx)]
    elif kind == 'dup-forward':
        fw = [i for i in idx if re.match(r'\s*forward\b', ps[i][0])]
        if not fw:
            return None, None
        ps.insert(rng.choice(idx), ps[rng.choice(fw)])
    else:
        lets = [i for i in idx if re.match(r'\s*let\b', ps[i][0])]
        if not lets:
            return None, None
        i = rng.choice(lets)
        x = ps.pop(i)
        ps.insert(rng.randrange(0, i + 1), x)
    return ps, kind


def mutate_structure(rng, src):
    """a declaration-structure mutant of a program: at the top level or inside the body of one top-level function"""
    top = split_decls(src)
    if not top:
        return None, None
    fns = [i for i, (t, k) in enumerate(top) if k == 'decl' and re.match(r'\s*fn\b', t) and '{' in t]
    if fns and (rng.random() < 0.6 or len([1 for t, k in top if k == 'decl']) < 2):
        i = rng.choice(fns)
        t = top[i][0]
        a, b = t.index('{'), t.rindex('}')
        body = split_decls(t[a + 1:b])
        if body:
            m, kind = mutate_decls(rng, body)
            if m is not None:
                new = t[:a + 1] + "".join(x for x, _ in m) + t[b:]
                return "".join(x for x, _ in top[:i]) + new + "".join(x for x, _ in top[i + 1:]), "nested-" + kind
    m, kind = mutate_decls(rng, top)
    if m is None:
        return None, None
    return "".join(x if x.endswith("\n") else x + "\n" for x, _ in m), "top-" + kind


def forward_program(rng):
    """a program with 1-3 forward functions whose implementations call each other in a random graph, the implementations in a
    random order, and one USE (a call, the function taken as a value, a wrapper function, a lambda) at a random position;
    at the top level or inside a function body. No function value leaves its scope."""
    k = rng.choice([1, 2, 2, 2, 3, 3])
    names = [f"g{i}" for i in range(k)]
    fwd = [f"forward fn {n}(x: int)->int;\n" for n in names]
    impls = []
    for i, n in enumerate(names):
        callees = [m for m in names if rng.random() < 0.6] or [rng.choice(names)]
        rec = " + ".join(f"{m}(x - 1)" for m in callees)
        impls.append(f"fn {n}(x: int)->int{{\nif(x <= 0, {i + 1}, {rec})\n}}\n")
    rng.shuffle(impls)
    items = list(fwd)
    # a forward declaration may also come late (just before its implementation) or twice
    r = rng.random()
    if r < 0.15:
        items = items[:-1]
        impls.insert(rng.randrange(len(impls) + 1), fwd[-1])
    elif r < 0.25:
        items.append(rng.choice(fwd))
    elif r < 0.32 and len(impls) > 1:
        del impls[rng.randrange(len(impls))]          # an implementation is missing
    items += impls
    f = rng.choice(names)
    use = rng.choice([
        [f"let u = {f}(2);\n"],
        [f"let u = [{f}];\n"],
        [f"let h = {f};\n", "let u = h(2);\n"],
        [f"let w = (x: int)->{{{f}(x)}};\n", "let u = w(1);\n"],
        [f"fn w(x: int)->int{{\n{f}(x) + 1\n}}\n", "let u = w(1);\n"],
        [f"let u = ({f}, 1);\n"],
        [f"let u = if(true, {f}, {rng.choice(names)})(1);\n"],
        [f"let u = [1, 2].map({f}).to_array();\n"],
        # the use sits in a NESTED body, reached through a chain of wrappers defined at different times
        [f"fn w(x: int)->int{{\n{f}(x) + 1\n}}\n", "fn via(x: int)->int{\nw(x) * 2\n}\n", "let u = via(1);\n"],
        [f"fn w(x: int)->int{{\n{f}(x) + 1\n}}\n", "fn via(x: int)->int{\nfn inner(y: int)->int{\nw(y)\n}\ninner(x)\n}\n", "let u = via(1);\n"],
        [f"fn via(x: int)->int{{\nlet k = (y: int)->{{{f}(y)}};\nk(x)\n}}\n", "let u = via(2);\n"],
        [f"fn w()->int{{\n{f}(1)\n}}\n", "fn via()->int{\nw()\n}\n", "let u = via();\n"],
    ])
    lo = len(fwd) if rng.random() < 0.8 else 0
    if len(use) > 1 and rng.random() < 0.6:
        # the pieces keep their order but are spread over the declaration list
        cuts = sorted(rng.randrange(lo, len(items) + 1) for _ in use)
        for piece, c in reversed(list(zip(use, cuts))):
            items.insert(c, piece)
    else:
        pos = rng.randrange(lo, len(items) + 1)
        items = items[:pos] + use + items[pos:]
    if rng.random() < 0.4:
        return "fn main0()->int{\n" + "".join(items) + "7\n}\nlet r = main0();\n", f"nested-k{k}"
    return "".join(items), f"top-k{k}"


def decl_part(chk, n_gen, n_mut):
    """Whatever the compiler accepts must instantiate and run every binding: declaration-structure mutants of the shipped
    programs (a declaration moved / swapped / deleted, a forward duplicated, a `let` moved up) and generated programs with
    forward functions. Rejections are not judged here."""
    rng = chk.rng
    progs = shipped_programs()
    with_fwd = [p for p in progs if 'forward' in p[1]]
    reqs, meta = [], []
    for _ in range(n_gen):
        src, tag = forward_program(rng)
        lets, fns = names_of_program(src)
        reqs.append({"op": "typing", "f": "run", "src": src, "get": lets, "types": lets, "calls": fns, "limits": SCRIPT_LIMITS[0]})
        meta.append(("generated forward program " + tag, "gen-" + tag.split("-")[0]))
    for _ in range(n_mut):
        name, src = rng.choice(with_fwd) if (with_fwd and rng.random() < 0.5) else rng.choice(progs)
        m, kind = mutate_structure(rng, src)
        if m is None or m == src:
            continue
        if rng.random() < 0.25:
            m2, k2 = mutate_structure(rng, m)
            if m2:
                m, kind = m2, kind + "+" + k2
        lets, fns = names_of_program(m)
        reqs.append({"op": "typing", "f": "run", "src": m, "get": lets, "types": lets, "calls": fns, "limits": SCRIPT_LIMITS[0]})
        meta.append((f"{kind} of {name}", "mut-" + kind.split("-")[0]))
    resps = run_sliced(reqs)
    for (label, tag), q, r in zip(meta, reqs, resps):
        chk.evaluations += 1
        f = fail_of(r)
        if f:
            if f[0] == "panic" and "ran out of scope parents" in f[1]:
                chk.count("decl:known-c03-fwd-escape")      # C03's finding c03:fwd-escape:panic (a closure that captured a pending forward left its scope)
                continue
            chk.count(f"decl:{tag}:{f[0]}")
            report_failure(chk, "decl", label, {"outcome": f[0], "detail": f[1], "src": q["src"], "limits": q["limits"]}, {"get": q["get"], "calls": q["calls"]})
            continue
        acc = r.get("compile") == "ok"
        chk.count(f"decl:{tag}:{'accepted' if acc else 'rejected'}")
        if acc:
            chk.nontrivial.add(q["src"])
            for c in r.get("calls", []):
                if isinstance(c, str) and c.startswith("!tailcall"):
                    chk.violation("decl:tailcall-escaped", f"a zero-argument function of a {label} returned an unresolved tail call to the host", {"src": q["src"], "calls": q["calls"]})


# ================================================================================================ defaults x parameter type forms

def use_expr(name, t, depth=0):
    """an expression that USES a value of static type t all the way down (members of tuples, elements of sequences, the
    content of optionals): a value of another shape makes the interpreter fail here. None if t has no use."""
    if isinstance(t, str):
        return {'int': f'({name} + 1)', 'float': f'({name} + 1.0)', 'bool': f'(!{name})', 'str': f'{name}.len()'}.get(t)
    if depth > 2 or '?' in ts(t):
        return followup_expr(name, t)
    if t[0] == 'T':
        parts = [use_expr(f'{name}::item{i}', x, depth + 1) for i, x in enumerate(t[1])]
        parts = [x for x in parts if x]
        if not parts:
            return None
        return '(' + ', '.join(parts) + (',' if len(parts) == 1 else '') + ')'
    if t[0] == 'F':
        return None
    if t[0] != 'N':
        return None
    if t[1] in ('Sequence', 'Optional') and t[2]:
        v = f'v{depth}'
        inner = use_expr(v, t[2][0], depth + 1)
        if inner:
            pre = f'{name}.take(3)' if t[1] == 'Sequence' else name
            post = '.to_array()' if t[1] == 'Sequence' else ''
            return f'{pre}.map(({v}: {ts(t[2][0])})->{{{inner}}}){post}'
    return followup_expr(name, t)


GD_INST = ['int', 'str', 'float', 'bool', SEQ('int'), ('T', ['int', 'str']), OPT('str')]
GD_VALUE = {'int': ['7', '0', '2**64'], 'str': ['"abc"', '""', '"é"'], 'float': ['1.5', '0.0'], 'bool': ['true', 'false'],
            'Sequence<int>': ['[1, 2]', 'range(3)', '[5].take(0)'], '(int, str)': ['(1, "a")'], 'Optional<str>': ['some("s")', 'if(false, some("q"), none())']}


def gd_value(rng, t):
    return rng.choice(GD_VALUE[ts(t)])


def generic_default_program(rng):
    """one function with a trailing optional parameter of some parameter-type form (a generic, a generic inside a container or
    tuple, or a concrete type form) and a default that is concrete / generic-neutral / refers to an earlier parameter, and calls
    that bind the generics to each instantiation through the other arguments, omitting or supplying the optional argument"""
    ngen = rng.choice([0, 1, 1, 1, 2])
    gens = ['T', 'U'][:ngen]
    G = lambda n: ('G', n)
    # required parameters: every generic occurs in one of them (directly or inside a container), so calls can bind it
    req = [('flag', 'bool')]
    for g in gens:
        form = rng.choice(['plain', 'plain', 'seq', 'opt'])
        req.append((f'a{g.lower()}', {'plain': G(g), 'seq': SEQ(G(g)), 'opt': OPT(G(g))}[form]))
    if rng.random() < 0.4:
        req.append(('n', rng.choice(['int', 'str'])))
    # the optional parameter
    if gens:
        g = rng.choice(gens)
        forms = [G(g), G(g), SEQ(G(g)), OPT(G(g)), ('T', [G(g), 'int'])]
        if len(gens) == 2:
            forms += [('T', [G('T'), G('U')]), SEQ(('T', [G('T'), G('U')]))]
        ot = rng.choice(forms)
    else:
        ot = rng.choice(['int', 'str', 'float', 'bool', SEQ('int'), OPT('str'), ('T', ['int', 'str']), ('F', ['int'], 'int'), SEQ(SEQ('str'))])
    inst0 = {g: rng.choice(GD_INST[:4]) for g in gens}

    def value_of(t, b):
        t = subst(t, b)
        if isinstance(t, str):
            return gd_value(rng, t)
        if t[0] == 'T':
            return '(' + ', '.join(value_of(x, b) for x in t[1]) + (',' if len(t[1]) == 1 else '') + ')'
        if t[0] == 'F':
            return '(q: int)->{q * 2}'
        if ts(t) in GD_VALUE:
            return gd_value(rng, t)
        if t[1] == 'Sequence':
            return '[' + value_of(t[2][0], b) + ']'
        if t[1] == 'Optional':
            return 'some(' + value_of(t[2][0], b) + ')'
        return 'error("v")'
    kind = rng.choice(['concrete', 'concrete', 'neutral', 'earlier', 'other-type'])
    if kind == 'concrete':
        dflt = value_of(ot, inst0)                       # right for one instantiation only (if the type is generic)
    elif kind == 'neutral':
        dflt = 'error("dflt")' if (isinstance(ot, str) or ot[0] in ('G', 'T', 'F')) else {'Sequence': '[]', 'Optional': 'none()'}.get(ot[1], 'error("dflt")')
    elif kind == 'earlier':
        dflt = req[-1][0]
    else:
        dflt = rng.choice(['0', '"s"', '[1]', 'some(1.5)', '(1, 2)', 'true'])
    # the result mentions the optional parameter
    body, ret = rng.choice([
        ('opt', ot),
        ('[opt, opt]', SEQ(ot)),
        ('(opt, flag)', ('T', [ot, 'bool'])),
        ('some(opt)', OPT(ot)),
        ('if(flag, opt, opt)', ot),
    ])
    head = 'fn gd' + ('<' + ', '.join(gens) + '>' if gens else '') + '(' + ', '.join(f'{n}: {ts(t)}' for n, t in req) + f', opt: {ts(ot)} ?= {dflt})->{ts(ret)}' + '{\n' + body + '\n}\n'
    lines = [head]
    names = []
    for i in range(rng.choice([4, 6, 8])):
        b = {g: rng.choice(GD_INST) for g in gens}
        args = [value_of(t, b) if n != 'flag' else rng.choice(['true', 'false']) for n, t in req]
        if rng.random() < 0.4:
            args.append(value_of(ot, b))
        lines.append(f'let r{i} = gd(' + ', '.join(args) + ');\n')
        names.append(f'r{i}')
    return "".join(lines), names, f"{kind}-g{ngen}"


def default_param_part(chk, n):
    """default values x every parameter-type form (generic / generic inside a container / concrete): whatever declaration and
    calls the compiler accepts, every result must have the shape of its static type and survive a use according to that type"""
    rng = chk.rng
    progs = [generic_default_program(rng) for _ in range(n)]
    reqs = [{"op": "typing", "f": "run", "src": src, "get": names, "types": names, "limits": LIB_LIMITS[0]} for src, names, _ in progs]
    resps = run_sliced(reqs)
    second, smeta = [], []
    for (src, names, tag), q, r in zip(progs, reqs, resps):
        chk.evaluations += 1
        f = fail_of(r)
        if f:
            chk.count(f"dflt:{tag}:{f[0]}")
            report_failure(chk, "dflt", f"function with a defaulted parameter ({tag})", {"outcome": f[0], "detail": f[1], "src": src, "limits": q["limits"]}, {"get": names})
            continue
        if r.get("compile") != "ok":
            # one ill-typed call must not hide the others: keep the calls that compile one by one
            chk.count(f"dflt:{tag}:rejected")
            lines = src.split("\n")
            head_end = next(i for i, l in enumerate(lines) if l == "}") + 1
            for l in lines[head_end:]:
                if l.startswith("let "):
                    n1 = l.split(" ")[1]
                    second.append({"op": "typing", "f": "run", "src": "\n".join(lines[:head_end]) + "\n" + l + "\n", "get": [n1], "types": [n1], "limits": LIB_LIMITS[0]})
                    smeta.append((tag + "-single", [n1]))
            continue
        chk.count(f"dflt:{tag}:accepted")
        chk.nontrivial.add(src)
        if r.get("inst") != "ok":
            continue
        second.append(q)
        smeta.append((tag, names))
    # judge every accepted program: shape of each binding, then a use of each binding according to its static type
    uses, umeta = [], []
    for (tag, names), q, r in zip(smeta, second, run_sliced([dict(x) for x in second]) if second else []):
        f = fail_of(r)
        if f:
            report_failure(chk, "dflt", f"function with a defaulted parameter ({tag})", {"outcome": f[0], "detail": f[1], "src": q["src"], "limits": q["limits"]}, {"get": names})
            continue
        if r.get("compile") != "ok" or r.get("inst") != "ok":
            continue
        chk.count("dflt:judged-programs")
        extra = []
        for n1 in names:
            dump, tt = r["vals"].get(n1), r.get("types", {}).get(n1)
            if not dump or not tt or dump.startswith("!") or tt.startswith("!"):
                continue
            try:
                t = parse_type(tt)
            except ValueError:
                continue
            chk.count("shape:checked")
            why = shape_ok(parse_dump(dump), t)
            if why:
                chk.violation(f"shape:dflt:{tag.split('-')[0]}", f"the result of a call that {'omits' if True else ''} or supplies a defaulted parameter does not have the shape of its static type {tt}: {why}; "
                              f"binding {n1} = {dump[:120]}; program {q['src']!r}", {"src": q["src"], "get": [n1], "limits": q["limits"], "static_type": tt, "dump": dump})
            u = use_expr(n1, t)
            if u:
                extra.append(f"let u_{n1} = {u};\n")
        if extra:
            uses.append({"op": "typing", "f": "run", "src": q["src"] + "".join(extra), "get": [], "types": [], "limits": LIB_LIMITS[0]})
            umeta.append(tag)
    for tag, q, r in zip(umeta, uses, run_sliced(uses) if uses else []):
        chk.evaluations += 1
        f = fail_of(r)
        chk.count("dflt:use:" + (f[0] if f else ("ok" if r.get("compile") == "ok" else "rejected")))
        if f:
            report_failure(chk, "dflt-use", f"results of calls of a function with a defaulted parameter ({tag}) used according to their static types",
                           {"outcome": f[0], "detail": f[1], "src": q["src"], "limits": q["limits"]})


# ================================================================================================ user overloads of trait functions

TRAIT_RET = {   # trait function -> (arity, right return type, wrong return types)
    'eq': (2, 'bool', ['int', 'str', 'Optional<bool>', 'SELF']),
    'cmp': (2, 'int', ['bool', 'str', 'float', 'SELF']),
    'hash': (1, 'int', ['str', 'bool', 'float']),
    'to_str': (1, 'str', ['int', 'Optional<str>', 'SELF']),
    'lt': (2, 'bool', ['int', 'str']),
    'add': (2, 'SELF', ['int', 'bool', 'Sequence<int>']),
}
TRAIT_VALUE = {'bool': ['true', 'false'], 'int': ['0', '1', '(-1)'], 'str': ['"s"'], 'float': ['1.5'], 'Optional<bool>': ['some(true)'],
               'Optional<str>': ['some("s")'], 'Sequence<int>': ['[1]']}
TRAIT_USES = [
    "$x == $y", "$x != $y", "$x < $y", "$x <= $y", "$x > $y", "$x >= $y", "cmp($x, $y)", "hash($x)", "$x.to_str()", "display($x)", 'f"<{$x}>"',
    "some($x) == some($y)", "some($x) != some($y)", "some($x) == none()", "[$x] == [$y]", "[$x, $y] != [$y]", "($x, 1) == ($y, 1)", "($x, 1) != ($y, 2)",
    "[$x] < [$y]", "($x, 1) < ($y, 1)", "($x, 1) >= ($y, 1)", "cmp([$x], [$y, $x])", "cmp(($x, 1), ($y, 1))", "stack().push($x) == stack().push($y)",
    "[$y, $x].sort()", "[$y, $x, $y].sort_reverse()", "max([$x, $y])", "min([$x, $y])", "max($x, $y)", "min($x, $y)", "[$x, $y].median()",
    "n_largest([$x, $y, $x], 2)", "nth_smallest([$x, $y], 1)", "rank_eq([$x, $y], $x)", "rank_avg([$x, $y], $y)",
    "[$x, $y, $x].distinct()", "[$x, $y].contains($y)", "[$x, $y, $x].count($x)", "[$x, $y, $x].to_generator().with_count().to_array()",
    "[$x, $y, $x].to_generator().group().to_array()", "[$x].to_str()", "some($x).to_str()", "($x, 1).to_str()", "display([$x, $y])",
    "hash([$x])", "hash(some($x))", "hash(($x, 1))", "set<$T>().update([$x, $y, $x]).len()", "set<$T>().update([$x]).contains($y)",
    "set<$T>().update([$x]) == set<$T>().update([$y])", "mapping<$T>().set($x, 1).set($y, 2).get($x)", "mapping<$T>().set($x, 1).len()",
    "mapping<$T>().set($x, 1) == mapping<$T>().set($y, 1)", "mapping<int>().set(1, $x) == mapping<int>().set(1, $y)",
    "[$x, $y].sum()", "[$x, $y].to_generator().sum()", "[$x, $y].to_generator().max()", "[$x, $y].to_generator().distinct().to_array()",
    "[$x, $y].to_generator().contains($x)", "[($x, 1), ($y, 2)].sort()", "[some($x), none()].sort()", "[[$x], [$y]].sort()", "json($x)",
]


def trait_needs(u):
    """the trait functions a use looks up (so that most generated uses can compile when the overloads are the right ones)"""
    need = set()
    if any(k in u for k in ('==', '!=', 'contains', 'count(', 'distinct', 'with_count', 'group', 'rank_eq')):
        need.add('eq')
    if any(k in u for k in ('hash(', 'set<', 'mapping<$T>', 'distinct', 'with_count', 'group')):
        need |= {'hash', 'eq'}
    if any(k in u for k in (' < ', ' <= ', ' > ', ' >= ', 'cmp(', 'sort', 'max', 'min', 'median', 'n_largest', 'nth_', 'rank_avg')):
        need.add('cmp')
    if any(k in u for k in ('to_str', 'display', 'f"', 'json')):
        need.add('to_str')
    if 'sum' in u:
        need.add('add')
    return need


def trait_program(rng):
    """a user compound (generic or not, struct or union) with user overloads - generic and non-generic - of the functions the
    library's derived functions look up (eq, cmp, hash, to_str, lt, add), each with the right or a wrong return type; then the
    compound used through every derived library function"""
    form = rng.choice(['box', 'box', 'pair', 'plain', 'plain2', 'union'])
    if form == 'box':
        decl, gens, gname = "struct Box<T>(v: T)\n", ['T'], 'Box<T>'
        inst = rng.choice([('Box<int>', 'Box(1)', 'Box(2)'), ('Box<str>', 'Box("a")', 'Box("b")'), ('Box<Sequence<int>>', 'Box([1])', 'Box([2, 3])')])
    elif form == 'pair':
        decl, gens, gname = "struct P<T, U>(a: T, b: U)\n", ['T', 'U'], 'P<T, U>'
        inst = ('P<int, str>', 'P(1, "a")', 'P(2, "b")')
    elif form == 'plain':
        decl, gens, gname = "struct N(v: int)\n", [], 'N'
        inst = ('N', 'N(1)', 'N(2)')
    elif form == 'plain2':
        decl, gens, gname = "struct Q(v: int, w: Sequence<str>)\n", [], 'Q'
        inst = ('Q', 'Q(1, ["a"])', 'Q(2, [])')
    else:
        decl, gens, gname = "union Un(i: int, s: str)\n", [], 'Un'
        inst = ('Un', 'Un::i(1)', 'Un::s("b")')
    ctype, x, y = inst
    lines = [decl]
    tags = []
    for tr in rng.sample(sorted(TRAIT_RET), rng.choice([2, 3, 3, 4, 5])):
        arity, right, wrong = TRAIT_RET[tr]
        generic = bool(gens) and rng.random() < 0.6
        ptype = gname if generic else ctype
        ok = rng.random() < 0.4
        ret = right if ok else rng.choice(wrong)
        rtext = ptype if ret == 'SELF' else ret
        body = 'a' if ret == 'SELF' else rng.choice(TRAIT_VALUE[ret])
        params = ', '.join(f'{n}: {ptype}' for n in ['a', 'b'][:arity])
        lines.append(f"fn {tr}" + ('<' + ', '.join(gens) + '>' if generic else '') + f"({params})->{rtext}{{\n{body}\n}}\n")
        tags.append(f"{tr}:{'g' if generic else 'c'}:{'right' if ok else 'wrong'}")
    defined = {t.split(':')[0] for t in tags}
    fitting = [u for u in TRAIT_USES if trait_needs(u) <= defined]
    uses = rng.sample(fitting, min(len(fitting), 9)) + rng.sample(TRAIT_USES, 4)
    lets = []
    for i, u in enumerate(uses):
        lets.append((f"t{i}", f"let t{i} = " + u.replace('$x', x).replace('$y', y).replace('$T', ctype) + ";\n"))
    return "".join(lines), lets, form + " " + ",".join(tags)


def judge_lets(chk, family, progs):
    """progs: [(head source, [(name, let line)], tag)]. Acceptance is not judged. A program rejected as a whole is retried one
    binding at a time. Whatever is accepted: no panic/abort, every binding has the shape of the compiler's static type, and a
    second program that uses every binding according to that type (use_expr) must not panic either."""
    def req(head, lets):
        return {"op": "typing", "f": "run", "src": head + "".join(l for _, l in lets), "get": [n for n, _ in lets], "types": [n for n, _ in lets], "limits": LIB_LIMITS[0]}
    first = [req(h, lets) for h, lets, _ in progs]
    todo = []
    for (head, lets, tag), q, r in zip(progs, first, run_sliced(first)):
        chk.evaluations += 1
        f = fail_of(r)
        if f or r.get("compile") != "ok":
            if f:
                chk.count(f"{family}:whole:{f[0]}")
                report_failure(chk, family, tag, {"outcome": f[0], "detail": f[1], "src": q["src"], "limits": q["limits"]}, {"get": q["get"]})
            else:
                chk.count(f"{family}:whole:rejected")
            for one in lets:
                todo.append((head, [one], tag, None))
        else:
            chk.count(f"{family}:whole:accepted")
            todo.append((head, lets, tag, r))
    singles = [req(h, lets) for h, lets, _, r in todo if r is None]
    sres = iter(run_sliced(singles)) if singles else iter([])
    uses, umeta = [], []
    for head, lets, tag, r in todo:
        q = req(head, lets)
        if r is None:
            r = next(sres)
            chk.evaluations += 1
            f = fail_of(r)
            if f:
                chk.count(f"{family}:single:{f[0]}")
                report_failure(chk, family, tag, {"outcome": f[0], "detail": f[1], "src": q["src"], "limits": q["limits"]}, {"get": q["get"]})
                continue
            chk.count(f"{family}:single:" + ("accepted" if r.get("compile") == "ok" else "rejected"))
        if r.get("compile") != "ok" or r.get("inst") != "ok":
            continue
        chk.nontrivial.add(q["src"])
        extra = []
        for n1, _ in lets:
            dump, tt = r["vals"].get(n1), r.get("types", {}).get(n1)
            if not dump or not tt or dump.startswith("!") or tt.startswith("!"):
                continue
            try:
                t = parse_type(tt)
            except ValueError:
                continue
            chk.count("shape:checked")
            why = shape_ok(parse_dump(dump), t)
            if why:
                chk.violation(f"shape:{family}", f"a binding does not have the shape of its static type {tt}: {why}; {n1} = {dump[:120]}; {tag}; program {q['src']!r}",
                              {"src": q["src"], "get": [n1], "limits": q["limits"], "static_type": tt, "dump": dump})
            u = use_expr(n1, t)
            if u:
                extra.append(f"let u_{n1} = {u};\n")
        if extra:
            uses.append({"op": "typing", "f": "run", "src": q["src"] + "".join(extra), "get": [], "types": [], "limits": LIB_LIMITS[0]})
            umeta.append(tag)
    for tag, q, r in zip(umeta, uses, run_sliced(uses) if uses else []):
        chk.evaluations += 1
        f = fail_of(r)
        chk.count(f"{family}:use:" + (f[0] if f else ("ok" if r.get("compile") == "ok" else "rejected")))
        if f:
            report_failure(chk, family + "-use", tag + " (results used according to their static types)", {"outcome": f[0], "detail": f[1], "src": q["src"], "limits": q["limits"]})


def trait_overload_part(chk, n):
    judge_lets(chk, "trait", [trait_program(chk.rng) for _ in range(n)])


# ================================================================================================ (a) core fragment

def ty_sexp(t):
    if isinstance(t, str):
        return {'int': 'int', 'bool': 'bool', 'str': 'str'}[t]
    if t[0] == 'tup':
        return '(tupT' + ''.join(' ' + ty_sexp(x) for x in t[1]) + ')'
    if t[0] == 'arr':
        return '(arrT ' + ty_sexp(t[1]) + ')'
    if t[0] == 'fn':
        return '(fnT (' + ' '.join(ty_sexp(x) for x in t[1]) + ') () ' + ty_sexp(t[2]) + ')'
    raise ValueError(t)


def tsx_expr(e):
    k = e[0]
    if k in ('i', 'b', 's', 'v'):
        return cg.sexp_expr(e)
    if k == 'c':
        return '(c ' + e[1] + ''.join(' ' + tsx_expr(a) for a in e[2]) + ')'
    if k == 'ce':
        return '(ce ' + tsx_expr(e[1]) + ''.join(' ' + tsx_expr(a) for a in e[2]) + ')'
    if k == 'lam':
        return '(lam (' + ' '.join(tsx_param(p) for p in e[1]) + ') (' + ' '.join(tsx_decl(d) for d in e[2]) + ') ' + tsx_expr(e[3]) + ')'
    if k == 'tup':
        return '(tup' + ''.join(' ' + tsx_expr(a) for a in e[1]) + ')'
    if k == 'arr':
        return '(arr' + ''.join(' ' + tsx_expr(a) for a in e[1]) + ')'
    if k == 'item':
        return f'(item {tsx_expr(e[1])} {e[2]})'
    raise ValueError(e)


def tsx_param(p):
    return f'(p {p[0]} {ty_sexp(p[1])})' if p[2] is None else f'(pd {p[0]} {ty_sexp(p[1])} {tsx_expr(p[2])})'


def tsx_decl(d):
    if d[0] == 'let':
        return f'(let {d[1]} {tsx_expr(d[2])})'
    if d[0] == 'fn':
        return (f'(fn {d[1]} (' + ' '.join(tsx_param(p) for p in d[2]) + f') {ty_sexp(d[3])} (' + ' '.join(tsx_decl(x) for x in d[4]) + ') ' + tsx_expr(d[5]) + ')')
    raise ValueError(d)


def tsx_program(ds):
    return '(prog ' + ' '.join(tsx_decl(d) for d in ds) + ')'


OTHER_LIT = {'i': [('s', 'a'), ('b', True)], 'b': [('i', 3), ('s', 'q1')], 's': [('i', 7), ('b', False)]}


class Mutator:
    """near-miss mutations of a core program: one node changed so that a typing rule is (usually) violated"""

    KINDS = ['arg-type', 'drop-arg', 'extra-arg', 'item-range', 'lit-type', 'unbound', 'call-nonfn', 'cond-type', 'ret-type', 'param-type']

    def __init__(self, rng):
        self.rng = rng

    def nodes(self, ds):
        """all (path) of expression nodes; a path is a list of keys into the nested tuples/lists"""
        out = []

        def ex(e, path):
            out.append((path, e))
            k = e[0]
            if k == 'c':
                for i, a in enumerate(e[2]):
                    ex(a, path + [2, i])
            elif k == 'ce':
                ex(e[1], path + [1])
                for i, a in enumerate(e[2]):
                    ex(a, path + [2, i])
            elif k == 'lam':
                for i, p in enumerate(e[1]):
                    if p[2] is not None:
                        ex(p[2], path + [1, i, 2])
                dl(e[2], path + [2])
                ex(e[3], path + [3])
            elif k in ('tup', 'arr'):
                for i, a in enumerate(e[1]):
                    ex(a, path + [1, i])
            elif k == 'item':
                ex(e[1], path + [1])

        def dl(decls, path):
            for i, d in enumerate(decls):
                if d[0] == 'let':
                    ex(d[2], path + [i, 2])
                elif d[0] == 'fn':
                    for j, p in enumerate(d[2]):
                        if p[2] is not None:
                            ex(p[2], path + [i, 2, j, 2])
                    dl(d[4], path + [i, 4])
                    ex(d[5], path + [i, 5])
        dl(ds, [])
        return out

    @staticmethod
    def get(tree, path):
        for k in path:
            tree = tree[k]
        return tree

    @staticmethod
    def allowed(fname):
        """replacement arguments for a call of `fname` that the real library does not give a meaning either"""
        lits = [('i', 5), ('b', True), ('s', 'zz'), ('tup', [('i', 1)])]
        if fname in ('to_str', 'display', 'eq', 'ne'):
            return lits[:3]
        if fname == 'len':
            return [lits[0], lits[1]]
        if fname in ('mul', 'add', 'lt', 'le', 'gt', 'ge'):
            return [lits[1], lits[3]]           # (str * int, str + str, ordering of strings exist in the library)
        return lits

    @staticmethod
    def put(tree, path, new):
        if not path:
            return new
        k = path[0]
        if isinstance(tree, tuple):
            l = list(tree)
            l[k] = Mutator.put(tree[k], path[1:], new)
            return tuple(l)
        l = list(tree)
        l[k] = Mutator.put(tree[k], path[1:], new)
        return l

    def mutate(self, ds):
        rng = self.rng
        nodes = self.nodes(ds)
        for _ in range(30):
            kind = rng.choice(self.KINDS)
            if kind in ('ret-type', 'param-type'):
                fns = [i for i, d in enumerate(ds) if d[0] == 'fn']
                if not fns:
                    continue
                i = rng.choice(fns)
                d = ds[i]
                if kind == 'ret-type':
                    new_t = ('fn', [], 'int')        # (see param-type: every primitive type has library operators of its own)
                    if d[3] == new_t:
                        continue
                    return ds[:i] + [(d[0], d[1], d[2], new_t, d[4], d[5])] + ds[i + 1:], kind
                if not d[2]:
                    continue
                j = rng.randrange(len(d[2]))
                p = d[2][j]
                # a function type: the library gives no meaning to comparing / printing / adding functions, whereas every
                # primitive type has its own `<=`, `==`, `to_str` .. outside the fragment
                new_t = ('fn', [], 'int')
                if p[1] == new_t:
                    continue
                ps = list(d[2])
                ps[j] = (p[0], new_t, p[2])
                return ds[:i] + [(d[0], d[1], ps, d[3], d[4], d[5])] + ds[i + 1:], kind
            path, e = rng.choice(nodes)
            new = None
            # the natives of the fragment are wider in the real library (len/mul on strings, display with a second argument,
            # to_str/eq/ne on tuples ..): a mutant must stay outside those extra signatures to be a near miss of the *fragment*
            parent = self.get(ds, path[:-2]) if len(path) >= 2 and path[-2] == 2 else None
            pname = parent[1] if (parent is not None and parent[0] == 'c') else None
            if kind == 'arg-type' and e[0] in ('c', 'ce') and e[2]:
                i = rng.randrange(len(e[2]))
                a = e[2][i]
                # (to_str / display / eq / ne of a tuple are library functions outside the modelled fragment)
                repl = rng.choice(self.allowed(e[1] if e[0] == 'c' else None))
                if a[0] in OTHER_LIT and repl[0] == a[0]:
                    continue
                args = list(e[2])
                args[i] = repl
                new = (e[0], e[1], args)
            elif kind == 'drop-arg' and e[0] in ('c', 'ce') and e[2]:
                args = list(e[2])
                del args[rng.randrange(len(args))]
                new = (e[0], e[1], args)
            elif kind == 'extra-arg' and e[0] in ('c', 'ce') and (e[0] == 'ce' or e[1] in ('if', 'and', 'or', 'not', 'neg', 'sub', 'mod') or e[1] not in cg.STRICT | {'if_error', 'is_error', 'display'}):
                new = (e[0], e[1], list(e[2]) + [rng.choice([('i', 1), ('b', False), ('s', 'x')])])
            elif kind == 'item-range' and e[0] == 'item':
                new = ('item', e[1], e[2] + rng.choice([1, 2, 3, 7]))
            elif kind == 'lit-type' and e[0] in OTHER_LIT:
                new = rng.choice(OTHER_LIT[e[0]])
                if new[0] not in [r[0] for r in self.allowed(pname)]:
                    continue
            elif kind == 'unbound' and e[0] == 'v':
                new = ('v', e[1] + '_nope')
            elif kind == 'call-nonfn' and e[0] == 'v':
                new = ('c', e[1], [])
            elif kind == 'cond-type' and e[0] == 'c' and e[1] in ('if', 'and', 'or', 'not') and e[2]:
                args = list(e[2])
                args[0] = rng.choice([('i', 1), ('s', 'c')])
                new = (e[0], e[1], args)
            if new is None:
                continue
            return self.put(ds, path, new), kind
        return None, None


CORE_SWEEP = [(None, None, None), (3, None, None), (None, 4, None), (None, None, 1), (40, 200, 50), (1, 1, 0), (6, 30, 3)]


def core_part(chk, n_prog, n_mut):
    rng = chk.rng
    plain = cg.Printer(None, sugar=False)
    progs = []
    for i in range(n_prog):
        g = cg.Gen(rng, max_depth=rng.choice([3, 4, 5]), err_rate=rng.choice([0.0, 0.1]))
        progs.append(cg.ERR_PRELUDE + g.program(rng.choice([3, 5, 8])))
    # --- accept/reject: real compiler vs Lean checker, on the programs and on near-miss mutants
    cases = [(ds, "generated") for ds in progs]
    mut = Mutator(rng)
    for _ in range(n_mut):
        ds = rng.choice(progs)
        m, kind = mut.mutate(ds)
        if m is not None:
            cases.append((m, "near-miss:" + kind))
    srcs = [plain.program(ds) for ds, _ in cases]
    real = run_harness([{"op": "typing", "f": "types", "src": s, "names": cg.let_names(ds)} for s, (ds, _) in zip(srcs, cases)])
    model = run_model(["typing check " + tsx_program(ds) for ds, _ in cases])
    accepted = []
    for (ds, tag), src, r, m in zip(cases, srcs, real, model):
        chk.evaluations += 1
        f = fail_of(r)
        if f:
            report_failure(chk, "compile", f"compiling a {tag} program", {"outcome": f[0], "detail": f[1], "src": src, "limits": {}})
            continue
        racc = r.get("compile") == "ok"
        macc = m.startswith("ok")
        chk.count(f"core:{tag}:{'accepted' if racc else 'rejected'}")
        if m == "bad-op":
            chk.violation("tie:typing:bad-op", "the Lean checker could not read a generated program: " + tsx_program(ds)[:300], {"model_request": tsx_program(ds)}, no_input=True)
            continue
        if racc:
            accepted.append((ds, tag, src, macc, r.get("types", {})))
            chk.nontrivial.add(src)
        if racc != macc:
            # who is right is decided by running the program (below) when the compiler accepted it
            which = "compiler-accepts-checker-rejects" if racc else "compiler-rejects-checker-accepts"
            chk.violation(f"tie:typing:{which}:{tag.split(':')[-1]}",
                          f"the Lean checker of the core fragment and the real compiler disagree on a {tag} program ({which}): "
                          f"compiler={json.dumps(r.get('compile'))[:300]} checker={m[:200]} program={src[:400]!r}",
                          {"src": src, "model_request": "typing check " + tsx_program(ds), "compiler": r.get("compile"), "checker": m}, no_input=True)
        elif racc:
            # static types of the bindings: same text after normalising the two notations
            mt = dict(p.split("=", 1) for p in m.split(" ; ")[1:])
            for n in cg.let_names(ds):
                a, b = norm_type(r["types"].get(n, "")), norm_type(mt.get(n, ""))
                chk.count("core:static-type-compared")
                if a != b:
                    chk.violation("tie:typing:static-type", f"static type of binding {n}: compiler says {r['types'].get(n)}, the Lean checker {mt.get(n)}; program={src[:400]!r}",
                                  {"src": src, "binding": n, "compiler": r["types"].get(n), "checker": mt.get(n)}, no_input=True)
    # --- accepted programs: run three ways under the limit sweep; nothing may panic, abort or get stuck
    runs = []
    static_types = {}
    for ds, tag, src, macc, rtypes in accepted:
        sweep = CORE_SWEEP if tag == "generated" else [CORE_SWEEP[0], rng.choice(CORE_SWEEP[1:])]
        for (d, c, rc) in (sweep if chk.tier != "quick" else [sweep[0]] + rng.sample(sweep[1:], min(2, len(sweep) - 1))):
            if tag == "generated":
                # all spellings (sugar, redundant parentheses, optional annotations = the generator's types) denote this program
                case = Case(ds, "accepted-generated", depth=d, calls=c, rec=rc, printer_rng=rng, model=macc)
            else:
                # a mutant is run in exactly the text the compiler accepted (its `let` types are no longer the generator's)
                # (the core model is only asked about programs of its fragment = accepted by the Lean checker; an accept/reject
                # disagreement has already been reported above)
                case = Case(ds, "accepted-near-miss", depth=d, calls=c, rec=rc, src=src, model=macc)
            static_types[id(case)] = rtypes
            runs.append(case)
    res = three_way(chk, runs, "c01", nontrivial=None)
    for c, ci, cm, co, ev in res:
        o = ci["outcome"]
        if o.startswith("panic") or o.startswith("abort"):
            chk.violation(f"core:{o.split(' ')[0]}:{short_loc(o.split(' ', 1)[1]) if ' ' in o else ''}",
                          f"the interpreter itself failed on an accepted core program: {o[:200]}; program={c.src[:300]!r}", c.replay({"impl": ci}))
        if cm is not None and cm["outcome"].startswith("stuck"):
            chk.violation("core:model-stuck", f"the core model gets stuck on a program the compiler accepted: {cm['outcome']}; program={c.src[:300]!r}",
                          c.replay({"model": cm}), no_input=True)
        if ci["outcome"] == "ok":
            # (c) shape against the static type the compiler reported for the binding
            tys = static_types.get(id(c), {})
            for n, dump in ci["vals"].items():
                tt = tys.get(n)
                if tt is None or tt.startswith("!") or dump is None:
                    continue
                try:
                    t = parse_type(tt)
                except ValueError:
                    chk.count("shape:unparsed-type")
                    continue
                chk.count("shape:checked")
                why = shape_ok(parse_dump(dump.replace("(int ", "(int S ")), t)
                if why:
                    chk.violation("shape:core", f"binding {n} does not have the shape of its static type {tt}: {why}; dump {dump[:200]}", c.replay({"binding": n, "static_type": tt}))
    for c, ci, cm, co, ev in res[:2]:
        chk.sample({"program": c.src, "limits": limits_json(c.depth, c.calls, c.rec), "impl": ci["outcome"]})


def core_ty(t):
    if isinstance(t, str):
        return t
    if t[0] == 'tup':
        return ('T', [core_ty(x) for x in t[1]])
    if t[0] == 'arr':
        return SEQ(core_ty(t[1]))
    return ('F', [core_ty(x) for x in t[1]], core_ty(t[2]))


def norm_type(s):
    """one notation for the compiler's and the checker's type texts: callable results unparenthesised, no blanks"""
    s = s.replace(" ", "")
    prev = None
    while prev != s:
        prev = s
        s = re.sub(r'->\(([^()]*)\)', r'->\1', s)    # `->(int)` = `->int` (a 1-tuple result is not generated)
    return s


# ================================================================================================ function-valued common types

# (name, params [(pname, type, default)], result type, body) — the named functions of the shape sweep
FV_FUNCS = [
    ('k0', [], 'int', ('i', 7)),
    ('inc', [('x', 'int', None)], 'int', ('c', 'add', [('v', 'x'), ('i', 1)])),
    ('add2', [('x', 'int', None), ('y', 'int', None)], 'int', ('c', 'add', [('v', 'x'), ('v', 'y')])),
    ('add3', [('x', 'int', None), ('y', 'int', None), ('z', 'int', None)], 'int', ('c', 'add', [('v', 'x'), ('c', 'add', [('v', 'y'), ('v', 'z')])])),
    ('opt1', [('x', 'int', None), ('y', 'int', ('i', 10))], 'int', ('c', 'sub', [('v', 'x'), ('v', 'y')])),
    ('opt0', [('x', 'int', ('i', 3))], 'int', ('c', 'mul', [('v', 'x'), ('i', 2)])),
    ('incs', [('x', 'int', None), ('s', 'str', None)], 'int', ('c', 'add', [('v', 'x'), ('i', 2)])),
    ('isneg', [('x', 'int', None)], 'bool', ('c', 'lt', [('v', 'x'), ('i', 0)])),
    ('ofb', [('b', 'bool', None)], 'int', ('c', 'if', [('v', 'b'), ('i', 1), ('i', 0)])),
]
FV_LAMBDAS = [
    ('lam', [], [], ('i', 1), 'int'),
    ('lam', [('u', 'int', None)], [], ('v', 'u'), 'int'),
    ('lam', [('u', 'int', None), ('w', 'int', None)], [], ('c', 'mul', [('v', 'u'), ('v', 'w')]), 'int'),
    ('lam', [('u', 'int', None), ('t', 'str', None)], [], ('v', 'u'), 'int'),
]
FV_LIB = [("abs{int}", ['int']), ("sign{int}", ['int']), ("gcd{int, int}", ['int', 'int']), ("max{int, int}", ['int', 'int']),
          ("pow{int, int}", ['int', 'int']), ("to_str{int}", ['int']), ("len{str}", ['str']), ("neg{int}", ['int']),
          ("floor_root{int, int}", ['int', 'int']), ("count{}", [])]
FV_ARG = {'int': [('i', 5), ('i', 6), ('i', 4)], 'str': [('s', 'a')] * 3, 'bool': [('b', True)] * 3}


def funcval_part(chk, quick):
    """Function values of DIFFERENT types put where the compiler computes a common type (both branches of `if`, the
    elements of a sequence literal, two arguments bound to one generic parameter) or keeps them apart (a tuple), then the
    selected one called with each of the two arities. Either the compiler rejects, or the run ends in a value / error
    value / violation. Positions expressible in the core fragment are also compared with the Lean checker
    (function types must agree exactly)."""
    rng = chk.rng
    pr = cg.Printer(None, sugar=False)
    decls = [('fn', n, ps, ret, [], body) for (n, ps, ret, body) in FV_FUNCS]
    prelude_src = pr.program(decls) + "fn pick<T>(c: bool, a: T, b: T)->T{if(c, a, b)}\n"
    cands = [(('v', n), [p[1] for p in ps], sum(1 for p in ps if p[2] is None)) for (n, ps, ret, body) in FV_FUNCS]
    cands += [(l, [p[1] for p in l[1]], len(l[1])) for l in FV_LAMBDAS]
    reqs, meta, model_lines, model_idx = [], [], [], []

    def arglists(f, g):
        out = []
        for (_, ptys, nreq) in (f, g):
            for k in sorted({nreq, len(ptys)}):
                a = [FV_ARG[t][i] for i, t in enumerate(ptys[:k])]
                if a not in out:
                    out.append(a)
        return out

    pairs = [(f, g) for f in cands for g in cands if f is not g]
    if quick:
        pairs = [p for p in pairs if rng.random() < 0.45]
    for f, g in pairs:
        for args in arglists(f, g):
            for sel in (0, 1):
                cond = ('b', sel == 0)
                shapes = [
                    ("if", ('ce', ('c', 'if', [cond, f[0], g[0]]), args), True),
                    ("tuple", ('ce', ('item', ('tup', [f[0], g[0]]), sel), args), True),
                    ("array", None, False),
                    ("generic", None, False),
                ]
                for shape, e, in_fragment in shapes:
                    if e is not None:
                        src = prelude_src + "let r = " + pr.expr(e) + ";\n"
                    elif shape == "array":
                        src = prelude_src + f"let fs = [{pr.expr(f[0])}, {pr.expr(g[0])}];\nlet r = fs[{sel}](" + ", ".join(pr.expr(a) for a in args) + ");\n"
                    else:
                        src = prelude_src + f"let r = pick({pr.expr(cond)}, {pr.expr(f[0])}, {pr.expr(g[0])})(" + ", ".join(pr.expr(a) for a in args) + ");\n"
                    reqs.append({"op": "typing", "f": "run", "src": src, "get": ["r"], "types": ["r"], "limits": LIB_LIMITS[0]})
                    meta.append((shape, src))
                    if in_fragment:
                        model_idx.append(len(reqs) - 1)
                        model_lines.append("typing check " + tsx_program(decls + [('let', 'r', e, None)]))
            # the sequence literal alone is in the fragment (through `len`)
        e = ('c', 'len', [('arr', [f[0], g[0]], None)])
        src = prelude_src + "let r = " + pr.expr(e) + ";\n"
        reqs.append({"op": "typing", "f": "run", "src": src, "get": ["r"], "types": ["r"], "limits": LIB_LIMITS[0]})
        meta.append(("array-len", src))
        model_idx.append(len(reqs) - 1)
        model_lines.append("typing check " + tsx_program(decls + [('let', 'r', e, None)]))
    # library functions of different arities as values
    for (f, fa) in FV_LIB:
        for (g, ga) in FV_LIB:
            if f == g or (quick and rng.random() < 0.5):
                continue
            for k in sorted({len(fa), len(ga)}):
                tys = fa[:k] if len(fa) >= k else ga[:k]
                args = ", ".join(pr.expr(FV_ARG[t][i]) for i, t in enumerate(tys))
                for sel in (0, 1):
                    for shape, src in (("lib-array", f"let fs = [{f}, {g}];\nlet r = fs[{sel}]({args});\n"),
                                       ("lib-if", f"let r = if({'true' if sel == 0 else 'false'}, {f}, {g})({args});\n"),
                                       ("lib-generic", f"fn pick<T>(c: bool, a: T, b: T)->T{{if(c, a, b)}}\nlet r = pick({'true' if sel == 0 else 'false'}, {f}, {g})({args});\n")):
                        reqs.append({"op": "typing", "f": "run", "src": src, "get": ["r"], "types": ["r"], "limits": LIB_LIMITS[0]})
                        meta.append((shape, src))
    resps = run_sliced(reqs)
    mres = dict(zip(model_idx, run_model(model_lines))) if model_lines else {}
    for i, ((shape, src), q, r) in enumerate(zip(meta, reqs, resps)):
        chk.evaluations += 1
        f = fail_of(r)
        if f:
            chk.count(f"funcval:{shape}:{f[0]}")
            report_failure(chk, "funcval", f"function values of different types in one {shape} position, then called",
                           {"outcome": f[0], "detail": f[1], "src": src, "limits": q["limits"]}, {"get": ["r"]})
            continue
        racc = r.get("compile") == "ok"
        chk.count(f"funcval:{shape}:{'accepted' if racc else 'rejected'}")
        if racc:
            chk.nontrivial.add(src)
        if i in mres:
            macc = mres[i].startswith("ok")
            if mres[i] == "bad-op":
                chk.violation("tie:typing:bad-op", "the Lean checker could not read a function-value program", {"model_request": model_lines[model_idx.index(i)]}, no_input=True)
            elif macc != racc:
                which = "compiler-accepts-checker-rejects" if racc else "compiler-rejects-checker-accepts"
                chk.violation(f"funcval:{which}:{shape}",
                              f"function values of different types in one {shape} position: the real compiler and the Lean checker (function types must agree "
                              f"exactly) disagree ({which}): compiler={json.dumps(r.get('compile'))[:200]} program={src[len(prelude_src):]!r}",
                              {"src": src, "get": ["r"], "limits": q["limits"], "checker": mres[i], "compiler": r.get("compile")})
        if racc and r.get("inst") == "ok":
            dump, tt = r["vals"].get("r"), r.get("types", {}).get("r")
            if dump and tt and not dump.startswith("!") and not tt.startswith("!"):
                try:
                    why = shape_ok(parse_dump(dump), parse_type(tt))
                except ValueError:
                    why = None
                chk.count("shape:checked")
                if why:
                    chk.violation(f"shape:funcval:{shape}", f"the result of calling a selected function value does not have the shape of its static type {tt}: {why}; program {src[len(prelude_src):]!r}",
                                  {"src": src, "get": ["r"], "limits": q["limits"], "static_type": tt, "dump": dump})


# ================================================================================================ corpus

def run_corpus(chk):
    files = sorted(glob.glob(os.path.join(CORPUS, "*.case")))
    chk.coverage["corpus_cases"] = len(files)
    reqs, metas = [], []
    for f in files:
        d = json.load(open(f))
        for lim in d.get("limits_list") or [d.get("limits", {})]:
            reqs.append({"op": "typing", "f": "run", "src": d["src"], "get": d.get("get", []), "types": d.get("get", []), "calls": d.get("calls", []), "limits": lim})
            metas.append((os.path.basename(f), d, lim))
    for (name, d, lim), q, r in zip(metas, reqs, run_sliced(reqs, per_req_timeout=12.0)):
        chk.evaluations += 1
        f = fail_of(r)
        chk.count("corpus:" + (f[0] if f else "no-failure"))
        if f:
            report_failure(chk, d.get("tag", "corpus"), f"corpus case {name}: {d.get('note', '')}", {"outcome": f[0], "detail": f[1], "src": d["src"], "limits": lim},
                           {"get": q["get"], "calls": q["calls"]})
            continue
        if d.get("expect_compile") == "reject" and r.get("compile") == "ok":
            chk.violation(f"corpus:accepted:{name}", f"corpus case {name}: a program that must be rejected is accepted ({d.get('note', '')})", {"src": d["src"]})
        if r.get("compile") == "ok" and r.get("inst") == "ok":
            for n in q["get"]:
                dump, tytext = r["vals"].get(n), r.get("types", {}).get(n)
                if not dump or dump.startswith("!") or not tytext or tytext.startswith("!") or " | " in tytext:
                    continue
                try:
                    why = shape_ok(parse_dump(dump), parse_type(tytext))
                except ValueError:
                    continue
                if why:
                    chk.violation(f"shape:corpus:{name}", f"corpus case {name}: binding {n} does not have the shape of its static type {tytext}: {why}", {"src": d["src"], "limits": lim, "get": [n]})


# ================================================================================================ entry points

def run(chk):
    quick = chk.tier == "quick"
    chk.trusted += [
        "the typing theorems are about the checker XrayModel/CoreTyping.lean (written from the documented rules for the core fragment) and the named-level "
        "core evaluator XrayModel/Core.lean; the real compiler's accept/reject and static types are compared with the checker on generated programs and near-miss mutants",
        "for the ~580 library overloads outside the core fragment soundness is sampled (panic search), not proved",
        "checklib/coregen.py RefEval: independent Python evaluator of the documented semantics (oracle of the three-way runs)",
        "Driver/Typing.lean and Driver/Core.lean use `partial` for S-expression decoding (glue, not part of the model)",
    ]
    if not chk.prove():
        handle_broken(chk)
    t0 = time.time()
    run_corpus(chk)
    t1 = time.time()
    core_part(chk, 60 if quick else 600, 240 if quick else 3000)
    t2 = time.time()
    library_search(chk, 2 if quick else 8)
    funcval_part(chk, quick)
    t3 = time.time()
    script_search(chk, 500 if quick else 6000)
    decl_part(chk, 250 if quick else 3000, 350 if quick else 4000)
    default_param_part(chk, 220 if quick else 3000)
    trait_overload_part(chk, 45 if quick else 700)
    chk.coverage["seconds"] = {"corpus": round(t1 - t0, 1), "core": round(t2 - t1, 1), "library": round(t3 - t2, 1), "scripts": round(time.time() - t3, 1)}
    return chk.finish(rule="(a) generated core programs + near-miss mutants (one node changed: argument type, dropped/extra argument, index out of range, literal "
                           "type, unbound name, call of a non-function, condition type, declared result/parameter type): accept/reject and static types of the real "
                           "compiler vs the Lean checker, accepted ones run three ways under a sweep of depth/call/recursion limits; (b) every statically typed overload "
                           "of the root scope called with arguments from a typed pool of edge values (ints at 2^31/2^63/2^64, empty/non-ASCII strings, empty/lazy/infinite "
                           "sequences, none/some, sets/mappings/stacks, error values, callbacks) under a large and a tiny limit configuration, dynamic overloads from a "
                           "table of argument types, value-level mutants of test_scripts/*.xr and the book's code blocks (all top-level bindings + zero-argument functions); "
                           "(c) every dumped value checked against the shape of its static type (hook static_type). non-trivial = distinct accepted program / call text")


def replay(path):
    d = json.load(open(path))
    rp = d.get("replay", {})
    if "src" not in rp:
        print("replay file has no program; it names a broken obligation:", json.dumps(rp)[:2000])
        return 1
    req = {"op": "typing", "f": "run", "src": rp["src"], "get": rp.get("get", []), "types": rp.get("get", []), "calls": rp.get("calls", []), "limits": rp.get("limits", {})}
    r = run_harness([req], per_req_timeout=30.0)[0]
    f = fail_of(r)
    print("implementation now:", json.dumps(r)[:1500])
    if f and f[0] in ("panic", "abort"):
        print(f"VIOLATION property=C01 replay={path}")
        return 1
    if rp.get("static_type") and r.get("compile") == "ok" and r.get("inst") == "ok":
        for n in req["get"]:
            why = shape_ok(parse_dump(r["vals"][n]), parse_type(r["types"][n]))
            if why:
                print("shape:", why)
                print(f"VIOLATION property=C01 replay={path}")
                return 1
    print("replay: the recorded input no longer fails")
    return 0
