"""C15 — Sequences behave as lists whatever their representation.
Proofs: lean/Props/C15.lean over lean/XrayModel/Seq.lean (representation-level model of XSequence).
Tie: programs in SSA form (1-6 / up to 12 sequence operations over literal arrays, ranges with 64-bit edge
arguments, count(), empty sequences and earlier results) are run by the real interpreter (generic "run" op) and
by the compiled Lean model; every node is dumped (value, or the representation variant for lazy sequences), and
every sequence node is observed twice (right after its creation and again at the end of the program: no
operation alters its inputs).  Oracle: plain Python lists (lazy index functions only for huge / infinite ones)."""
from .common import *
from .common import _resp_fail

I64_MIN, I64_MAX = -2**63, 2**63 - 1
USIZE = 2**64
ERR = "ERR"
SMALL = 64          # sequences up to this length are materialised / copied / fully dumped


class Bad:          # an element whose evaluation is an error value
    def __repr__(self):
        return "<err>"


BAD = Bad()


def o_int(v):
    return f"(int {'S' if I64_MIN <= v <= I64_MAX else 'L'} {v})"


def o_elem(e):
    if isinstance(e, tuple):
        return "(struct " + " ".join(o_elem(x) for x in e) + ")"
    return o_int(e)


def o_bool(b):
    return "(bool true)" if b else "(bool false)"


class L:
    """the oracle's sequence: a Python list when small, otherwise (length or None = infinite, index function)"""

    def __init__(self, items=None, n=None, f=None):
        self.items = items
        if items is not None:
            self.n = len(items)
        else:
            self.n = n
            self.f = f

    @staticmethod
    def lazy(n, f):
        if n is not None and n <= 4096:
            return L([f(i) for i in range(n)])
        return L(n=n, f=f)

    def at(self, i):
        if self.items is not None:
            return self.items[i]
        if self.n is None and i >= USIZE:
            return BAD          # capacity: an infinite sequence is indexable below 2^64 only
        return self.f(i)

    def finite(self):
        return self.n is not None

    def small(self):
        return self.n is not None and self.n <= SMALL

    def tolist(self):
        assert self.items is not None
        return list(self.items)

    def dump(self):
        xs = self.tolist()
        if any(x is BAD or (isinstance(x, tuple) and any(y is BAD for y in x)) for x in xs):
            return ERR
        return "(seq" + "".join(" " + o_elem(x) for x in xs) + ")"


# ---------------------------------------------------------------- list semantics of every operation (the oracle)

def has_bad(e):
    return e is BAD or (isinstance(e, tuple) and any(x is BAD for x in e))


def norm_index(n, i, insert=False):
    """finite list of length n: index i (negative from the end) -> position or None (out of range)"""
    j = i + n if i < 0 else i
    if j < 0 or j > n or (j == n and not insert):
        return None
    if insert and i < 0 and j == n:
        return None
    return j


def orc_range(args):
    if any(not (I64_MIN <= a <= I64_MAX) for a in args):
        return ERR                       # capacity: range arguments are 64-bit
    if len(args) == 1:
        s, e, st = 0, args[0], 1
    elif len(args) == 2:
        s, e, st = args[0], args[1], 1
    else:
        s, e, st = args
    if st == 0:
        return ERR
    # the elements s, s+st, s+2*st, ... strictly before e (after e for a negative step)
    n = max(0, -((s - e) // st)) if st > 0 else max(0, -((e - s) // (-st)))
    return L.lazy(n, lambda i: s + i * st)


def orc_count():
    return L(n=None, f=lambda i: i if i < USIZE else BAD)


def orc_map(a, c, d):
    g = lambda x: BAD if has_bad(x) else x * c + d
    if a.items is not None:
        return L([g(x) for x in a.items])
    return L(n=a.n, f=lambda i: g(a.at(i)))


def orc_add(a, b):
    if a.n == 0:
        return b
    if not a.finite():
        return a if b.n == 0 else ERR     # nothing can follow an infinite sequence, except nothing
    if b.finite() and a.n + b.n >= USIZE:
        return ERR                       # capacity
    if a.items is not None and b.items is not None:
        return L(a.items + b.items)
    n = a.n + b.n if b.finite() else None
    if n is None and a.n + getattr(b, "fp", 0) >= USIZE:
        return ERR                       # capacity: the finite lists concatenated in front of an infinite one
    r = L.lazy(n, lambda i: a.at(i) if i < a.n else b.at(i - a.n))
    if n is None:
        r.fp = a.n + getattr(b, "fp", 0)
    return r


def orc_take(a, k):
    if not (0 <= k < USIZE):
        return ERR
    if a.items is not None:
        return L(a.items[:k])
    n = k if a.n is None else min(k, a.n)
    return L.lazy(n, a.at)


def orc_skip(a, k):
    if not (0 <= k < USIZE):
        return ERR
    if a.items is not None:
        return L(a.items[k:])
    n = None if a.n is None else max(0, a.n - k)
    return L.lazy(n, lambda i: a.at(i + k))


def orc_get(a, i):
    if a.finite():
        j = norm_index(a.n, i)
        if j is None:
            return ERR
        e = a.at(j)
    else:
        if not (0 <= i < USIZE):
            return ERR
        e = a.at(i)
    return ERR if has_bad(e) else ("v", o_elem(e))


def orc_len(a):
    return ("v", o_int(a.n)) if a.finite() else ERR


def orc_copying(a, fn):
    """operations that build a new array from a finite sequence"""
    if not a.finite():
        return ERR
    xs = a.tolist()
    r = fn(xs)
    if r is ERR:
        return ERR
    if any(has_bad(x) for x in r):
        return ERR
    return L(r)


def orc_toarr(a):
    return orc_copying(a, lambda xs: xs)


def orc_push(a, x):
    return orc_copying(a, lambda xs: xs + [x])


def orc_rpush(a, x):
    return orc_copying(a, lambda xs: [x] + xs)


def orc_insert(a, i, x):
    def f(xs):
        j = norm_index(len(xs), i, insert=True)
        if j is None:
            return ERR
        xs.insert(j, x)
        return xs
    return orc_copying(a, f)


def orc_pop(a, i):
    def f(xs):
        j = norm_index(len(xs), i)
        if j is None:
            return ERR
        del xs[j]
        return xs
    return orc_copying(a, f)


def orc_set(a, i, x):
    def f(xs):
        j = norm_index(len(xs), i)
        if j is None:
            return ERR
        xs[j] = x
        return xs
    return orc_copying(a, f)


def orc_swap(a, i, k):
    def f(xs):
        j1, j2 = norm_index(len(xs), i), norm_index(len(xs), k)
        if j1 is None or j2 is None:
            return ERR
        xs[j1], xs[j2] = xs[j2], xs[j1]
        return xs
    if a.finite() and a.small():
        j1, j2 = norm_index(a.n, i), norm_index(a.n, k)
        if j1 is not None and j1 == j2:
            return a          # swapping an element with itself: the same sequence (elements not forced)
    return orc_copying(a, f)


def orc_zip(ls):
    if all(x.items is not None for x in ls):
        return L(list(zip(*[x.items for x in ls])))
    fin = [x.n for x in ls if x.finite()]
    n = min(fin) if fin else None
    return L.lazy(n, lambda i: tuple(x.at(i) for x in ls))


def orc_enum(a, s, o):
    cnt = L(n=None, f=lambda i: s + i * o if i < USIZE else BAD)
    return orc_zip([cnt, a])


def orc_unzip(a, k):
    g = lambda t: BAD if has_bad(t) else t[k]     # a tuple is evaluated as a whole
    if a.items is not None:
        return L([g(t) for t in a.items])
    return L(n=a.n, f=lambda i: g(a.at(i)))


def orc_rev(a):
    if not a.finite() or a.n > I64_MAX:
        return ERR                      # capacity: the length must be a 64-bit range bound
    if a.items is not None:
        return L(a.items[::-1])
    return L.lazy(a.n, lambda i: a.at(a.n - 1 - i))


def orc_rep(a):
    if not a.finite():
        return a
    if a.n == 0:
        return L(n=None, f=lambda i: BAD)          # ill-defined: every element is an error value
    return L(n=None, f=lambda i: a.at(i % a.n) if i < USIZE else BAD)


def orc_repn(a, k):
    if not a.finite():
        return a
    if k < 0:
        # a negative repetition count: an error value (out of range) and Python's [] are both list semantics
        return ("alt", [ERR, "(seq)"]) if a.n == 0 else ERR
    if k * a.n >= USIZE:
        return ERR
    if a.n == 0:
        return L([])
    if a.items is not None and k * a.n <= 4096:
        return L(a.items * k)
    return L.lazy(k * a.n, lambda i: a.at(i % a.n))


def orc_scan(a, c, stop_on, limit=400):
    """index of the first element with (x < c) == stop_on, 'end' if the finite sequence has none, 'bad' if an
    error element comes first, None if undecided within `limit` elements"""
    i = 0
    while i < limit:
        if a.finite() and i >= a.n:
            return "end"
        x = a.at(i)
        if has_bad(x):
            return "bad"
        if (x < c) == stop_on:
            return i
        i += 1
    return None


def orc_tw(a, c):
    r = orc_scan(a, c, False)
    if r == "bad":
        return ERR
    if r == "end":
        return a
    return orc_take(a, r)


def orc_su(a, c):
    r = orc_scan(a, c, True)
    if r == "bad":
        return ERR
    if r == "end":
        return L([])
    return orc_skip(a, r)



def o_opt(e):
    return "(none)" if e is None else f"(some {o_elem(e)})"


def orc_nth(a, n, c, limit=400):
    """n-th element with x < c (negative n: from the end); None if the scan is not decided within `limit`"""
    if n < 0:
        if not a.finite():
            return ERR
        if a.n > limit:
            return None
        left = -n - 1
        for i in range(a.n - 1, -1, -1):
            x = a.at(i)
            if has_bad(x):
                return ERR
            if x < c:
                if left == 0:
                    return ("v", o_opt(x))
                left -= 1
        return ("v", o_opt(None))
    left, i = n, 0
    while i < limit:
        if a.finite() and i >= a.n:
            return ("v", o_opt(None))
        x = a.at(i)
        if has_bad(x):
            return ERR
        if x < c:
            if left == 0:
                return ("v", o_opt(x))
            left -= 1
        i += 1
    return None


def orc_eq(a, b, limit=400):
    if a.n != b.n:
        return ("v", o_bool(False))
    i = 0
    while i < limit:
        if a.finite() and i >= a.n:
            return ("v", o_bool(True))
        x, y = a.at(i), b.at(i)
        if has_bad(x) or has_bad(y):
            return ERR
        if x != y:
            return ("v", o_bool(False))
        i += 1
    return None


def orc_tostack(a):
    if not a.finite():
        return ERR
    xs = a.tolist()
    if any(has_bad(x) for x in xs):
        return ERR
    return ("v", "(stack" + "".join(" " + o_elem(x) for x in reversed(xs)) + ")")


def py_str(e):
    return "(" + ", ".join(py_str(x) for x in e) + ")" if isinstance(e, tuple) else str(e)


def o_nested(rows):
    return "(seq" + "".join(" (seq" + "".join(" " + o_elem(x) for x in r) + ")" for r in rows) + ")"


def orc_plain(kind, xs, arg):
    """oracle-only operations on a small finite list without error elements (Python lists / itertools)"""
    import itertools
    n = len(xs)
    if kind == "contains":
        return ("v", o_bool(arg in xs))
    if kind == "countx":
        return ("v", o_int(xs.count(arg)))
    if kind == "countp":
        return ("v", o_int(sum(1 for x in xs if x < arg)))
    if kind == "all":
        return ("v", o_bool(all(x < arg for x in xs)))
    if kind == "any":
        return ("v", o_bool(any(x < arg for x in xs)))
    if kind == "sum":
        return ("v", o_int(sum(xs)))
    if kind == "tostr":
        return ("v", '(str "[' + ", ".join(py_str(x) for x in xs) + ']")')
    if kind == "bisect":
        return ("v", o_int(sum(1 for x in xs if x < arg)))
    if kind == "comb":
        if arg < 0:
            return ERR
        if arg > n:
            return ("alt", [ERR, "(seq)"])        # no such combination: an error value or the empty list
        return ("v", o_nested(itertools.combinations(xs, arg)))
    if kind == "combr":
        if arg < 0:
            return ERR
        if n == 0:
            return ("alt", [ERR, "(seq (seq))" if arg == 0 else "(seq)"])
        return ("v", o_nested(itertools.combinations_with_replacement(xs, arg)))
    if kind == "perm":
        if arg is None:
            return ("v", o_nested(itertools.permutations(xs)))
        if arg < 0:
            return ERR
        return ("v", o_nested(itertools.permutations(xs, arg)))
    raise AssertionError(kind)


PLAIN_SRC = {
    "contains": "${k}.contains({a})", "countx": "${k}.count({a})", "countp": "${k}.count((x: int)->{{x < {a}}})",
    "all": "${k}.all((x: int)->{{x < {a}}})", "any": "${k}.any((x: int)->{{x < {a}}})", "sum": "${k}.sum()",
    "tostr": "${k}.to_str()", "bisect": "${k}.bisect((x: int)->{{x < {a}}})",
    "comb": "${k}.combinations({a}).map((s: Sequence<int>)->{{s.to_array()}}).to_array()",
    "combr": "${k}.combinations_with_replacement({a}).map((s: Sequence<int>)->{{s.to_array()}}).to_array()",
    "perm": "${k}.permutations({a}).map((s: Sequence<int>)->{{s.to_array()}}).to_array()",
}


# ---------------------------------------------------------------- program generation

EDGE_INTS = [0, 1, -1, 2, 3, 5, 7, -2, -5, 10, I64_MAX, I64_MAX - 1, I64_MIN, I64_MIN + 1, 2**63, -2**63 - 1,
             2**64 - 1, 2**64, -2**64, 2**64 + 1, 2**31, 2**32]


class Node:
    __slots__ = ("op", "toks", "src", "ty", "orc", "obs_of", "phase", "usable")

    def __init__(self, op, toks, src, ty, orc, obs_of=None, phase=""):
        self.op, self.toks, self.src, self.ty, self.orc = op, toks, src, ty, orc
        self.obs_of, self.phase = obs_of, phase
        self.usable = isinstance(orc, L)


class Prog:
    def __init__(self):
        self.nodes = []

    def add(self, op, toks, src, ty, orc, obs_of=None, phase=""):
        self.nodes.append(Node(op, [str(t) for t in toks], src, ty, orc, obs_of, phase))
        return len(self.nodes) - 1

    def model_line(self, upto=None):
        ns = self.nodes if upto is None else self.nodes[:upto]
        return "seq prog " + " ; ".join(" ".join([n.op] + n.toks) for n in ns)

    def source(self, prefix="v", upto=None):
        ns = self.nodes if upto is None else self.nodes[:upto]
        return "".join(f"let {prefix}{k} = {n.src.replace('$', prefix)};\n" for k, n in enumerate(ns))


def pick_index(rng, n, infinite=False):
    if infinite:
        return rng.choice([0, 1, 2, 5, 9, 100, -1, -3, 2**63, 2**64 - 1, 2**64, 2**64 + 5, 12345678901234567890])
    base = [-n - 1, -n, -1, 0, n - 1, n, n + 1]
    r = rng.random()
    if r < 0.55:
        return rng.choice(base)
    if r < 0.8 and n > 0:
        return rng.randrange(-n, n)
    return rng.choice([2**63 - 1, 2**63, 2**64 - 1, 2**64, -2**63, -2**64, -2**64 - 1, n + 2**64, -n - 2**64, 7, -7])


def pick_elem(rng):
    return rng.choice([0, 1, -1, 7, 42, -13, 100, 2**63 - 1, 2**63, -2**63, -2**63 - 1, 2**70])


def observe(p, k, phase):
    """append the observation nodes of sequence node k"""
    a = p.nodes[k].orc
    ty = p.nodes[k].ty
    if a.finite() and a.small():
        p.add("toarr", [k], f"${k}.to_array()", ty, orc_toarr(a), obs_of=k, phase=phase)
        p.add("len", [k], f"${k}.len()", "int", orc_len(a), obs_of=k, phase=phase)
    else:
        p.add("len", [k], f"${k}.len()", "int", orc_len(a), obs_of=k, phase=phase)
        t = p.add("take", [k, 6], f"${k}.take(6)", ty, orc_take(a, 6), obs_of=k, phase=phase)
        p.add("toarr", [t], f"${t}.to_array()", ty, orc_toarr(p.nodes[t].orc), obs_of=k, phase=phase)
        for i in ([a.n - 1, -1, a.n] if a.finite() else [7, -1]):
            p.add("get", [k, i], f"${k}[{lit(i)}]", "elem", orc_get(a, i), obs_of=k, phase=phase)


def gen_source(rng, p):
    r = rng.random()
    if r < 0.34:
        n = rng.choice([1, 1, 2, 3, 3, 4, 5, 8])
        xs = [rng.choice([0, 1, 2, 3, 5, -1, -4, 9, 10, 2**63 - 1, -2**63, 2**64]) if rng.random() < 0.15 else rng.randrange(-9, 30)
              for _ in range(n)]
        return p.add("arr", xs, "[" + ", ".join(lit(x) for x in xs) + "]", "I", L(xs))
    if r < 0.72:
        k = rng.choice([1, 2, 3, 3])
        if rng.random() < 0.6:
            # small ranges
            s = rng.randrange(-6, 7)
            e = s + rng.randrange(-4, 12)
            st = rng.choice([1, 1, 2, 3, -1, -2, 5, 0, 100])
            if st < 0 and rng.random() < 0.8:
                s, e = e, s
            args = [e] if k == 1 else ([s, e] if k == 2 else [s, e, st])
        else:
            pool = [I64_MIN, I64_MIN + 1, I64_MAX, I64_MAX - 1, 0, 1, -1, 3, -7, 2**62, -2**62, 2**63, -2**63 - 1, 2**64, 10**30,
                    I64_MAX - 5, I64_MIN + 5]
            args = [rng.choice(pool) for _ in range(k)]
            if k == 3 and rng.random() < 0.5:
                args[2] = rng.choice([1, -1, 2, -2, I64_MAX, I64_MIN, 2**62, -2**62, 3, 0, 2**63])
        return p.add("range", args, "range(" + ", ".join(lit(a) for a in args) + ")", "I", orc_range(args))
    if r < 0.82:
        return p.add("count", [], "count()", "I", orc_count())
    if r < 0.92:
        s = rng.choice([0, 1, -3, 5, 2**63, -2**64])
        o = rng.choice([1, 2, -1, 0, 3, 2**62, -7])
        return p.add("count2", [s, o], f"count({lit(s)}, {lit(o)})", "I", orc_map(orc_count(), o, s))
    # the canonical empty sequence of ints
    return p.add("range", [0], "range(0)", "I", orc_range([0]))


def gen_op(rng, p):
    """append one operation node over earlier usable sequence nodes; returns its index or None"""
    cands = [k for k, n in enumerate(p.nodes) if n.usable and n.obs_of is None]
    if not cands:
        return None
    # prefer recent results
    k = cands[-1] if rng.random() < 0.5 else rng.choice(cands)
    a, ty = p.nodes[k].orc, p.nodes[k].ty
    fin, small = a.finite(), a.small()
    n = a.n if fin else None
    ops = ["add", "add", "take", "take", "skip", "skip", "get", "get", "len", "toarr", "rev", "rep", "repn", "isinf", "zip"]
    if ty == "I":
        ops += ["map", "map", "enum", "push", "rpush", "insert", "insert", "set", "tw", "su"]
    else:
        ops += ["unzip", "unzip"]
    ops += ["pop", "pop", "pop", "swap", "swap", "eq", "tostack"]
    if ty == "I":
        ops += ["nth", "nth", "plain", "plain", "plain", "plain", "plain"]
    else:
        ops += ["tostr"]
    op = rng.choice(ops)
    copying = op in ("push", "rpush", "insert", "set", "pop", "swap", "toarr", "tostack", "plain", "tostr")
    if copying and fin and not small:
        op = rng.choice(["take", "skip", "get", "len"])       # do not copy huge sequences
    idx = lambda: pick_index(rng, n if fin else 0, infinite=not fin)
    if op == "add":
        same = [j for j in cands if p.nodes[j].ty == ty]
        j = rng.choice(same)
        if rng.random() < 0.5:
            k, j = j, k
        return p.add("add", [k, j], f"${k} + ${j}", ty, orc_add(p.nodes[k].orc, p.nodes[j].orc))
    if op == "take":
        c = idx() if rng.random() < 0.7 else rng.randrange(0, 8)
        return p.add("take", [k, c], f"${k}.take({lit(c)})", ty, orc_take(a, c))
    if op == "skip":
        c = idx() if rng.random() < 0.7 else rng.randrange(0, 8)
        return p.add("skip", [k, c], f"${k}.skip({lit(c)})", ty, orc_skip(a, c))
    if op == "get":
        i = idx()
        return p.add("get", [k, i], f"${k}[{lit(i)}]", "elem", orc_get(a, i))
    if op == "len":
        return p.add("len", [k], f"${k}.len()", "int", orc_len(a))
    if op == "isinf":
        return p.add("isinf", [k], f"${k}.is_infinite()", "bool", ("v", o_bool(not fin)))
    if op == "toarr":
        return p.add("toarr", [k], f"${k}.to_array()", ty, orc_toarr(a))
    if op == "rev":
        return p.add("rev", [k], f"${k}.reverse()", ty, orc_rev(a))
    if op == "rep":
        return p.add("rep", [k], f"${k}.repeat()", ty, orc_rep(a))
    if op == "repn":
        c = rng.choice([0, 1, 2, 3, 3, -1, 5, 2**63, 2**64, -2**64]) if (not fin or n <= 40) else rng.choice([0, 1, 2, -1, 2**64])
        if rng.random() < 0.5:
            return p.add("repn", [k, c], f"${k}.repeat({lit(c)})", ty, orc_repn(a, c))
        return p.add("repn", [k, c], f"${k} * {lit(c)}", ty, orc_repn(a, c))
    if op == "zip":
        others = [j for j in cands if p.nodes[j].ty == "I"]
        if ty != "I" or not others:
            return None
        js = [k] + [rng.choice(others) for _ in range(rng.choice([1, 1, 2]))]
        rng.shuffle(js)
        os_ = [p.nodes[j].orc for j in js]
        return p.add("zip", js, "zip(" + ", ".join(f"${j}" for j in js) + ")", f"P{len(js)}", orc_zip(os_))
    if op == "map":
        c, d = rng.choice([1, 2, -1, 0, 3, 2**62, -3]), rng.choice([0, 1, -5, 7, 2**63])
        return p.add("map", [k, c, d], f"${k}.map((x: int)->{{x*{lit(c)}+{lit(d)}}})", "I", orc_map(a, c, d))
    if op == "enum":
        s, o = rng.choice([0, 0, 1, -2, 2**63]), rng.choice([1, 1, 2, -1, 0])
        return p.add("enum", [k, s, o], f"${k}.enumerate({lit(s)}, {lit(o)})", "P2", orc_enum(a, s, o))
    if op == "unzip":
        w = int(ty[1:])
        c = rng.randrange(w)
        return p.add("unzip", [k, c], f"${k}.unzip()::item{c}", "I", orc_unzip(a, c))
    if op == "push":
        x = pick_elem(rng)
        return p.add("push", [k, x], f"${k}.push({lit(x)})", ty, orc_push(a, x))
    if op == "rpush":
        x = pick_elem(rng)
        return p.add("rpush", [k, x], f"${k}.rpush({lit(x)})", ty, orc_rpush(a, x))
    if op == "insert":
        i, x = idx(), pick_elem(rng)
        return p.add("insert", [k, i, x], f"${k}.insert({lit(i)}, {lit(x)})", ty, orc_insert(a, i, x))
    if op == "set":
        i, x = idx(), pick_elem(rng)
        return p.add("set", [k, i, x], f"${k}.set({lit(i)}, {lit(x)})", ty, orc_set(a, i, x))
    if op == "pop":
        i = idx()
        return p.add("pop", [k, i], f"${k}.pop({lit(i)})", ty, orc_pop(a, i))
    if op == "swap":
        i, j = idx(), idx()
        return p.add("swap", [k, i, j], f"${k}.swap({lit(i)}, {lit(j)})", ty, orc_swap(a, i, j))
    if op == "nth":
        c = rng.choice([0, 1, 3, 5, 10, -2, 25, 2**63])
        i = rng.choice([0, 0, -1, -1, 1, 2, -2, 5, -5, 2**64, -2**64]) if rng.random() < 0.8 else idx()
        o = orc_nth(a, i, c)
        if o is None:
            return None
        pred = f"(x: int)->{{x < {lit(c)}}}"
        src = f"${k}.nth({lit(i)}, {pred})"
        if i == 0 and rng.random() < 0.5:
            src = f"${k}.first({pred})"
        if i == -1 and rng.random() < 0.5:
            src = f"${k}.last({pred})"
        return p.add("nth", [k, i, c, 1000], src, "opt", o)
    if op == "eq":
        same = [j for j in cands if p.nodes[j].ty == ty]
        j = rng.choice(same)
        if rng.random() < 0.5:
            k, j = j, k
        o = orc_eq(p.nodes[k].orc, p.nodes[j].orc)
        if o is None:
            return None
        return p.add("eq", [k, j, 1000], f"${k} == ${j}", "bool", o)
    if op == "tostack":
        return p.add("tostack", [k], f"${k}.to_stack()", "stack", orc_tostack(a))
    if op in ("plain", "tostr"):
        # operations outside the model (xray code over generators, dynamic functions): implementation vs oracle only
        if not fin or a.n > 12:
            return None
        xs = a.tolist()
        if any(has_bad(x) for x in xs):
            return None
        kind = "tostr" if op == "tostr" else rng.choice(["contains", "countx", "countp", "all", "any", "sum", "tostr", "bisect",
                                                         "comb", "combr", "perm", "perm"])
        arg = None
        if kind in ("contains", "countx"):
            arg = rng.choice(xs + [7, -1]) if xs else 7
        elif kind in ("countp", "all", "any", "bisect"):
            arg = rng.choice([0, 1, 3, 5, 10, -2, 25, 2**63])
            if kind == "bisect" and [x < arg for x in xs] != sorted([x < arg for x in xs], reverse=True):
                return None          # bisect is specified for partitioned sequences only
        elif kind in ("comb", "combr", "perm"):
            if a.n > 5:
                return None
            arg = rng.choice([0, 1, 2, 3, a.n, a.n + 1, -1, a.n - 1])
            if kind == "combr" and arg > 4:
                return None
            if kind == "perm" and rng.random() < 0.3:
                arg = None
        src = PLAIN_SRC[kind].replace("${k}", f"${k}").replace("{a}", "" if arg is None else lit(arg)).replace("{{", "{").replace("}}", "}")
        n_ = p.add("opaque", [], src, "plain", orc_plain(kind, xs, arg))
        p.nodes[n_].phase = kind
        return n_
    if op in ("tw", "su"):
        c = rng.choice([0, 1, 3, 5, 10, -2, 25, 2**63])
        if orc_scan(a, c, op == "su") is None:
            return None           # the scan would not stop within the bound: not generated
        if op == "tw":
            return p.add("tw", [k, c, 1000], f"${k}.take_while((x: int)->{{x < {lit(c)}}})", ty, orc_tw(a, c))
        return p.add("su", [k, c, 1000], f"${k}.skip_until((x: int)->{{x < {lit(c)}}})", ty, orc_su(a, c))
    return None


def gen_program(rng, n_ops):
    p = Prog()
    for _ in range(rng.choice([1, 2, 2, 3])):
        k = gen_source(rng, p)
        if p.nodes[k].usable:
            observe(p, k, "new")
    made = 0
    tries = 0
    while made < n_ops and tries < 4 * n_ops + 8:
        tries += 1
        k = gen_op(rng, p)
        if k is None:
            continue
        made += 1
        if p.nodes[k].usable and p.nodes[k].ty not in ("int", "bool", "elem", "opt", "stack", "plain"):
            observe(p, k, "new")
    # persistence: observe every sequence node again after all operations have run
    for k in [k for k, n in enumerate(p.nodes) if n.usable and n.obs_of is None]:
        observe(p, k, "final")
    return p



# ---------------------------------------------------------------- concatenation trees of every shape

def chain_leaf(rng, p, allow_inf=False):
    """one leaf of a concatenation tree (element type int), of a random representation; returns its node index"""
    kind = rng.choice(["array", "array", "single", "range", "range", "map", "zip", "slice", "reverse", "empty", "lazyempty",
                       "chained", "pushed"] + (["count"] if allow_inf else []))
    small = lambda: rng.randrange(-9, 30)
    arr = lambda n: p.add("arr", (xs := [small() for _ in range(n)]), "[" + ", ".join(lit(x) for x in xs) + "]", "I", L(xs))
    if kind == "array":
        return arr(rng.choice([2, 3, 4]))
    if kind == "single":
        return arr(1)
    if kind == "range":
        s_ = rng.randrange(-5, 6)
        args = [s_, s_ + rng.choice([1, 2, 3, 4]), 1] if rng.random() < 0.7 else [s_ + 6, s_, rng.choice([-2, -3])]
        return p.add("range", args, "range(" + ", ".join(lit(a) for a in args) + ")", "I", orc_range(args))
    if kind == "map":
        k = arr(rng.choice([1, 2, 3]))
        c, d = rng.choice([1, 2, -1, 3]), rng.choice([0, 1, -5, 7])
        return p.add("map", [k, c, d], f"${k}.map((x: int)->{{x*{lit(c)}+{lit(d)}}})", "I", orc_map(p.nodes[k].orc, c, d))
    if kind == "zip":
        a, b = arr(rng.choice([2, 3])), arr(rng.choice([1, 2, 3]))
        z = p.add("zip", [a, b], f"zip(${a}, ${b})", "P2", orc_zip([p.nodes[a].orc, p.nodes[b].orc]))
        c = rng.randrange(2)
        return p.add("unzip", [z, c], f"${z}.unzip()::item{c}", "I", orc_unzip(p.nodes[z].orc, c))
    if kind == "slice":
        k = arr(rng.choice([3, 4, 5]))
        if rng.random() < 0.5:
            c = rng.choice([1, 2])
            return p.add("skip", [k, c], f"${k}.skip({c})", "I", orc_skip(p.nodes[k].orc, c))
        c = rng.choice([1, 2, 3])
        return p.add("take", [k, c], f"${k}.take({c})", "I", orc_take(p.nodes[k].orc, c))
    if kind == "reverse":
        k = arr(rng.choice([1, 2, 3]))
        return p.add("rev", [k], f"${k}.reverse()", "I", orc_rev(p.nodes[k].orc))
    if kind == "empty":
        return p.add("range", [0], "range(0)", "I", orc_range([0]))
    if kind == "lazyempty":
        k = p.add("range", [0], "range(0)", "I", orc_range([0]))
        return p.add("map", [k, 1, 0], f"${k}.map((x: int)->{{x*1+0}})", "I", orc_map(p.nodes[k].orc, 1, 0))
    if kind == "chained":
        a, b = arr(rng.choice([1, 2])), arr(rng.choice([1, 2]))
        return p.add("add", [a, b], f"${a} + ${b}", "I", orc_add(p.nodes[a].orc, p.nodes[b].orc))
    if kind == "pushed":
        k = arr(rng.choice([1, 2]))
        x = small()
        return p.add("push", [k, x], f"${k}.push({lit(x)})", "I", orc_push(p.nodes[k].orc, x))
    return p.add("count", [], "count()", "I", orc_count())


def chain_shape(rng, n, style):
    """a binary tree over leaves 0..n-1 as nested pairs"""
    def build(lo, hi, st):
        if hi - lo == 1:
            return lo
        if st == "left":
            cut = hi - 1
        elif st == "right":
            cut = lo + 1
        elif st == "balanced":
            cut = (lo + hi) // 2
        else:
            cut = rng.randrange(lo + 1, hi)
        return (build(lo, cut, st), build(cut, hi, st))
    if style.startswith("split"):
        cut = int(style[5:])
        return (build(0, cut, "left"), build(cut, n, "left"))      # (a+b+..)+(c+d+..): both operands left-deep chains
    return build(0, n, style)


def observe_fully(p, k, rng):
    """len, every index incl. negative and one beyond each end, to_array (twice), take/skip at every boundary,
    first/last/nth, reverse, == with the flat array literal"""
    a = p.nodes[k].orc
    if not isinstance(a, L):
        return
    if not a.finite():
        observe(p, k, "new")
        for i in range(0, 12):
            p.add("get", [k, i], f"${k}[{i}]", "elem", orc_get(a, i), obs_of=k, phase="new")
        for c in (3, 9):
            t = p.add("take", [k, c], f"${k}.take({c})", "I", orc_take(a, c), obs_of=k, phase="new")
            p.add("toarr", [t], f"${t}.to_array()", "I", orc_toarr(p.nodes[t].orc), obs_of=k, phase="new")
        return
    n = a.n
    p.add("len", [k], f"${k}.len()", "int", orc_len(a), obs_of=k, phase="new")
    for i in range(-n - 1, n + 1):
        p.add("get", [k, i], f"${k}[{lit(i)}]", "elem", orc_get(a, i), obs_of=k, phase="new")
    p.add("toarr", [k], f"${k}.to_array()", "I", orc_toarr(a), obs_of=k, phase="new")
    for c in range(0, n + 2):
        t = p.add("take", [k, c], f"${k}.take({c})", "I", orc_take(a, c), obs_of=k, phase="new")
        p.add("toarr", [t], f"${t}.to_array()", "I", orc_toarr(p.nodes[t].orc), obs_of=k, phase="new")
        t = p.add("skip", [k, c], f"${k}.skip({c})", "I", orc_skip(a, c), obs_of=k, phase="new")
        p.add("toarr", [t], f"${t}.to_array()", "I", orc_toarr(p.nodes[t].orc), obs_of=k, phase="new")
    # a slice strictly inside, across part boundaries
    if n >= 3:
        lo = rng.randrange(1, n - 1)
        hi = rng.randrange(lo + 1, n)
        t = p.add("skip", [k, lo], f"${k}.skip({lo})", "I", orc_skip(a, lo), obs_of=k, phase="new")
        u = p.add("take", [t, hi - lo], f"${t}.take({hi - lo})", "I", orc_take(p.nodes[t].orc, hi - lo), obs_of=k, phase="new")
        p.add("toarr", [u], f"${u}.to_array()", "I", orc_toarr(p.nodes[u].orc), obs_of=k, phase="new")
    if not any(has_bad(x) for x in a.tolist()):
        for i, c in ((0, 5), (-1, 5), (1, 100), (-2, 100), (n, 100)):
            o = orc_nth(a, i, c)
            pred = f"(x: int)->{{x < {lit(c)}}}"
            src = f"${k}.first({pred})" if i == 0 else (f"${k}.last({pred})" if i == -1 else f"${k}.nth({lit(i)}, {pred})")
            p.add("nth", [k, i, c, 1000], src, "opt", o, obs_of=k, phase="new")
        r = p.add("rev", [k], f"${k}.reverse()", "I", orc_rev(a), obs_of=k, phase="new")
        p.add("toarr", [r], f"${r}.to_array()", "I", orc_toarr(p.nodes[r].orc), obs_of=k, phase="new")
        xs = a.tolist()
        if xs:
            f = p.add("arr", xs, "[" + ", ".join(lit(x) for x in xs) + "]", "I", L(xs), obs_of=k, phase="new")
            p.add("eq", [k, f, 1000], f"${k} == ${f}", "bool", orc_eq(a, p.nodes[f].orc), obs_of=k, phase="new")
            p.add("eq", [f, k, 1000], f"${f} == ${k}", "bool", orc_eq(p.nodes[f].orc, a), obs_of=k, phase="new")
    # iteration a second time
    p.add("toarr", [k], f"${k}.to_array()", "I", orc_toarr(a), obs_of=k, phase="final")
    p.add("len", [k], f"${k}.len()", "int", orc_len(a), obs_of=k, phase="final")


CHAIN_STYLES = ["left", "right", "balanced", "random", "random", "split2", "split3", "split4"]


def gen_chain_program(rng, style=None, n_leaves=None):
    """a concatenation tree built step by step through let-bound intermediates (every operand of `+` is an existing
    value, so Chain + Chain arms with many parts on either side are reached), then extended and observed fully"""
    p = Prog()
    n = n_leaves or rng.choice([2, 3, 4, 5, 5, 6, 6, 7, 8])
    style = style or rng.choice(CHAIN_STYLES)
    if style.startswith("split") and int(style[5:]) >= n:
        style = "random"
    inf_last = rng.random() < 0.12
    leaves = [chain_leaf(rng, p, allow_inf=(inf_last and i == n - 1)) for i in range(n)]

    def build(t):
        if isinstance(t, int):
            return leaves[t]
        a, b = build(t[0]), build(t[1])
        return p.add("add", [a, b], f"${a} + ${b}", "I", orc_add(p.nodes[a].orc, p.nodes[b].orc))

    root = build(chain_shape(rng, n, style))
    observe_fully(p, root, rng)
    # extend the chain and observe again
    a = p.nodes[root].orc
    if isinstance(a, L):
        ext = rng.choice(["add_leaf", "add_self", "leaf_add", "push", "insert", "add_tree", "none"])
        e = None
        if ext == "add_leaf":
            l = chain_leaf(rng, p)
            e = p.add("add", [root, l], f"${root} + ${l}", "I", orc_add(a, p.nodes[l].orc))
        elif ext == "leaf_add":
            l = chain_leaf(rng, p)
            e = p.add("add", [l, root], f"${l} + ${root}", "I", orc_add(p.nodes[l].orc, a))
        elif ext == "add_self":
            e = p.add("add", [root, root], f"${root} + ${root}", "I", orc_add(a, a))
        elif ext == "add_tree":
            m = rng.choice([3, 4])
            ls = [chain_leaf(rng, p) for _ in range(m)]
            acc = ls[0]
            for l in ls[1:]:
                acc = p.add("add", [acc, l], f"${acc} + ${l}", "I", orc_add(p.nodes[acc].orc, p.nodes[l].orc))
            if isinstance(p.nodes[acc].orc, L):
                e = p.add("add", [root, acc], f"${root} + ${acc}", "I", orc_add(a, p.nodes[acc].orc))
        elif ext == "push" and a.finite():
            x = rng.randrange(-9, 30)
            e = p.add("push", [root, x], f"${root}.push({lit(x)})", "I", orc_push(a, x))
        elif ext == "insert" and a.finite():
            i, x = rng.randrange(-a.n, a.n + 1) if a.n else 0, rng.randrange(-9, 30)
            e = p.add("insert", [root, i, x], f"${root}.insert({lit(i)}, {lit(x)})", "I", orc_insert(a, i, x))
        if e is not None and isinstance(p.nodes[e].orc, L) and (not p.nodes[e].orc.finite() or p.nodes[e].orc.n <= 40):
            observe_fully(p, e, rng)
        # the operands are unchanged
        observe(p, root, "final")
    return p, style


# ---------------------------------------------------------------- running and comparing

def canon_impl(d):
    if d.startswith("(error "):
        return ERR
    if d.startswith("panic "):
        return "PANIC"
    return d


def canon_model(s):
    if s.startswith("ERR:"):
        return ERR
    if s.startswith("PANIC:"):
        return "PANIC"
    return s


def expected(orc):
    """what the oracle demands of a node's dump: a string, a list of accepted strings, or None (lazy: only
    observed through other nodes)"""
    if orc is ERR:
        return [ERR]
    if isinstance(orc, tuple) and orc[0] == "v":
        return [orc[1]]
    if isinstance(orc, tuple) and orc[0] == "alt":
        return list(orc[1])
    return None


def run_programs(progs, batch):
    """returns per program: list of dumps, or ('fail', reason)"""
    out = [None] * len(progs)
    groups = [list(range(i, min(i + batch, len(progs)))) for i in range(0, len(progs), batch)]

    def mk(idx):
        src = "".join(progs[j].source(prefix=f"p{j}_") for j in idx)
        get = [f"p{j}_{k}" for j in idx for k in range(len(progs[j].nodes))]
        return {"op": "run", "src": src, "get": get}

    resps = run_harness([mk(g) for g in groups], per_req_timeout=20.0)
    singles = []
    for g, r in zip(groups, resps):
        f = _resp_fail(r)
        if f is None:
            for j in g:
                out[j] = [r["vals"][f"p{j}_{k}"] for k in range(len(progs[j].nodes))]
        elif len(g) == 1:
            out[g[0]] = ("fail", f)
        else:
            singles.extend(g)
    if singles:
        resps = run_harness([mk([j]) for j in singles], per_req_timeout=20.0)
        for j, r in zip(singles, resps):
            f = _resp_fail(r)
            out[j] = ("fail", f) if f is not None else [r["vals"][f"p{j}_{k}"] for k in range(len(progs[j].nodes))]
    return out


def first_failing_prefix(p):
    """smallest k such that the program made of the first k nodes fails as a whole; returns (k, reason, dumps of k-1)"""
    lo, hi = 1, len(p.nodes)
    reason = None
    while lo < hi:
        mid = (lo + hi) // 2
        r = run_harness([{"op": "run", "src": p.source(prefix="v", upto=mid), "get": []}], per_req_timeout=20.0)[0]
        f = _resp_fail(r)
        if f is None:
            lo = mid + 1
        else:
            hi, reason = mid, f
    if reason is None:
        r = run_harness([{"op": "run", "src": p.source(prefix="v", upto=lo), "get": []}], per_req_timeout=20.0)[0]
        reason = _resp_fail(r) or "?"
    return lo, reason


def replay_of(p, k):
    """a self-contained replay: the program up to node k"""
    return {"src": p.source(prefix="v", upto=k + 1), "get": [f"v{k}"], "model": p.model_line(upto=k + 1)}


def lazy_tag(d):
    return d.split()[1].rstrip(")") if d.startswith("(lazyseq") else None


def compare(chk, p, impl, model):
    """impl: list of dumps or ('fail', reason); model: list of dumps"""
    if isinstance(impl, tuple):
        k, reason = first_failing_prefix(p)
        node = p.nodes[k - 1]
        kind = "panic" if reason.startswith("panic") else reason.split()[0]
        mk = canon_model(model[k - 1]) if k - 1 < len(model) else "?"
        chk.count("impl-fail:" + kind)
        chk.violation(f"lang:{node.op}:{kind}", f"`{node.src.replace('$', 'v')}` makes the program fail ({reason}); list semantics give "
                      f"{expected(node.orc) or 'a sequence'}", replay_of(p, k - 1))
        if kind == "panic" and mk != "PANIC":
            chk.violation(f"tie:{node.op}:panic", f"the implementation panics ({reason}) where the model answers {model[k - 1]}",
                          replay_of(p, k - 1), no_input=True)
        return
    for k, node in enumerate(p.nodes):
        chk.evaluations += 1
        d, m = canon_impl(impl[k]), canon_model(model[k])
        exp = expected(node.orc)
        tagop = node.op + (":unchanged" if node.phase == "final" else "")
        chk.count("op:" + (node.op if node.op != "opaque" else "plain:" + node.phase))
        if exp is None and isinstance(node.orc, L) and d.startswith("(seq") and node.orc.finite() and node.orc.n <= 4096:
            exp = [node.orc.dump()]
        if exp is not None:
            chk.count("outcome:" + ("error" if exp == [ERR] else "value"))
            if d not in exp:
                kind = "panic" if d == "PANIC" else ("unexpected-error" if d == ERR else ("missing-error" if exp == [ERR] else "wrong"))
                what = (f"`{node.src.replace('$', 'v')}` evaluates to {impl[k][:300]}; list semantics give {exp[0][:300]}"
                        + (" (re-observed after later operations: an input was altered?)" if node.phase == "final" else ""))
                chk.violation(f"lang:{tagop}:{kind}", what, replay_of(p, k))
                continue
        else:
            chk.count("outcome:lazy")
            if not d.startswith("(lazyseq"):
                chk.violation(f"lang:{tagop}:wrong", f"`{node.src.replace('$', 'v')}` evaluates to {impl[k][:300]}; a sequence was expected",
                              replay_of(p, k))
                continue
        if node.op == "opaque":
            continue          # outside the model: implementation vs oracle only
        if m != d:
            if lazy_tag(d) and lazy_tag(m):
                chk.violation(f"tie:repr:{node.op}", f"representation differs for `{node.src.replace('$', 'v')}`: impl {impl[k]} model {model[k]}",
                              replay_of(p, k), no_input=True)
            else:
                chk.violation(f"tie:{node.op}", f"model disagrees with the implementation (which matches the oracle) on "
                              f"`{node.src.replace('$', 'v')}`: impl {impl[k][:200]} model {model[k][:200]}", replay_of(p, k), no_input=True)
        elif d == ERR and impl[k][8:-2] != model[k][4:]:
            chk.count("drift:error-message")
            chk.sample({"error-message-drift": [impl[k], model[k]]}, limit=12)
        t = lazy_tag(d)
        if t:
            chk.count("repr:" + t)
            chk.nontrivial.add((node.op, t, node.ty))


CORPUS = [
    # (model nodes, source) pairs are generated from these op lists; each is a past failure or a DESIGN §7 witness
    [("arr", [1]), ("pop", [0, 0]), ("pop", [1, 0])],
    [("range", [I64_MIN, I64_MAX]), ("len", [0]), ("add", [0, 0]), ("arr", [1]), ("add", [0, 3]), ("len", [4])],
    [("range", [10, 0, I64_MIN]), ("len", [0]), ("toarr", [0])],
    [("count", []), ("skip", [0, 2**64 - 1]), ("get", [1, 1]), ("skip", [1, 1]), ("get", [3, 0]), ("get", [1, 0])],
    [("range", [-I64_MAX, 3]), ("count", []), ("add", [0, 1]), ("add", [0, 2]), ("arr", [1]), ("add", [4, 2]), ("len", [5])],
    # Chain + Chain with a three-part right operand: the right-hand midpoints are cumulative, not per-part lengths
    [("arr", [-1]), ("arr", [0]), ("add", [0, 1]), ("range", [1, 2]), ("range", [2, 4]), ("arr", [4]), ("add", [3, 4]), ("add", [6, 5]),
     ("add", [2, 7]), ("len", [8]), ("toarr", [8]), ("get", [8, -1]), ("get", [8, 4])],
    [("arr", [1, 2, 3]), ("insert", [0, 3, 9]), ("range", [0]), ("insert", [2, 0, 9]), ("insert", [0, 4, 9]), ("insert", [0, -4, 9])],
    # zip evaluates every argument before the emptiness shortcut (an erroring later argument is not swallowed)
    [("range", [0]), ("arr", [1]), ("take", [1, -1]), ("zip", [0, 2]), ("zip", [0, 1, 2]), ("zip", [0, 1])],
    # combinations of nothing, combinations with replacement longer than the source
    [("arr", [1, 2, 3]), ("plain:comb", [0, 0]), ("plain:combr", [0, 0]), ("arr", [1, 2]), ("plain:combr", [3, 3]), ("range", [0]),
     ("plain:comb", [5, 0]), ("plain:perm", [0, None]), ("plain:perm", [5, None])],
]


def corpus_program(ops):
    p = Prog()
    for op, args in ops:
        if op == "arr":
            p.add("arr", args, "[" + ", ".join(lit(x) for x in args) + "]", "I", L(list(args)))
        elif op == "range":
            p.add("range", args, "range(" + ", ".join(lit(a) for a in args) + ")", "I", orc_range(args))
        elif op == "count":
            p.add("count", [], "count()", "I", orc_count())
        else:
            k = args[0]
            a = p.nodes[k].orc
            ty = p.nodes[k].ty
            if op == "zip":
                os_ = [p.nodes[j].orc for j in args]
                p.add(op, args, "zip(" + ", ".join(f"${j}" for j in args) + ")", f"P{len(args)}",
                      orc_zip(os_) if all(isinstance(o, L) for o in os_) else ERR)
            elif not isinstance(a, L):
                p.add(op, args, {"len": f"${k}.len()", "get": f"${k}[{lit(args[-1])}]"}.get(op, f"${k}.{op}()"), ty, ERR)
            elif op == "pop":
                p.add(op, args, f"${k}.pop({lit(args[1])})", ty, orc_pop(a, args[1]))
            elif op == "len":
                p.add(op, args, f"${k}.len()", "int", orc_len(a))
            elif op == "toarr":
                p.add(op, args, f"${k}.to_array()", ty, orc_toarr(a))
            elif op == "add":
                b = p.nodes[args[1]].orc
                p.add(op, args, f"${k} + ${args[1]}", ty, orc_add(a, b) if isinstance(b, L) else ERR)
            elif op == "skip":
                p.add(op, args, f"${k}.skip({lit(args[1])})", ty, orc_skip(a, args[1]))
            elif op == "get":
                p.add(op, args, f"${k}[{lit(args[1])}]", "elem", orc_get(a, args[1]))
            elif op == "insert":
                p.add(op, args, f"${k}.insert({lit(args[1])}, {lit(args[2])})", ty, orc_insert(a, args[1], args[2]))
            elif op == "take":
                p.add(op, args, f"${k}.take({lit(args[1])})", ty, orc_take(a, args[1]))
            elif op == "zip":
                os_ = [p.nodes[j].orc for j in args]
                p.add(op, args, "zip(" + ", ".join(f"${j}" for j in args) + ")", f"P{len(args)}",
                      orc_zip(os_) if all(isinstance(o, L) for o in os_) else ERR)
            elif op.startswith("plain:"):
                kind = op[6:]
                src = PLAIN_SRC[kind].replace("${k}", f"${k}").replace("{a}", "" if args[1] is None else lit(args[1])).replace("{{", "{").replace("}}", "}")
                n_ = p.add("opaque", [], src, "plain", orc_plain(kind, a.tolist(), args[1]))
                p.nodes[n_].phase = kind
    return p


def run(chk):
    rng = chk.rng
    quick = chk.tier == "quick"
    chk.trusted += [
        "Python lists (lazy index functions for huge/infinite sequences) as the independent list-semantics oracle",
        "capacity conventions of the oracle: range arguments, indices and counts are 64-bit; requests beyond (index or count >= 2^64, "
        "total length >= 2^64, reverse of a sequence longer than 2^63-1) are out of range and must be error values",
        "Map closures are modelled as closed descriptions (affine x*a+b, tuple projection, a[offset-1-idx], a[idx%length]); "
        "user-supplied functions with effects or errors are outside the model (C06/C16)",
    ]
    ok = chk.prove()
    if not ok:
        handle_broken(chk)

    progs = [corpus_program(c) for c in CORPUS]
    n_prog = 700 if quick else 60000
    for i in range(n_prog):
        if quick:
            n_ops = rng.choice([1, 2, 3, 4, 5, 6])
        else:
            n_ops = rng.choice([1, 2, 3, 4, 5, 6, 7, 8, 9, 10, 11, 12])
        progs.append(gen_program(rng, n_ops))
        chk.count("programs:ops=%d" % n_ops)

    # concatenation trees of every shape (every style at every leaf count first, then random ones)
    n_chain = 160 if quick else 6000
    combos = [(st, n) for n in (3, 4, 5, 6, 7, 8) for st in ("left", "right", "balanced", "split2", "split3", "split4")]
    for i in range(n_chain):
        if i < len(combos):
            cp, st = gen_chain_program(rng, style=combos[i][0], n_leaves=combos[i][1])
        else:
            cp, st = gen_chain_program(rng)
        progs.append(cp)
        chk.count("chain-tree:" + st)

    impl = run_programs(progs, batch=8)
    model = run_model([p.model_line() for p in progs])
    for p, ri, rm in zip(progs, impl, model):
        if rm == "bad-op":
            chk.violation("tie:bad-op", "the model driver rejects a generated program", {"model": p.model_line()}, no_input=True)
            continue
        compare(chk, p, ri, rm.split(" | "))
    for p in progs[len(CORPUS):len(CORPUS) + 3]:
        chk.sample({"program": p.source(), "model": p.model_line()})
    return chk.finish(rule="SSA programs of 1-6 (quick) / 1-12 (thorough) sequence operations over literal arrays, ranges (small and with "
                           "64-bit edge arguments), count(), count(start, offset), empty sequences and earlier results; indices and counts at "
                           "-len-1, -len, -1, 0, len-1, len, len+1, random in range and 2^63/2^64 neighbours; every sequence node observed when "
                           "created and again at the end; non-trivial = distinct (operation, lazy representation produced, element type); plus concatenation trees of "
                           "every shape (left/right-deep, balanced, (k)+(n-k), random) over 2-8 leaves of every representation, built through "
                           "let-bound intermediates, extended by +/push/insert, observed at every index, every take/skip boundary, "
                           "nth/first/last, reverse, == with the flat array, to_array twice")


def replay(path):
    r = json.load(open(path))["replay"]
    resp = run_harness([{"op": "run", "src": r["src"], "get": r.get("get", [])}])[0]
    print(json.dumps(resp)[:2000])
    if "model" in r:
        print(run_model([r["model"]])[0])
    return 0
