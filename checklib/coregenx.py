"""Extended core fragment (additive to coregen.py): unions, optionals, optional map_or / or / and, sequence
get / index sugar / push / len, `!:` and `?:`.  Generator, printers (xray source, S-expression for the Lean
model `XrayModel/CoreX.lean`, driver op `core runx`) and the extended Python reference evaluator.

New AST nodes:
  expr : ('variant', tag, e)  U::a(e) / U::b(e)      ('mval', e, tag)  e!:a      ('mopt', e, tag)  e?:a
         calls of some / value / has_value / map_or / or / and / get / push / len and of the prelude helpers
  type : 'U' | ('opt', ty) | ('arr', ty)
The union is fixed:  union U (a: int, b: str)   — tag 0 carries an int, tag 1 a str.
"""
import sys
from . import coregen as cg
from .coregen import XErr, Closure, TailCall, Stuck, Violation

UNION_DECL = ('raw', 'union U (\n a: int,\n b: str,\n)')
VARIANTS = ['a', 'b']
VARIANT_TY = ['int', 'str']

# typed helpers, so that `none()` and `[]` never need type inference from the context
X_PRELUDE = [
    UNION_DECL,
    ('fn', 'none_int', [], ('opt', 'int'), [], ('c', 'none', [])),
    ('fn', 'none_str', [], ('opt', 'str'), [], ('c', 'none', [])),
    ('fn', 'empty_int', [], ('arr', 'int'), [], ('arr', [], 'int')),
]

# error values of the extended types with a message of the caller's choice (error injection)
X_ERR_PRELUDE = [
    ('fn', 'err_arr', [('m', 'str', None)], ('arr', 'int'), [], ('c', 'error', [('v', 'm')])),
    ('fn', 'err_opt', [('m', 'str', None)], ('opt', 'int'), [], ('c', 'error', [('v', 'm')])),
    ('fn', 'err_u', [('m', 'str', None)], 'U', [], ('c', 'error', [('v', 'm')])),
    ('fn', 'err_fn', [('m', 'str', None)], ('fn', ['int'], 'int'), [], ('c', 'error', [('v', 'm')])),
]


def ty_str(t):
    if isinstance(t, str):
        return t
    if t[0] == 'opt':
        return 'Optional<' + ty_str(t[1]) + '>'
    if t[0] == 'tup':
        return '(' + ', '.join(ty_str(x) for x in t[1]) + ')'
    if t[0] == 'fn':
        return '(' + ', '.join(ty_str(x) for x in t[1]) + ')->(' + ty_str(t[2]) + ')'
    if t[0] == 'arr':
        return 'Sequence<' + ty_str(t[1]) + '>'
    raise ValueError(t)


class Printer(cg.Printer):
    def expr(self, e, prec=0):
        k = e[0]
        if k == 'variant':
            return f'U::{VARIANTS[e[1]]}(' + self.expr(e[2]) + ')'
        if k == 'mval':
            return self.expr(e[1], 9) + '!:' + VARIANTS[e[2]]
        if k == 'mopt':
            return self.expr(e[1], 9) + '?:' + VARIANTS[e[2]]
        if k == 'c' and e[1] == 'get' and len(e[2]) == 2 and self.pick(3) == 1:
            return self.expr(e[2][0], 9) + '[' + self.expr(e[2][1]) + ']'
        return super().expr(e, prec)

    def params(self, ps):
        out = []
        for (n, t, d) in ps:
            out.append(f'{n}: {ty_str(t)}' + (f' ?= {self.expr(d)}' if d is not None else ''))
        return ', '.join(out)

    def decl(self, d):
        if d[0] == 'let':
            ann = f': {ty_str(d[3])}' if (d[3] is not None and self.pick(3) == 1) else ''
            return f'let {d[1]}{ann} = {self.expr(d[2])};\n'
        if d[0] == 'fn':
            return f'fn {d[1].split("@")[0]}({self.params(d[2])})->{ty_str(d[3])}{{\n{self.decls(d[4])}{self.expr(d[5])}\n}}\n'
        return super().decl(d)


# ------------------------------------------------------------------------------------------------ S-expressions

def sexp_expr(e):
    k = e[0]
    if k == 'i':
        return f'(i {e[1]})'
    if k == 'b':
        return '(b true)' if e[1] else '(b false)'
    if k == 's':
        return f'(s {e[1]})' if e[1] else '(s)'
    if k == 'v':
        return f'(v {e[1]})'
    if k == 'c':
        return '(c ' + e[1] + ''.join(' ' + sexp_expr(a) for a in e[2]) + ')'
    if k == 'ce':
        return '(ce ' + sexp_expr(e[1]) + ''.join(' ' + sexp_expr(a) for a in e[2]) + ')'
    if k == 'lam':
        return '(lam (' + ' '.join(sexp_param(p) for p in e[1]) + ') (' + ' '.join(sexp_decl(d) for d in e[2]) + ') ' + sexp_expr(e[3]) + ')'
    if k == 'tup':
        return '(tup' + ''.join(' ' + sexp_expr(a) for a in e[1]) + ')'
    if k == 'arr':
        return '(arr' + ''.join(' ' + sexp_expr(a) for a in e[1]) + ')'
    if k == 'item':
        return f'(item {sexp_expr(e[1])} {e[2]})'
    if k == 'variant':
        return f'(variant {e[1]} {sexp_expr(e[2])})'
    if k == 'mval':
        return f'(mval {sexp_expr(e[1])} {e[2]})'
    if k == 'mopt':
        return f'(mopt {sexp_expr(e[1])} {e[2]})'
    raise ValueError(e)


def sexp_param(p):
    return f'(p {p[0]})' if p[2] is None else f'(pd {p[0]} {sexp_expr(p[2])})'


def sexp_decl(d):
    if d[0] == 'let':
        return f'(let {d[1]} {sexp_expr(d[2])})'
    if d[0] == 'fn':
        return f'(fn {d[1]} (' + ' '.join(sexp_param(p) for p in d[2]) + ') (' + ' '.join(sexp_decl(x) for x in d[4]) + ') ' + sexp_expr(d[5]) + ')'
    raise ValueError(d)


def sexp_program(ds):
    return '(prog ' + ' '.join(sexp_decl(d) for d in ds if d[0] != 'raw') + ')'


def model_line(ds, depth=None, calls=None, rec=None, tco=True, fuel=2000000):
    f = lambda x: '-' if x is None else str(x)
    return f'core runx {f(depth)} {f(calls)} {f(rec)} {1 if tco else 0} {fuel} {sexp_program(ds)}'


# ------------------------------------------------------------------------------------------------ reference evaluator

NONE = ('none',)
STRICT_X = {'some', 'none', 'value', 'has_value', 'get', 'push'}


def dump(v):
    if isinstance(v, tuple) and v[0] == 'variant':
        return f'(union {v[1]} ' + dump(v[2]) + ')'
    if isinstance(v, tuple) and v[0] == 'some':
        return '(some ' + dump(v[1]) + ')'
    if isinstance(v, tuple) and v[0] == 'none':
        return '(none)'
    if isinstance(v, tuple) and v[0] == 'tup':
        return '(struct' + ''.join(' ' + dump(x) for x in v[1]) + ')'
    if isinstance(v, tuple) and v[0] == 'arr':
        return '(seq' + ''.join(' ' + dump(x) for x in v[1]) + ')'
    return cg.dump(v)


def prim_x(f, a):
    """documented behaviour of the strict natives of the extension, on error-free arguments"""
    if f == 'some':
        return ('some', a[0])
    if f == 'none':
        return NONE
    if f == 'value':
        if a[0][0] == 'some':
            return a[0][1]
        return XErr(a[1] if len(a) > 1 else 'optional has no value')
    if f == 'has_value':
        return a[0][0] == 'some'
    if f == 'get':
        items, i = a[0][1], a[1]
        if i < 0:
            i += len(items)
            if i < 0:
                return XErr('index too low')
        if i >= len(items):
            return XErr('index out of bounds')
        return items[i]
    if f == 'push':
        return ('arr', list(a[0][1]) + [a[1]])
    raise Stuck('prim ' + f)


class RefEval(cg.RefEval):
    """the documented semantics of the extension: construction of a union / optional / sequence with an erroring
    part is that error; `!:` of the wrong variant is an error value, `?:` an optional; optional `or` / `and` /
    `map_or` evaluate only the selected argument (in tail position) and an erroring first argument is the result."""

    def eval(self, e, env, selfc, height, tail):
        k = e[0]
        if k == 'variant':
            self.evals += 1
            v = self.eval(e[2], env, selfc, height, False)
            return v if isinstance(v, XErr) else ('variant', e[1], v)
        if k in ('mval', 'mopt'):
            self.evals += 1
            u = self.eval(e[1], env, selfc, height, False)
            if isinstance(u, XErr):
                return u
            if not (isinstance(u, tuple) and u[0] == 'variant'):
                raise Stuck('member of non-union')
            if k == 'mval':
                return u[2] if u[1] == e[2] else XErr('value is of incorrect variant')
            return ('some', u[2]) if u[1] == e[2] else NONE
        return super().eval(e, env, selfc, height, tail)

    def call_val(self, c, args, env, selfc, height):
        # a call whose callee is an error value is that error (the arguments are not evaluated)
        if isinstance(c, XErr):
            return c
        return super().call_val(c, args, env, selfc, height)

    def builtin(self, f, args, env, selfc, height, tail):
        ev = lambda e, t=False: self.eval(e, env, selfc, height, t)
        if f in ('and', 'or') and len(args) == 2:
            a = ev(args[0])
            if isinstance(a, XErr):
                return a
            if isinstance(a, bool):
                if f == 'and':
                    return ev(args[1], tail) if a else False
                return True if a else ev(args[1], tail)
            if isinstance(a, tuple) and a[0] in ('some', 'none'):
                if f == 'and':
                    return ev(args[1], tail) if a[0] == 'some' else a
                return a[1] if a[0] == 'some' else ev(args[1], tail)
            raise Stuck(f)
        if f == 'map_or' and len(args) == 3:
            o = ev(args[0])
            if isinstance(o, XErr):
                return o
            if o[0] == 'none':
                return ev(args[2], tail)
            fn = ev(args[1])
            if isinstance(fn, XErr):
                return fn
            if not isinstance(fn, Closure):
                raise Stuck('map_or of a non-function')
            return self.call_user(fn, [o[1]], height)
        if f in STRICT_X:
            vs = self.eval_list(args, env, selfc, height)
            if isinstance(vs, XErr):
                return vs
            return prim_x(f, vs)
        return super().builtin(f, args, env, selfc, height, tail)

    def run(self, decls):
        sys.setrecursionlimit(100000)
        env = []
        res = {'outcome': 'ok'}
        try:
            env = self.eval_decls([d for d in decls if d[0] != 'raw'], [], None, 0)
        except Violation as v:
            res['outcome'] = 'viol:' + v.kind
        res['vals'] = {n: dump(v) for (n, v) in reversed(env)}
        res['out'] = list(self.out)
        res['calls'] = self.calls
        res['all_calls'] = self.all_calls
        res['max_depth'] = self.max_depth
        res['max_rec'] = self.max_rec
        return res


# ------------------------------------------------------------------------------------------------ generator

OPT_INT, OPT_STR, ARR_INT = ('opt', 'int'), ('opt', 'str'), ('arr', 'int')
NEW_TYPES = [OPT_INT, OPT_STR, ARR_INT, 'U']


class Gen(cg.Gen):
    """adds the extended types and, for the base types, the consumers of the new values"""

    def __init__(self, rng, x_rate=0.35, **kw):
        super().__init__(rng, **kw)
        self.x_rate = x_rate

    def rand_type(self, depth=0, allow_fn=True):
        if self.rng.random() < 0.25:
            return self.rng.choice(NEW_TYPES)
        return super().rand_type(depth, allow_fn)

    def lit(self, ty):
        rng = self.rng
        if ty == 'U':
            tag = rng.randrange(2)
            return ('variant', tag, self.lit(VARIANT_TY[tag]))
        if isinstance(ty, tuple) and ty[0] == 'opt':
            if rng.random() < 0.35:
                return ('c', 'none_' + ty[1], [])
            return ('c', 'some', [self.lit(ty[1])])
        if isinstance(ty, tuple) and ty[0] == 'arr':
            n = rng.choice([0, 1, 2, 3])
            if n == 0:
                return ('c', 'empty_int', [])
            return ('arr', [self.lit(ty[1]) for _ in range(n)], ty[1])
        return super().lit(ty)

    def small_index(self):
        return ('i', self.rng.choice([0, 0, 1, 1, 2, 3, -1, -1, -2, -3, -4, 5, 2**64, -2**64]))

    def expr(self, ty, env, depth):
        rng = self.rng
        d = depth + 1
        is_new = ty == 'U' or (isinstance(ty, tuple) and ty[0] in ('opt', 'arr'))
        if is_new:
            if depth >= self.max_depth or rng.random() < 0.12:
                vs = self.vars_of(env, ty)
                if vs and rng.random() < 0.7:
                    return ('v', rng.choice(vs))
                return self.lit(ty)
            choices = ['if', 'make', 'make', 'make']
            vs = self.vars_of(env, ty)
            if vs:
                choices += ['var'] * 2
            fs = self.fns_returning(env, ty)
            if fs:
                choices += ['callfn'] * 2
            if ty != 'U' and ty[0] == 'opt':
                choices += ['mopt', 'mopt', 'and', 'none']
            if ty != 'U' and ty[0] == 'arr':
                choices += ['push', 'push']
            c = rng.choice(choices)
            if c == 'var':
                return ('v', rng.choice(vs))
            if c == 'callfn':
                n, t = rng.choice(fs)
                return ('c', n, [self.expr(pt, env, d) for pt in t[1]])
            if c == 'if':
                return ('c', 'if', [self.expr('bool', env, d), self.expr(ty, env, d), self.expr(ty, env, d)])
            if c == 'none':
                return ('c', 'none_' + ty[1], [])
            if c == 'mopt':
                return ('mopt', self.expr('U', env, d), VARIANT_TY.index(ty[1]))
            if c == 'and':
                # and(x: Optional<T>, y: Optional<T>): both of the result type
                return ('c', 'and', [self.expr(ty, env, d), self.expr(ty, env, d)])
            if c == 'push':
                return ('c', 'push', [self.expr(ty, env, d), self.expr(ty[1], env, d)])
            # make
            if ty == 'U':
                tag = rng.randrange(2)
                return ('variant', tag, self.expr(VARIANT_TY[tag], env, d))
            if ty[0] == 'opt':
                return ('c', 'some', [self.expr(ty[1], env, d)])
            return ('arr', [self.expr(ty[1], env, d) for _ in range(rng.choice([1, 2, 3]))], ty[1])
        if ty in ('int', 'str', 'bool') and depth < self.max_depth and rng.random() < self.x_rate:
            if ty == 'bool':
                return ('c', 'has_value', [self.expr(rng.choice([OPT_INT, OPT_STR]), env, d)])
            ot = ('opt', ty)
            cs = ['value', 'mval', 'or', 'map_or']
            if ty == 'int':
                cs += ['get', 'get', 'len']
            c = rng.choice(cs)
            if c == 'value':
                return ('c', 'value', [self.expr(ot, env, d)])
            if c == 'mval':
                return ('mval', self.expr('U', env, d), VARIANT_TY.index(ty))
            if c == 'or':
                return ('c', 'or', [self.expr(ot, env, d), self.expr(ty, env, d)])
            if c == 'map_or':
                return ('c', 'map_or', [self.expr(ot, env, d), self.lam(('fn', [ty], ty), env, d), self.expr(ty, env, d)])
            if c == 'get':
                idx = self.small_index() if rng.random() < 0.7 else self.expr('int', env, d)
                return ('c', 'get', [self.expr(ARR_INT, env, d), idx])
            return ('c', 'len', [self.expr(ARR_INT, env, d)])
        return super().expr(ty, env, depth)


# ------------------------------------------------------------------------------------------------ three-way case

from .corecheck import Case as _Case


class Case(_Case):
    """a corecheck.Case over the extended fragment: xray source by the extended printer, model request
    `core runx`, oracle = the extended reference evaluator"""

    def __init__(self, ds, tag, depth=None, calls=None, rec=None, printer_rng=None, sugar=True, src=None, **kw):
        if src is None:
            src = Printer(printer_rng, sugar=sugar).program(ds)
        super().__init__(ds, tag, depth=depth, calls=calls, rec=rec, src=src, **kw)

    def line(self):
        return model_line(self.ds, self.depth, self.calls, self.rec, True, self.fuel)

    def oracle(self):
        ev = RefEval(self.depth, self.calls, self.rec, tco=self.oracle_tco)
        try:
            r = ev.run(self.ds)
        except Stuck as e:
            return {"outcome": "oracle-stuck " + str(e)}, ev
        except RecursionError:
            return {"outcome": "oracle-recursion"}, ev
        return cg.canon_oracle(r, self.names), ev


# ------------------------------------------------------------------------------------------------ targeted programs

def _ok_arg(ty, i, variant=0):
    """an error-free argument of type ty whose evaluation is visible (it displays i)"""
    d = ('c', 'display', [('i', i)])
    if ty == 'int':
        return d
    if ty == ARR_INT:
        return ('arr', [d, ('i', 20 + i)], 'int') if variant == 0 else ('c', 'empty_int', [])
    if ty == OPT_INT:
        return ('c', 'some', [d]) if variant == 0 else ('c', 'and', [('c', 'some', [d]), ('c', 'none_int', [])])
    if ty == 'U':
        return ('variant', 0, d) if variant == 0 else ('variant', 1, ('c', 'to_str', [d]))
    if ty == 'fn':
        return ('lam', [('q', 'int', None)], [], ('c', 'add', [('c', 'display', [('v', 'q')]), ('i', 1000)]), 'int')
    raise ValueError(ty)


def _err_arg(ty, msg):
    h = {'int': 'err_int', ARR_INT: 'err_arr', OPT_INT: 'err_opt', 'U': 'err_u', 'fn': 'err_fn'}[ty]
    return ('c', h, [('s', msg)])


X_NATIVES = [  # name, argument types, result type
    ('some', ['int'], OPT_INT), ('value', [OPT_INT], 'int'), ('has_value', [OPT_INT], 'bool'),
    ('len', [ARR_INT], 'int'), ('push', [ARR_INT, 'int'], ARR_INT), ('get', [ARR_INT, 'int'], 'int'),
    ('or', [OPT_INT, 'int'], 'int'), ('and', [OPT_INT, OPT_INT], OPT_INT), ('map_or', [OPT_INT, 'fn', 'int'], 'int'),
]


def targeted_programs():
    """every native / constructor of the extension x every subset of erroring arguments (unique messages) x
    both shapes of the first argument (some / none, non-empty / empty, variant a / b); each erroring or displaying
    argument is observable, so 'the leftmost error, nothing after it evaluated' is checked exactly"""
    out = []
    for name, tys, rty in X_NATIVES:
        k = len(tys)
        for variant in (0, 1):
            for mask in range(0, 2 ** k):
                args = [_err_arg(t, f'{name}{i}') if (mask >> i) & 1 else _ok_arg(t, i, variant if i == 0 else 0)
                        for i, t in enumerate(tys)]
                call = ('c', name, args)
                ds = cg.ERR_PRELUDE + X_PRELUDE + X_ERR_PRELUDE + [
                    ('let', 'r', call, None),
                    ('let', 'h', ('c', 'is_error', [call]), 'bool'),
                    ('let', 't', ('tup', [('i', 1), call]), None),
                ]
                if rty == 'int':
                    ds.append(('let', 'w', ('c', 'if_error', [call, ('i', -7)]), 'int'))
                    ds.append(('let', 's', ('c', 'some', [call]), None))
                    ds.append(('let', 'u', ('variant', 0, call), None))
                    ds.append(('let', 'p', ('c', 'push', [('c', 'empty_int', []), call]), None))
                out.append((ds, f'x-leftmost-{name}'))
    # union construction and access
    for variant in (0, 1):
        for erring in (False, True):
            payload = _err_arg('int', 'pay') if erring else _ok_arg('int', 5)
            u = ('variant', 0, payload) if variant == 0 else ('variant', 1, ('c', 'to_str', [payload]))
            ds = cg.ERR_PRELUDE + X_PRELUDE + X_ERR_PRELUDE + [('let', 'u', u, None)]
            for tag in (0, 1):
                ds.append(('let', f'mv{tag}', ('mval', u, tag), None))
                ds.append(('let', f'mo{tag}', ('mopt', u, tag), None))
                ds.append(('let', f'hv{tag}', ('c', 'has_value', [('mopt', ('v', 'u'), tag)]), None))
            ds.append(('let', 'eu0', ('mval', _err_arg('U', 'eu'), 0), None))
            ds.append(('let', 'eu1', ('mopt', _err_arg('U', 'eu'), 1), None))
            out.append((ds, 'x-union'))
    # index normalisation: every index around the bounds for lengths 0..3
    for n in range(0, 4):
        arr = ('arr', [('i', 10 + j) for j in range(n)], 'int') if n else ('c', 'empty_int', [])
        ds = cg.ERR_PRELUDE + X_PRELUDE + [('let', 'a', arr, ARR_INT)]
        for j, i in enumerate(list(range(-n - 2, n + 2)) + [2 ** 63, -2 ** 63, 2 ** 64 + 1, -2 ** 64 - 1]):
            ds.append(('let', f'g{j}', ('c', 'get', [('v', 'a'), ('i', i)]), 'int'))
        out.append((ds, 'x-index'))
    return out
