"""C05 — Overload resolution is ranked, unambiguous and stable.
Proofs: lean/Props/C05.lean over lean/XrayModel/Overload.lean (+ Types.lean).
Tie: through the language.  Sets of 1-6 same-named user overloads (generic / non-generic, optional parameters,
declared at the root or inside the calling function, also under names the standard library overloads), each
returning a distinct tag; a call with fully known argument types; observed: which body ran or the compile error
class.  The candidate list the compiler iterates over (user overloads + the library's overloads of that name, the
dynamic ones represented by the spec their factory produces, obtained through the `ovl list` hook) goes to the
Lean model's `resolve`.  Oracle: `rank_oracle`, the ranking rule as the property states it, with the independent
assignability oracle of C04 for "matches".  Metamorphic variants: permutations of the declaration order,
alpha-renaming of generic parameters, addition of overloads that do not match."""
import itertools
from .common import *
from .c04 import (Oracle, tstr, src, B, I, F, S, U, G, TUP, NAT, CMP, CALL, FUNC, generics_of, rename)

ARG_EXPRS = [
    (I, "1"), (S, '"a"'), (F, "1.5"), (B, "true"),
    (NAT("Sequence", I), "[1]"), (NAT("Sequence", S), '["a"]'), (NAT("Optional", I), "some(1)"),
    (NAT("Optional", S), 'some("a")'), (TUP(I, S), '(1, "a")'), (NAT("Sequence", NAT("Sequence", I)), "[[1]]"),
    # tuples of arity 0-3, nested, and inside containers (a tuple parameter must match the arity exactly)
    (TUP(), "()"), (TUP(I), "(1,)"), (TUP(I, I), "(1, 2)"), (TUP(I, I, I), "(1, 2, 3)"), (TUP(I, S, F), '(1, "a", 2.5)'),
    (TUP(TUP(I, I), I), "((1, 2), 3)"), (TUP(TUP(I, I, I), I), "((1, 2, 3), 4)"),
    (NAT("Sequence", TUP(I, I)), "[(1, 2)]"), (NAT("Sequence", TUP(I, I, I)), "[(1, 2, 3)]"),
    (NAT("Optional", TUP(I, I)), "some((1, 2))"), (NAT("Optional", TUP(I, I, I)), "some((1, 2, 3))"),
]
PARAM_TYPES = [I, S, F, B, NAT("Sequence", I), NAT("Sequence", S), NAT("Optional", I), TUP(I, S),
               G("T"), G("U"), NAT("Sequence", G("T")), NAT("Optional", G("T")), TUP(G("T"), G("U")),
               NAT("Sequence", NAT("Sequence", G("T"))), TUP(G("T"), G("T")),
               TUP(), TUP(I), TUP(I, I), TUP(I, I, I), TUP(G("T"), G("U"), G("T")), TUP(TUP(I, I), I),
               NAT("Sequence", TUP(I, I)), NAT("Sequence", TUP(I, I, I)), NAT("Optional", TUP(I, I)),
               NAT("Sequence", TUP(G("T"), G("U")))]
NAMES = [("fo", None), ("fo", None), ("fo", None), ("eq", 2), ("to_str", 1), ("add", 2), ("len", 1), ("neg", 1)]


def gen_overload(rng, nargs_hint, args):
    """a user overload: (generics, params, nreq)"""
    m = rng.random()
    n = nargs_hint if (nargs_hint is not None and m < 0.8) else rng.choice([1, 1, 2, 2, 3])
    ps = []
    for i in range(n):
        q = rng.random()
        if i < len(args) and has_tuple(args[i][0]) and q < 0.30:
            ps.append(tuple_variant(rng, args[i][0]))  # the argument type with a tuple of another arity (same prefix)
        elif i < len(args) and q < 0.22 + (0.2 if has_tuple(args[i][0]) else 0):
            ps.append(args[i][0])                      # exactly the argument type
        elif i < len(args) and q < 0.62:
            ps.append(generalise(rng, args[i][0]))     # a generic pattern of it
        else:
            ps.append(rng.choice(PARAM_TYPES))
    nreq = n if rng.random() < 0.6 else rng.randint(0, n)
    gens = sorted({g for p in ps for g in generics_of(p)})
    return (tuple(gens), tuple(ps), nreq)


def has_tuple(t):
    return t[0] == "t" or (t[0] == "n" and any(has_tuple(c) for c in t[2]))


def tuple_variant(rng, t):
    """t with one tuple shortened or extended by an item (the shared prefix still fits item by item)"""
    if t[0] == "n":
        return ("n", t[1], tuple(tuple_variant(rng, c) if has_tuple(c) else c for c in t[2]))
    if t[0] == "t":
        items = list(t[1])
        nested = [i for i, c in enumerate(items) if has_tuple(c)]
        m = rng.random()
        if nested and m < 0.4:
            i = rng.choice(nested)
            items[i] = tuple_variant(rng, items[i])
        elif items and m < 0.7:
            items.pop()
        else:
            items.append(rng.choice([I, S, G("T")]))
        return ("t", tuple(items))
    return t


def generalise(rng, t):
    if rng.random() < 0.4:
        return G(rng.choice(["T", "U"]))
    if t[0] == "n":
        return ("n", t[1], tuple(generalise(rng, c) for c in t[2]))
    if t[0] == "t":
        return ("t", tuple(generalise(rng, c) if rng.random() < 0.7 else c for c in t[1]))
    return t


def decl(name, tag, ov, indent=""):
    gens, ps, nreq = ov
    g = ("<" + ", ".join(gens) + ">") if gens else ""
    params = ", ".join(f"a{i}: {src(p)}" + ("" if i < nreq else ' ?= error("d")') for i, p in enumerate(ps))
    return f"{indent}fn {name}{g}({params})->int{{{tag}}}\n"


def matches(ps, nreq, args):
    return nreq <= len(args) <= len(ps) and Oracle.assign_all(list(zip(ps, args))) is not None


def rank_oracle(cands, args):
    """cands: list of (id, kind 's'|'d', generic?, ps, nreq).  The rule of the property: a matching non-generic
    overload is preferred to generic ones, which are preferred to dynamic ones; several equally ranked matches are
    an ambiguity, no match an error."""
    best = {0: [], 1: [], 2: []}
    for cid, kind, generic, ps, nreq in cands:
        if matches(ps, nreq, args):
            best[2 if kind == "d" else (1 if generic else 0)].append(cid)
    for k in (0, 1, 2):
        if len(best[k]) == 1:
            return ("ok", best[k][0])
        if len(best[k]) > 1:
            return ("AmbiguousOverload", None)
    return ("NoOverload", None)


def parse_func(tokens):
    from .c04 import parse_toks
    t, _ = parse_toks(tokens.split(" "))
    return t


# ---------------------------------------------------------------- call-site positions and scope levels
SITES = ["after", "own-body", "sibling", "lambda"]


def tdecl(name, o, indent, body_extra=""):
    """an overload whose tag is its return type T<tag> (observable at compile time)"""
    gens, ps, nreq = o["ov"]
    g = ("<" + ", ".join(gens) + ">") if gens else ""
    params = ", ".join(f"a{i}: {src(p)}" + ("" if i < nreq else ' ?= error("d")') for i, p in enumerate(ps))
    return f"{indent}fn {name}{g}({params})->T{o['tag']}{{ {body_extra}T{o['tag']}(0) }}\n"


def tforward(name, o, indent):
    gens, ps, nreq = o["ov"]
    g = ("<" + ", ".join(gens) + ">") if gens else ""
    params = ", ".join(f"a{i}: {src(p)}" + ("" if i < nreq else ' ?= error("d")') for i, p in enumerate(ps))
    return f"{indent}forward fn {name}{g}({params})->T{o['tag']};\n"


def gen_site_set(rng):
    """overloads of one name spread over 2-3 scope levels (0 = root, 1 = an enclosing function, 2 = a function nested
    in it); the innermost level has at least one overload, declared last there (it hosts the own-body / lambda sites).
    Each overload: tag (return type T<tag>; copies of a signature share the tag of the original), level, forward-declared?,
    late? (root only: implemented after the enclosing function, so that the forward is still pending at the call site)"""
    name, hint = rng.choice(NAMES)
    nargs = hint if hint is not None else rng.choice([1, 1, 2, 2])
    args = [rng.choice(ARG_EXPRS) for _ in range(nargs)]
    nlevels = rng.choice([2, 2, 3])
    k = rng.choice([1, 2, 2, 3, 3, 4])
    ovs = []
    for i in range(k):
        ovs.append({"tag": i + 1, "ov": gen_overload(rng, nargs, args), "level": rng.randrange(nlevels)})
    # identical / alpha-renamed signatures across levels
    for _ in range(rng.choice([0, 1, 1, 2])):
        o = rng.choice(ovs)
        gens, ps, nreq = o["ov"]
        if rng.random() < 0.4 and gens:
            ren = {"T": "Aa", "U": "Bb"}
            ov2 = (tuple(sorted(ren.get(g, g) for g in gens)), tuple(rename(p, ren) for p in ps), nreq)
        else:
            ov2 = o["ov"]
        lv = rng.choice([l for l in range(nlevels) if l != o["level"]])
        ovs.append({"tag": o["tag"], "ov": ov2, "level": lv})
    if not any(o["level"] == nlevels - 1 for o in ovs):
        rng.choice(ovs)["level"] = nlevels - 1
    for i, o in enumerate(ovs):
        o["id"] = 7001 + i
        same_sig_same_level = sum(1 for x in ovs if x["level"] == o["level"] and x["ov"] == o["ov"] and x["tag"] == o["tag"])
        o["forward"] = same_sig_same_level == 1 and rng.random() < 0.3
        # (a forward declaration that is still pending is invisible to the inner lookups of the library's dynamic
        # overloads, which the candidate listing cannot reproduce: pending forwards only under the user-only name)
        o["late"] = o["forward"] and o["level"] == 0 and name == "fo" and rng.random() < 0.5
    # the enclosing functions are generic themselves; nested overloads reuse (shadow) those names, or not
    outer_gens = rng.sample(["T", "U", "Q"], rng.choice([0, 1, 1, 2]))
    wrap_gens = rng.sample(["T", "U", "Q", "W"], rng.choice([0, 1, 1, 2]))
    for o in ovs:
        if o["level"] >= 1 and o["ov"][0] and rng.random() < 0.5:
            o["ov"] = rename_generics(rng, o["ov"], outer_gens + (wrap_gens if o["level"] == 2 else []))
    ovs[0]["encl"] = (outer_gens, wrap_gens)
    return name, args, nlevels, ovs


def rename_generics(rng, ov, enclosing):
    """rename the generic parameters of an overload injectively: onto names of the enclosing functions' generics when
    there are any (shadowing), otherwise onto fresh names"""
    gens, ps, nreq = ov
    pool = sorted(set(enclosing)) + ["Aa", "Bb", "Cc"]
    rng.shuffle(pool)
    pool.sort(key=lambda g: 0 if g in enclosing else 1)
    if rng.random() < 0.3:
        pool = [g for g in pool if g not in enclosing]
    ren = dict(zip(gens, pool))
    return (tuple(sorted(ren[g] for g in gens)), tuple(rename(p_, ren) for p_ in ps), nreq)


def alpha_variant(rng, ovs):
    """the same set with the generics of the nested overloads renamed (same tags, levels, forwards): the outcome must not change.
    Copies of one signature on one level are renamed alike (a forward declaration and its implementation are one text here)"""
    outer_gens, wrap_gens = ovs[0]["encl"]
    out = []
    for o in ovs:
        o2 = dict(o)
        if o["level"] >= 1 and o["ov"][0]:
            o2["ov"] = rename_generics(rng, o["ov"], outer_gens + (wrap_gens if o["level"] == 2 else []))
        out.append(o2)
    out[0]["encl"] = ovs[0]["encl"]
    return out


def site_program(name, args, nlevels, ovs, site, site_stmt):
    tags = sorted({o["tag"] for o in ovs})
    out = "".join(f"struct T{t}(v: int)\n" for t in tags)
    inner = nlevels - 1
    host = [o for o in ovs if o["level"] == inner][-1]

    def level_text(lv, indent):
        mine = [o for o in ovs if o["level"] == lv]
        t = "".join(tforward(name, o, indent) for o in mine if o["forward"])
        for o in mine:
            if o["late"]:
                continue
            extra = ""
            if o is host and site == "own-body":
                extra = site_stmt + " "
            if o is host and site == "lambda":
                extra = f"let lam = ()->{{ {site_stmt} 0 }}; "
            t += tdecl(name, o, indent, extra)
        return t

    def site_text(indent):
        if site == "after":
            return f"{indent}{site_stmt}\n"
        if site == "sibling":
            return f"{indent}fn sib()->int{{ {site_stmt} 0 }}\n"
        return ""
    out += level_text(0, "")
    outer_gens, wrap_gens = ovs[0]["encl"]

    def header(fname, gens, prefix):
        g = ("<" + ", ".join(gens) + ">") if gens else ""
        return f"fn {fname}{g}({', '.join(f'{prefix}{i}: {x}' for i, x in enumerate(gens))})->int{{\n"
    out += header("outer", outer_gens, "q") + level_text(1, "  ")
    if nlevels == 3:
        out += "  " + header("wrap", wrap_gens, "w") + level_text(2, "    ") + site_text("    ") + "    0\n  }\n"
    else:
        out += site_text("  ")
    out += "  0\n}\n"
    out += "".join(tdecl(name, o, "") for o in ovs if o["late"])
    return out, host


def site_model_line(name, args, nlevels, ovs, site, host, lib):
    """the scope chain of the call site for the model's get_item: innermost first, `<height> <recourse> <n> cands`"""
    a_toks = " ".join(tstr(t) for t, _ in args)

    def cand(o, pending):
        gens, ps, nreq = o["ov"]
        k = "p" if pending else "s"
        return f"{k} {o['id']} " + tstr(FUNC(gens if gens else None, ps, nreq, CMP("S", f"T{o['tag']}")))
    inner = nlevels - 1
    in_body = site in ("own-body", "lambda")
    levels = []
    if site == "lambda":
        levels.append(f"{inner + 3} - 0")
    if site == "sibling":
        levels.append(f"{inner + 2} - 0")
    if in_body:
        gens, ps, nreq = host["ov"]
        rt = tstr(FUNC(gens if gens else None, ps, nreq, CMP("S", f"T{host['tag']}")))
        levels.append(f"{inner + 2} {rt} 1 " + cand(host, False))
    for lv in range(inner, -1, -1):
        cs = []
        if lv == 0:
            for i, c in enumerate(lib):
                kk, spec = c.split(" ", 1)
                cs.append(f"{kk} {100000 + i} {spec}")
        mine = [o for o in ovs if o["level"] == lv]
        # registration order: forward declarations first, then the other overloads in declaration order
        for o in [x for x in mine if x["forward"]] + [x for x in mine if not x["forward"]]:
            if o is host and in_body:
                if o["forward"]:
                    cs.append(cand(o, True))        # its own forward declaration, still pending
                continue                            # otherwise not registered yet in the declaring scope
            cs.append(cand(o, o["late"]))
        levels.append(f"{lv + 1 if lv > 0 else 0} - {len(cs)}" + ("" if not cs else " " + " ".join(cs)))
    return f"ovl resolve_at {len(args)} {a_toks} {len(levels)} " + " ".join(levels)


def run_sites(chk, rng, quick):
    n = 130 if quick else 2500
    sets = [gen_site_set(rng) for _ in range(n)]
    # library candidates in the presence of the user's overloads (all declared flat at the root)
    lreqs = []
    for name, args, nlevels, ovs in sets:
        tags = sorted({o["tag"] for o in ovs})
        pre = "".join(f"struct T{t}(v: int)\n" for t in tags) + "".join(tdecl(name, o, "") for o in ovs)
        lreqs.append({"op": "ovl", "f": "list", "prelude": pre, "name": name, "args": " ".join(tstr(t) for t, _ in args)})
    lresp = run_harness(lreqs, per_req_timeout=30.0)
    progs = []
    for (name, args, nlevels, ovs), r in zip(sets, lresp):
        if "cands" not in r:
            raise BuildError("ovl list failed: " + json.dumps(r)[:300])
        lib = [c for c in r["cands"][:len(r["cands"]) - len(ovs)] if c != "dfail"]
        a_types = [t for t, _ in args]
        cands = [(o["id"], "s", bool(o["ov"][0]), o["ov"][1], o["ov"][2]) for o in ovs]
        sc = False
        for i, c in enumerate(lib):
            kk, spec = c.split(" ", 1)
            f = parse_func(spec)
            if kk in ("S", "D"):
                sc = sc or matches(f[2], f[3], a_types)
            cands.append((100000 + i, "d" if kk in ("d", "D") else "s", f[1] is not None, f[2], f[3]))
        if sc:
            chk.count("site:skipped-short-circuit")
            continue
        want = rank_oracle(cands, a_types)
        call = f"{name}({', '.join(e for _, e in args)})"
        if want[0] == "ok" and want[1] < 100000:
            tag = [o["tag"] for o in ovs if o["id"] == want[1]][0]
            stmt = f"let v: T{tag} = {call};"
            wantc = ("ok", f"T{tag}")
        else:
            stmt = f"let v = {call};"
            wantc = ("ok", "lib") if want[0] == "ok" else (want[0], None)
        for site in SITES:
            p, host = site_program(name, args, nlevels, ovs, site, stmt)
            progs.append((name, args, nlevels, ovs, site, p, wantc, site_model_line(name, args, nlevels, ovs, site, host, lib)))
        # alpha-renaming of the nested overloads' generics (also onto the enclosing functions' generic names)
        if any(o["level"] >= 1 and o["ov"][0] for o in ovs):
            ovs2 = alpha_variant(rng, ovs)
            for site in ("after", "own-body"):
                p, host = site_program(name, args, nlevels, ovs2, site, stmt)
                progs.append((name, args, nlevels, ovs2, "alpha:" + site, p, wantc,
                              site_model_line(name, args, nlevels, ovs2, site, host, lib)))
    resps = run_harness([{"op": "run", "src": x[5], "compile_only": True} for x in progs], per_req_timeout=30.0)
    mres = run_model([x[7] for x in progs])
    first = {}
    for (name, args, nlevels, ovs, site, p, wantc, mline), resp, gm in zip(progs, resps, mres):
        chk.evaluations += 1
        chk.count("site:" + site)
        chk.count(f"site:levels-{nlevels}")
        if any(o["forward"] for o in ovs): chk.count("site:with-forward-declaration")
        if any(o["late"] for o in ovs): chk.count("site:with-pending-outer-forward")
        if len({o["tag"] for o in ovs}) < len(ovs): chk.count("site:identical-signature-across-levels")
        eg = set(ovs[0]["encl"][0]) | set(ovs[0]["encl"][1])
        if eg: chk.count("site:generic-enclosing-function")
        if any(o["level"] >= 1 and set(o["ov"][0]) & eg for o in ovs): chk.count("site:nested-generic-shadows-enclosing")
        replay = {"op": "run", "src": p, "compile_only": True, "site": site, "model": mline}
        c = resp.get("compile")
        if c is None:
            chk.violation("site:panic", f"compiler panicked at call site {site}: {p!r}: {json.dumps(resp)[:300]}", replay)
            continue
        if c == "ok":
            got = "ok"
        elif c.get("class") == "VariableTypeMismatch":
            got = "wrong-winner"
        else:
            got = c.get("class")
        chk.count("site:outcome:" + got)
        if got != wantc[0]:
            chk.violation(f"site:{site}:expected-{wantc[0]}-got-{got}",
                          f"call site '{site}' ({nlevels} scope levels): the visible overloads give {wantc}, the compiler says {got} "
                          f"({c if c == 'ok' else c.get('msg', '')[:160]}); program: {p!r}", dict(replay, expected=list(wantc), got=got))
            continue
        gmn = {"ambiguous": "AmbiguousOverload", "nooverload": "NoOverload"}.get(gm, "ok" if gm.startswith("ok ") else gm)
        if gmn != got:
            chk.violation("tie:ovl:resolve_at", f"model {gm} vs implementation {got} at call site '{site}': {p!r}",
                          dict(replay, model_out=gm), no_input=True)
        elif gm.startswith("ok ") and wantc[1] not in (None, "lib"):
            mid = int(gm[3:])
            mtag = [f"T{o['tag']}" for o in ovs if o["id"] == mid]
            if mtag != [wantc[1]]:
                chk.violation("tie:ovl:resolve_at", f"model picks {gm} ({mtag}), implementation and oracle {wantc[1]}: {p!r}",
                              dict(replay, model_out=gm), no_input=True)
        key = (name, tuple(o["id"] for o in ovs), tuple(tstr(t) for t, _ in args), id(args))
        if key in first and first[key] != got:
            chk.violation(f"meta:site:{site}", f"the outcome depends on where the call is written: {first[key]} after the declarations, "
                          f"{got} at '{site}': {p!r}", replay)
        first.setdefault(key, got)
    for x in progs[:2]:
        chk.sample({"site": x[4], "program": x[5]})


# ---------------------------------------------------------------- executed call sites (which body RUNS)
EXEC_SITES = ["after", "sibling", "lambda", "deep", "deep-lambda"]


def gen_exec_set(rng):
    """user-only overloads of `fo` over 2-3 scope levels (generic enclosing functions), each returning its own int tag, and
    2-3 calls with different argument types that the ranking rule resolves to a unique winner each"""
    for _ in range(30):
        nargs = rng.choice([1, 1, 2])
        ncalls = rng.choice([2, 2, 3])
        calls = []
        while len(calls) < ncalls:
            a = [rng.choice(ARG_EXPRS[:10]) for _ in range(nargs)]
            if [t for t, _ in a] not in [[t for t, _ in c] for c in calls]:
                calls.append(a)
        nlevels = rng.choice([2, 3, 3])
        k = rng.choice([2, 3, 3, 4, 5])
        ovs = []
        for i in range(k):
            ov = gen_overload(rng, nargs, rng.choice(calls))
            ovs.append({"tag": 7001 + i, "id": 7001 + i, "ov": ov, "level": rng.randrange(nlevels), "forward": False, "late": False})
        if not any(o["level"] == nlevels - 1 for o in ovs):
            rng.choice(ovs)["level"] = nlevels - 1
        outer_gens = rng.sample(["T", "U", "Q"], rng.choice([0, 0, 1, 2]))
        wrap_gens = rng.sample(["T", "U", "Q", "W"], rng.choice([0, 0, 1, 2]))
        for o in ovs:
            if o["level"] >= 1 and o["ov"][0] and rng.random() < 0.4:
                o["ov"] = rename_generics(rng, o["ov"], outer_gens + (wrap_gens if o["level"] == 2 else []))
        ovs[0]["encl"] = (outer_gens, wrap_gens)
        cands = [(o["id"], "s", bool(o["ov"][0]), o["ov"][1], o["ov"][2]) for o in ovs]
        wins = [rank_oracle(cands, [t for t, _ in c]) for c in calls]
        if all(w[0] == "ok" for w in wins) and len({w[1] for w in wins}) > 1:
            return calls, nlevels, ovs, [w[1] for w in wins]
    return None


def exec_program(nlevels, ovs, site, call_exprs):
    outer_gens, wrap_gens = ovs[0]["encl"]
    seq = "[" + ", ".join(call_exprs) + "]"
    R = "Sequence<int>"

    def level_text(lv, indent):
        return "".join(decl("fo", o["tag"], o["ov"], indent) for o in ovs if o["level"] == lv)

    def header(fname, gens, prefix):
        g = ("<" + ", ".join(gens) + ">") if gens else ""
        return f"fn {fname}{g}({', '.join(f'{prefix}{i}: {x}' for i, x in enumerate(gens))})->{R}{{\n"

    def site_text(ind):
        if site == "after":
            return f"{ind}{seq}\n"
        if site == "sibling":
            return f"{ind}fn sib()->{R}{{ {seq} }}\n{ind}sib()\n"
        if site == "lambda":
            return f"{ind}let lam = ()->{{ {seq} }};\n{ind}lam()\n"
        if site == "deep":
            return f"{ind}fn sib()->{R}{{\n{ind}  fn deeper()->{R}{{ {seq} }}\n{ind}  deeper()\n{ind}}}\n{ind}sib()\n"
        if site == "deep-lambda":
            return f"{ind}fn sib()->{R}{{\n{ind}  let lam = ()->{{ {seq} }};\n{ind}  lam()\n{ind}}}\n{ind}sib()\n"
        raise ValueError(site)
    out = level_text(0, "")
    out += header("outer", outer_gens, "q") + level_text(1, "  ")
    if nlevels == 3:
        out += "  " + header("wrap", wrap_gens, "w") + level_text(2, "    ") + site_text("    ") + "  }\n"
        out += f"  wrap({', '.join('0' for _ in wrap_gens)})\n"
    else:
        out += site_text("  ")
    out += "}\n" + f"let r = outer({', '.join('0' for _ in outer_gens)});\n"
    return out


def exec_model_lines(nlevels, ovs, site, calls):
    """one `resolve_at` request per call: the scope chain of the call site (helper scopes register nothing)"""
    inner = nlevels - 1
    extra = {"after": 0, "sibling": 1, "lambda": 1, "deep": 2, "deep-lambda": 2}[site]
    levels = [f"{inner + 1 + i} - 0" for i in range(extra, 0, -1)]
    for lv in range(inner, -1, -1):
        cs = []
        for o in ovs:
            if o["level"] == lv:
                gens, ps, nreq = o["ov"]
                cs.append(f"s {o['id']} " + tstr(FUNC(gens if gens else None, ps, nreq, I)))
        levels.append(f"{lv} - {len(cs)}" + ("" if not cs else " " + " ".join(cs)))
    chain = f"{len(levels)} " + " ".join(levels)
    return [f"ovl resolve_at {len(c)} " + " ".join(tstr(t) for t, _ in c) + " " + chain for c in calls]


def run_exec_sites(chk, rng, quick):
    n = 45 if quick else 700
    progs = []
    for _ in range(n):
        g = gen_exec_set(rng)
        if g is None:
            chk.count("exec:skipped-no-unique-winners")
            continue
        calls, nlevels, ovs, wins = g
        exprs = [f"fo({', '.join(e for _, e in c)})" for c in calls]
        orders = list(itertools.permutations(range(len(calls))))
        for site in EXEC_SITES:
            mlines = exec_model_lines(nlevels, ovs, site, calls)
            for order in orders:
                p = exec_program(nlevels, ovs, site, [exprs[i] for i in order])
                progs.append((site, nlevels, order, [wins[i] for i in order], p, [mlines[i] for i in order]))
    resps = run_harness([{"op": "run", "src": x[4], "get": ["r"]} for x in progs], per_req_timeout=30.0)
    flat = [l for x in progs for l in x[5]]
    mflat = run_model(flat)
    mi = 0
    for (site, nlevels, order, want, p, mlines), resp in zip(progs, resps):
        gms = mflat[mi:mi + len(mlines)]
        mi += len(mlines)
        chk.evaluations += 1
        chk.count("exec:" + site)
        chk.count(f"exec:levels-{nlevels}")
        replay = {"op": "run", "src": p, "get": ["r"], "site": site, "expected": want}
        if "panic" in resp or "abort" in resp or "hang" in resp:
            chk.violation(f"exec:{site}:panic", f"panic when running {p!r}: {json.dumps(resp)[:300]}", replay)
            continue
        c = resp.get("compile")
        if c != "ok":
            chk.violation(f"exec:{site}:expected-ok-got-{c.get('class')}",
                          f"call site '{site}': every call has a unique best overload {want}, the compiler says {c.get('class')}: "
                          f"{c.get('msg', '')[:160]}; program: {p!r}", replay)
            continue
        d = resp.get("vals", {}).get("r", "?") if resp.get("inst") == "ok" else "viol " + json.dumps(resp.get("inst"))
        got = [int(x) for x in re.findall(r"\(int S (\d+)\)", d)] if d.startswith("(seq") else d
        if got != want:
            chk.violation(f"exec:{site}:wrong-body-ran",
                          f"call site '{site}' ({nlevels} scope levels), calls in order {list(order)}: the bodies that ran returned {got}, "
                          f"the best overloads are {want}; program: {p!r}", dict(replay, got=got))
            continue
        gm = [int(x[3:]) if x.startswith("ok ") else x for x in gms]
        if gm != want:
            chk.violation("tie:ovl:resolve_at", f"model {gms} vs implementation {got}: {p!r}", dict(replay, model_out=gms), no_input=True)
    for x in progs[:1]:
        chk.sample({"executed-site": x[0], "program": x[4]})


def run(chk):
    rng = chk.rng
    quick = chk.tier == "quick"
    chk.trusted += [
        "candidate collection across scopes (get_item) is taken from the implementation: the library's overloads of a name "
        "are listed through the hook `ovl list`, dynamic functions are represented by the spec their factory produces",
        "the Python ranking oracle `checklib.c05.rank_oracle` with `checklib.c04.Oracle` deciding 'matches'",
    ]
    try:
        own = json.load(open(os.path.join(VERIF, "design", "C05.findings.json"))).get("findings", [])
        chk.known += [f for f in own if f.get("property") == "C05" and not any(k.get("key") == f.get("key") for k in chk.known)]
    except FileNotFoundError:
        pass
    ok = chk.prove()
    if not ok:
        handle_broken(chk)

    n_base = 420 if quick else 2500
    bases = []
    for _ in range(n_base):
        name, hint = rng.choice(NAMES)
        nargs = hint if hint is not None else rng.choice([1, 1, 2, 2, 3])
        args = [rng.choice(ARG_EXPRS) for _ in range(nargs)]
        k = rng.choice([1, 2, 2, 3, 3, 4, 5, 6])
        ovs = [(7001 + tag, gen_overload(rng, nargs, args)) for tag in range(k)]
        inner = [rng.random() < 0.25 for _ in ovs]
        bases.append((name, ovs, inner, args))
        if any(has_tuple(t) for t, _ in args):
            chk.count("base:tuple-argument")
            if any(has_tuple(p) and p not in [t for t, _ in args] for _, (_, ps, _) in ovs for p in ps):
                chk.count("base:tuple-argument-vs-other-tuple-parameter")

    progs = []   # (base index, variant kind, program, user overloads (tag, ov), name, args)
    for bi, (name, ovs, inner, args) in enumerate(bases):
        variants = [("base", ovs, inner)]
        idx = list(range(len(ovs)))
        if len(ovs) > 1:
            perms = list(itertools.permutations(idx)) if len(ovs) <= (3 if quick else 4) else \
                [tuple(rng.sample(idx, len(idx))) for _ in range(6 if quick else 24)]
            if quick and len(perms) > 4:
                perms = rng.sample(perms, 4)
            for p in perms:
                if list(p) != idx:
                    variants.append(("perm", [ovs[i] for i in p], [inner[i] for i in p]))
        ren = {"T": "Aa", "U": "Bb"} if rng.random() < 0.5 else {"T": "U", "U": "T"}
        variants.append(("alpha", [(tag, (tuple(sorted(ren.get(g, g) for g in ov[0])), tuple(rename(p, ren) for p in ov[1]), ov[2]))
                                   for tag, ov in ovs], inner))
        # an overload that cannot match: more required parameters than arguments, or a parameter type no argument has
        if rng.random() < 0.5:
            extra = ((), tuple([I] * (len(args) + 1)), len(args) + 1)
        else:
            extra = ((), tuple([NAT("Mapping", I, I)] + [t for t, _ in args[1:]]), len(args))
        pos = rng.randint(0, len(ovs))
        variants.append(("extra", ovs[:pos] + [(7099, extra)] + ovs[pos:], inner[:pos] + [rng.random() < 0.3] + inner[pos:]))
        for kind, v_ovs, v_inner in variants:
            outer = "".join(decl(name, tag, ov) for (tag, ov), inn in zip(v_ovs, v_inner) if not inn)
            inn_s = "".join(decl(name, tag, ov, "  ") for (tag, ov), inn in zip(v_ovs, v_inner) if inn)
            call = f"{name}({', '.join(e for _, e in args)})"
            p = outer + f"let caller = ()->{{\n{inn_s}  {call}\n}};\nlet r = caller();\n"
            progs.append((bi, kind, p, v_ovs, v_inner, name, args))

    resps = run_harness([{"op": "run", "src": p, "get": ["r"]} for _, _, p, _, _, _, _ in progs], per_req_timeout=30.0)
    # the library's candidates for (name, argument types), listed in the presence of the user's overloads: a dynamic
    # function whose factory looks the name up again for an element type (to_str of a sequence -> to_str of the
    # elements) fails when a user overload makes that inner call ambiguous, and is then no candidate
    lreqs = []
    for _, _, _, v_ovs, _, name, args in progs:
        pre = "".join(decl(name, tag, ov) for tag, ov in v_ovs)
        lreqs.append({"op": "ovl", "f": "list", "prelude": pre, "name": name, "args": " ".join(tstr(t) for t, _ in args)})
    lresp = run_harness(lreqs, per_req_timeout=30.0)
    libs = []
    for (_, _, _, v_ovs, _, _, _), r in zip(progs, lresp):
        if "cands" not in r:
            raise BuildError("ovl list failed: " + json.dumps(r)[:300])
        cl = r["cands"][:len(r["cands"]) - len(v_ovs)]
        chk.count("lib:dynamic-factory-failed", sum(1 for c in cl if c == "dfail"))
        libs.append([c for c in cl if c != "dfail"])
    mlines = []
    for (bi, kind, p, v_ovs, v_inner, name, args), lc in zip(progs, libs):
        a_toks = " ".join(tstr(t) for t, _ in args)
        cands = []
        order = [x for x, inn in zip(v_ovs, v_inner) if inn]
        for tag, (gens, ps, nreq) in order:
            cands.append(f"s {tag} " + tstr(FUNC(gens if gens else None, ps, nreq, I)))
        for i, c in enumerate(lc):
            k, spec = c.split(" ", 1)
            cands.append(f"{k} {100000 + i} {spec}")
        for tag, (gens, ps, nreq) in [x for x, inn in zip(v_ovs, v_inner) if not inn]:
            cands.append(f"s {tag} " + tstr(FUNC(gens if gens else None, ps, nreq, I)))
        mlines.append(f"ovl resolve {len(args)} {a_toks} " + " ".join(cands))
    mres = run_model(mlines)

    base_out = {}
    for (bi, kind, p, v_ovs, v_inner, name, args), resp, gm, lc in zip(progs, resps, mres, libs):
        chk.evaluations += 1
        chk.count("variant:" + kind)
        a_types = [t for t, _ in args]
        a_toks = " ".join(tstr(t) for t in a_types)
        cands = [(tag, "s", bool(gens), ps, nreq) for tag, (gens, ps, nreq) in v_ovs]
        sc = False
        for i, c in enumerate(lc):
            k, spec = c.split(" ", 1)
            f = parse_func(spec)
            if k in ("S", "D"):
                sc = sc or matches(f[2], f[3], a_types)
            cands.append((100000 + i, "d" if k in ("d", "D") else "s", f[1] is not None, f[2], f[3]))
        want = rank_oracle(cands, a_types)
        replay = {"op": "run", "src": p, "get": ["r"], "name": name, "args": a_toks}
        if "panic" in resp or "abort" in resp or "hang" in resp:
            chk.violation("ovl:panic", f"panic on {p!r}: {json.dumps(resp)[:300]}", replay)
            continue
        c = resp.get("compile")
        if c != "ok":
            got = (c.get("class"), None)
        else:
            d = resp.get("vals", {}).get("r", "?")
            if d.startswith("(int S 70") and len(d) == 12:
                got = ("ok", int(d[7:-1]))
            else:
                got = ("ok", "lib")
        chk.count("outcome:" + (got[0] if got[0] != "ok" else ("user" if got[1] != "lib" else "library")))
        wantn = ("ok", "lib") if want[0] == "ok" and want[1] >= 100000 else want
        if any(cd[1] == "d" or cd[2] for cd in cands if matches(cd[3], cd[4], a_types)):
            chk.nontrivial.add((name, a_toks, tuple(sorted((tstr(FUNC(None, ps, nreq, I))) for _, (g, ps, nreq) in v_ovs))))
        if sc:
            chk.count("skipped:short-circuit-candidate-matches")
            continue
        if got != wantn:
            chk.violation(f"ovl:{kind}:{'wrong-winner' if got[0] == 'ok' and wantn[0] == 'ok' else 'expected-' + str(wantn[0]) + '-got-' + str(got[0])}",
                          f"call {name}({a_toks}): implementation {got}, the ranking rule gives {wantn}; program: {p!r}", dict(replay, expected=list(wantn), got=list(got)))
            continue
        gmn = ("ok", "lib") if gm.startswith("ok ") and int(gm[3:]) >= 100000 else (("ok", int(gm[3:])) if gm.startswith("ok ") else
                                                                                 ({"ambiguous": "AmbiguousOverload", "nooverload": "NoOverload"}.get(gm, gm), None))
        if gmn != got:
            chk.violation("tie:ovl:resolve", f"model {gm} vs implementation {got}: {p!r}", dict(replay, model=gm), no_input=True)
        if kind == "base":
            base_out[bi] = got
        elif kind in ("perm", "alpha"):
            if bi in base_out and base_out[bi] != got:
                chk.violation(f"meta:{kind}", f"outcome changed under {kind}: base {base_out[bi]}, variant {got}: {p!r}", replay)
        elif kind == "extra":
            if bi in base_out and base_out[bi] != got:
                chk.violation("meta:extra", f"adding a non-matching overload changed the outcome: base {base_out[bi]}, now {got}: {p!r}", replay)
    for _, _, p, _, _, _, _ in progs[:3]:
        chk.sample({"program": p})

    run_sites(chk, rng, quick)
    run_exec_sites(chk, rng, quick)

    # the repaired witness
    w = 'fn eq<T>(a:Sequence<T>,b:Sequence<T>)->bool{false}  let r=[1]==[1];'
    resp = run_harness([{"op": "run", "src": w, "get": ["r"]}])[0]
    chk.evaluations += 1
    if resp.get("compile") != "ok" or resp.get("vals", {}).get("r") != "(bool false)":
        chk.violation("witness:generic-vs-dynamic", f"{w!r}: expected the user's generic overload to win: {json.dumps(resp)[:300]}",
                      {"op": "run", "src": w, "get": ["r"]})

    # a user overload that does not match the call must not change its outcome - but a dynamic library overload
    # re-resolves the name for the element type, and a user overload that makes *that* inner call ambiguous
    # disables it
    w2 = 'fn to_str(a0:int)->int{7002} let r = to_str([1]);'
    resp = run_harness([{"op": "run", "src": w2, "get": ["r"]}])[0]
    chk.evaluations += 1
    if resp.get("compile") != "ok" or resp.get("vals", {}).get("r") != '(str "[1]")':
        c = resp.get("compile")
        chk.violation("witness:nonmatching-overload-disables-dynamic",
                      f"{w2!r}: the user's to_str(int) does not match the call to_str(Sequence<int>), yet the call no longer "
                      f"resolves to the library's overload: {c.get('class') if isinstance(c, dict) else json.dumps(resp)[:200]}",
                      {"op": "run", "src": w2, "get": ["r"], "expected": '(str "[1]")'})

    return chk.finish(rule="sets of 1-6 same-named user overloads (generic and not, optional parameters, root or inner scope, "
                           "names fo/eq/to_str/add/len/neg) x call sites with fully known argument types x {base, permutations, "
                           "alpha-renaming, added non-matching overload}; non-trivial = distinct (name, argument types, overload set) "
                           "in which a generic or dynamic candidate matches")


def replay(path):
    d = json.load(open(path))
    r = d["replay"]
    req = {k: v for k, v in r.items() if k in ("op", "src", "get")}
    resp = run_harness([req])[0]
    print(json.dumps({"request": req, "response": resp, "expected": r.get("expected")}, indent=1))
    return 0
