"""C20 — Documented conversions are mutually inverse and canonical.
Proofs: lean/Props/C20.lean over lean/Generated/StdInt.lean (regenerated from include.rs by translate/std_int.py on
every run) and lean/XrayModel/Conv.lean.
Tie: (1) the translator itself (fails closed), (2) correspondence: every generated definition is run by xmodel and by
the interpreter (through the language) on the same arguments; hand-written models (chr/code_point, JSON strings)
likewise.  Oracle for the verdict: plain Python (datetime.date for the proleptic Gregorian calendar,
fractions.Fraction, json, chr/ord) and, for JSON text, serde_json in the harness as the independent parser."""
import datetime, fractions, importlib.util, math, struct, json as pyjson
from .common import *
from .common import _resp_fail

_translate_error = None
SCALE = 2 ** 20          # fixed-point scale of the model's float carrier (Driver/Conv.lean convScale)
JD0 = 1721425            # julian day of ordinal 0 (0001-01-01 has ordinal 1 and Julian day 1721426)


def translate():
    """run the xray -> Lean translator (called by ./check before anything is built)"""
    global _translate_error
    spec = importlib.util.spec_from_file_location("std_int", os.path.join(VERIF, "translate", "std_int.py"))
    mod = importlib.util.module_from_spec(spec)
    spec.loader.exec_module(mod)
    try:
        mod.translate(REPO, os.path.join(LEAN, "Generated", "StdInt.lean"))
        _translate_error = None
    except mod.TranslateError as e:
        _translate_error = str(e)
    except Exception as e:  # unreadable source etc.
        _translate_error = f"{type(e).__name__}: {e}"


# ------------------------------------------------------------------------------------------------ oracles
def greg(jd):
    """proleptic Gregorian (year, month, day) of a Julian day, by Python's datetime + 400-year periodicity"""
    k, o = divmod(jd - JD0 - 1, 146097)
    d = datetime.date.fromordinal(o + 1)
    return (d.year + 400 * k, d.month, d.day)


def greg_jd(y, m, d):
    k, yy = divmod(y - 1, 400)
    return datetime.date(yy + 1, m, d).toordinal() + JD0 + 146097 * k


def dim(y, m):
    yy = (y - 1) % 400 + 1
    return (datetime.date(yy + (m == 12), m % 12 + 1, 1) - datetime.date(yy, m, 1)).days


def ints_of(dump):
    return [int(x) for x in re.findall(r"\(int [SL] (-?\d+)\)", dump)]


def is_err(d):
    return d.startswith("(error ")


def f_of_bits(h):
    return struct.unpack(">d", bytes.fromhex(h))[0]


def floats_of(dump):
    return [f_of_bits(h) for h in re.findall(r"\(float ([0-9a-f]{16})\)", dump)]


def fix(x):
    """exact fixed-point image of a float (must be a multiple of 1/SCALE)"""
    fr = fractions.Fraction(x) * SCALE
    assert fr.denominator == 1, x
    return int(fr)


def undump_str(d):
    """text of a dumped string `(str "…")` (escapes: \\" \\\\ \\u{hex}); None if the dump is not a string"""
    m = re.match(r'\(str "(.*)"\)$', d, re.S)
    if not m:
        return None
    return re.sub(r'\\u\{([0-9a-f]+)\}|\\(.)', lambda k: chr(int(k.group(1), 16)) if k.group(1) else k.group(2), m.group(1), flags=re.S)


def strlit(cps):
    """xray expression for the string with the given code points (no reliance on literal escapes)"""
    if not cps:
        return '""'
    if all(48 <= c < 127 and c not in (34, 92, 123, 125) for c in cps):
        return '"' + "".join(map(chr, cps)) + '"'
    return "[" + ", ".join(map(str, cps)) + "].map(chr).join()"


# ------------------------------------------------------------------------------------------------ int <-> digits / text family
DIG = "0123456789abcdefghijklmnopqrstuvwxyz"
_TOK = re.compile(r'\(|\)|"(?:\\.|[^"\\])*"|[^\s()"]+')


def parse_dump(d):
    """canonical dump -> nested python value: ints, bools, strs, lists (seq/struct), ('error', msg), or None if unparseable"""
    toks = _TOK.findall(d)
    pos = [0]

    def val():
        if pos[0] >= len(toks) or toks[pos[0]] != "(":
            raise ValueError(d[:80])
        pos[0] += 1
        head = toks[pos[0]]; pos[0] += 1
        out = None
        if head == "int":
            pos[0] += 1
            out = int(toks[pos[0]]); pos[0] += 1
        elif head == "bool":
            out = toks[pos[0]] == "true"; pos[0] += 1
        elif head == "str":
            out = undump_str('(str ' + toks[pos[0]] + ')'); pos[0] += 1
        elif head == "error":
            out = ("error", toks[pos[0]]); pos[0] += 1
        elif head in ("seq", "struct"):
            out = []
            while toks[pos[0]] != ")":
                out.append(val())
        else:
            raise ValueError(head)
        if toks[pos[0]] != ")":
            raise ValueError(d[:80])
        pos[0] += 1
        return out
    try:
        v = val()
        return v if pos[0] == len(toks) else None
    except (ValueError, IndexError):
        return None


def digits_of(x, b):
    """the documented digits(x, b): little-endian, truncated division (digits of a negative number are negated)"""
    ds, t = [], abs(x)
    while t:
        ds.append(t % b); t //= b
    return [-d for d in ds] if x < 0 else ds


def to_base(x, b):
    if x == 0:
        return "0"
    return ("-" if x < 0 else "") + "".join(DIG[d] for d in reversed(digits_of(abs(x), b)))


def digit_numbers(rng, b, kmax, per_k, longs):
    """numbers built from base-b digit strings, not from magnitudes: b^k, b^k±1, b^k+d, d·b^k, all-(b-1), zero runs straddling
    every position k = 1…kmax (so that any chunking of the digit string by a machine word — 2^31, 2^32, 2^62…2^64, 10^9, 10^18,
    10^19, 36^12 … — has a chunk whose top digits are zero), long strings up to 200 digits, and negatives"""
    def val(ds):   # little-endian digit list
        v = 0
        for d in reversed(ds):
            v = v * b + d
        return v
    out = [0, 1, b - 1, b, b + 1]
    for k in range(1, kmax + 1):
        bk = b ** k
        d, d2 = rng.randrange(1, b), rng.randrange(1, b)
        out += [bk, bk - 1, bk + 1, bk + d, d * bk, d * bk + d2, (b - 1) * bk]
        for _ in range(per_k):
            L = k + rng.randrange(1, 8)
            ds = [rng.randrange(b) for _ in range(L)]
            ds[-1] = rng.randrange(1, b)
            lo = k - rng.randrange(0, min(k, 4) + 1)
            hi = k + rng.randrange(0, 4)
            if lo == hi:
                lo = max(0, lo - 1)
            for i in range(lo, min(L - 1, hi)):
                ds[i] = 0
            out.append(val(ds))
        # exactly the top digit of a would-be chunk of k digits is zero, everything else non-zero
        ds = [rng.randrange(1, b) for _ in range(k + rng.randrange(1, 4))]
        ds[k - 1] = 0
        out.append(val(ds))
    for _ in range(longs):
        L = rng.choice([71, 90, 100, 127, 128, 129, 150, 199, 200])
        kind = rng.randrange(5)
        if kind == 0:
            ds = [b - 1] * L
        elif kind == 1:
            ds = [0] * (L - 1) + [rng.randrange(1, b)]
        elif kind == 2:   # alternating blocks of zeros and non-zeros of random widths
            ds = []
            while len(ds) < L:
                w = rng.randrange(1, 25)
                ds += ([0] * w) if rng.random() < 0.5 else [rng.randrange(1, b) for _ in range(w)]
            ds = ds[:L - 1] + [rng.randrange(1, b)]
        elif kind == 3:
            ds = [rng.randrange(b) for _ in range(L - 1)] + [rng.randrange(1, b)]
        else:             # sparse: a few non-zero digits
            ds = [0] * L
            for _ in range(rng.randrange(1, 5)):
                ds[rng.randrange(L)] = rng.randrange(1, b)
            ds[-1] = rng.randrange(1, b)
        out.append(val(ds))
    out = sorted(set(out))
    neg = [-v for v in out if v and rng.random() < 0.3]
    return out + neg


def radix_family(chk, quick):
    """every conversion route between ints and digit sequences / text, on digit-structured numbers, for every base 2…36
    (and digits() for larger bases): digits, Horner value of digits (the inverse — the library has no from_digits),
    digits -> text -> to_int, to_int(text, b) in both letter cases, to_str / f-string, format x X b o with and without '#',
    hex and binary literals.  Oracle: own digit routine and Python int(s, b).  Three-way with the model (IntB.digits, C14's
    mirror of the loop in int.rs) for digits."""
    rng = chk.rng
    kmax = 70
    bases = list(range(2, 37))
    big_bases = [37, 64, 100, 255, 256, 1000, 65536, 10 ** 9, 2 ** 31, 2 ** 32 - 1, 2 ** 32, 10 ** 18, 2 ** 62, 2 ** 63 - 1, 2 ** 63, 2 ** 64, 10 ** 19, 2 ** 64 + 1]
    progs = []   # (base, kind, items, src, per-item single expression maker, oracle list)
    for b in bases + big_bases:
        small = b <= 36
        nums = digit_numbers(rng, b, kmax if small else 12, (2 if quick else 6) if small else 2, (6 if quick else 30) if small else 3)
        B = lit(b)
        arr = "[" + ", ".join(lit(v) for v in nums) + "]"
        progs.append((b, "digits", nums, f"let r = {arr}.map((x: int)->{{digits(x, {B})}}).to_array();",
                      lambda v, B=B: f"digits({lit(v)}, {B})", [digits_of(v, b) for v in nums]))
        progs.append((b, "digits-horner", nums, f"let r = {arr}.map((x: int)->{{digits(x, {B}).reverse().reduce(0, (a: int, d: int)->{{a * {B} + d}})}}).to_array();",
                      lambda v, B=B: f"digits({lit(v)}, {B}).reverse().reduce(0, (a: int, d: int)->{{a * {B} + d}})", list(nums)))
        if not small:
            continue
        texts = []
        for v in nums:
            t = to_base(v, b)
            assert int(t, b) == v
            texts.append(t.upper() if rng.random() < 0.3 else t)
        tarr = "[" + ", ".join(f'"{t}"' for t in texts) + "]"
        progs.append((b, "to_int", texts, f"let r = {tarr}.map((s: str)->{{to_int(s, {b})}}).to_array();",
                      lambda t, b=b: f'to_int("{t}", {b})', list(nums)))
        pos = [v for v in nums if v >= 0]
        parr = "[" + ", ".join(lit(v) for v in pos) + "]"
        progs.append((b, "digits-text-to_int", pos,
                      f'let r = {parr}.map((x: int)->{{if(x == 0, 0, to_int(digits(x, {b}).reverse().map((d: int)->{{"{DIG}"[d]}}).join(), {b}))}}).to_array();',
                      lambda v, b=b: f'if({lit(v)} == 0, 0, to_int(digits({lit(v)}, {b}).reverse().map((d: int)->{{"{DIG}"[d]}}).join(), {b}))', list(pos)))
        if b == 10:
            progs.append((b, "to_str", nums, f"let r = {arr}.map((x: int)->{{to_str(x)}}).to_array();", lambda v: f"to_str({lit(v)})", [str(v) for v in nums]))
            progs.append((b, "f-string", nums, f'let r = {arr}.map((x: int)->{{f"{{x}}"}}).to_array();', lambda v: f'f"{{{lit(v)}}}"', [str(v) for v in nums]))
            progs.append((b, "to_int-default", nums, "let r = [" + ", ".join(f'"{v}"' for v in nums) + "].map((s: str)->{to_int(s)}).to_array();",
                          lambda v: f'to_int("{v}")', list(nums)))
        if b in (2, 8, 16):
            m = {2: "b", 8: "o", 16: "x"}[b]
            for spec, pre in ((m, ""), ("#" + m, "0" + m), (m.upper(), ""), ("#" + m.upper(), "0" + m.upper())):
                want = [("-" if v < 0 else "") + pre + to_base(abs(v), b) for v in nums]
                progs.append((b, f"format:{spec}", nums, f'let r = {arr}.map((x: int)->{{format(x, "{spec}")}}).to_array();',
                              lambda v, spec=spec: f'format({lit(v)}, "{spec}")', want))
            progs.append((b, "f-string:" + m, nums, f'let r = {arr}.map((x: int)->{{f"{{x:{m}}}"}}).to_array();',
                          lambda v, m=m: f'f"{{{lit(v)}:{m}}}"', [to_base(v, b) for v in nums]))
        if b in (2, 16):
            lits = [v for v in nums if abs(v) < 2 ** 127]
            pre = {2: "0b", 16: "0x"}[b]
            srcs = [("-" if v < 0 else "") + pre + to_base(abs(v), b) for v in lits]
            progs.append((b, "literal", srcs, "let r = [" + ", ".join(f"({t})" for t in srcs) + "];", lambda t: f"({t})", list(lits)))

    resps = run_harness([{"op": "run", "src": p[3], "get": ["r"]} for p in progs], per_req_timeout=120.0)
    # model: C14's mirror of the digits loop
    mitems = [(b, v) for b, kind, items, _, _, _ in progs if kind == "digits" for v in items]
    mres = dict(zip(mitems, run_model([f"int b.digits {v} {b}" for b, v in mitems])))

    def canon_case(kind, v):
        return v.lower() if isinstance(v, str) and kind.startswith("format:") and kind[-1].isupper() and not kind.startswith("format:#") else v
    suspects = []
    for (b, kind, items, src, single, want), r in zip(progs, resps):
        chk.count(f"radix:{kind}", len(items))
        chk.evaluations += len(items)
        if b > 36 or any(abs(w) >= 2 ** 63 for w in want if isinstance(w, int)):
            chk.nontrivial.add((b, kind))
        fail = _resp_fail(r)
        got = parse_dump(r["vals"]["r"]) if fail is None else None
        if not isinstance(got, list) or len(got) != len(items):
            suspects += [(b, kind, it, single, w) for it, w in zip(items, want)]     # find the culprit one by one
            continue
        for it, w, g in zip(items, want, got):
            if canon_case(kind, g) != w:
                suspects.append((b, kind, it, single, w))
            elif kind == "digits":
                m = mres[(b, it)]
                if m != "[" + ",".join(("S " if -2 ** 63 <= d < 2 ** 63 else "L ") + str(d) for d in w) + "]":
                    chk.violation("tie:digits", f"model digits({it}, {b}) = {m[:200]}, implementation (and oracle) {w[:40]}",
                                  {"model": f"int b.digits {it} {b}", "src": f"let r = digits({lit(it)}, {lit(b)});"}, no_input=True)
    # confirm each suspect on its own (this is also the replay)
    suspects = suspects[:400]
    dumps = eval_exprs([sg(it) for b, kind, it, sg, w in suspects], chunk=1) if suspects else []
    for (b, kind, it, sg, w), d in zip(suspects, dumps):
        g = parse_dump(d)
        if canon_case(kind, g) == w:
            continue
        what = "panic" if d.startswith("panic") else ("error-value" if is_err(d) else ("roundtrip" if kind in ("digits-horner", "digits-text-to_int") else "wrong"))
        chk.violation(f"lang:radix:{kind.split(':')[0]}:{what}", f"base {b}: {sg(it)} = {d[:300]}; expected {str(w)[:300]}",
                      {"src": f"let r = {sg(it)};", "get": ["r"], "expected": w if not isinstance(w, int) else str(w), "got": d})
    chk.sample({"lang": progs[0][4](progs[0][2][-1]), "expected": progs[0][5][-1]})


ROW_PRELUDE = "fn verif_row(jd: int)->Sequence<int>{ let d = date(jd); [d::year, d::month, d::day, d.julian_day(), d.weekday()] }\n"


def run_day_ranges(chk, ranges, label):
    """ranges: list of (lo, n).  Interpreter: one program per range; model: `conv rows lo n`.  Oracle: greg()."""
    reqs = [{"op": "run", "src": ROW_PRELUDE + f"let r = range({n}).map((i: int)->{{verif_row({lit(lo)} + i)}}).to_array();", "get": ["r"]}
            for lo, n in ranges]
    resps = run_harness(reqs, per_req_timeout=120.0)
    mres = run_model([f"conv rows {lo} {n}" for lo, n in ranges])
    for (lo, n), req, r, mline in zip(ranges, reqs, resps, mres):
        fail = _resp_fail(r)
        if fail is not None:
            chk.violation(f"lang:date:{fail.split()[0]}", f"date/julian_day/weekday over Julian days {lo}…{lo+n-1}: {fail}", {"src": req["src"], "get": ["r"]})
            continue
        vals = ints_of(r["vals"]["r"])
        if len(vals) != 5 * n:
            chk.violation("lang:date:error-value", f"date/julian_day/weekday over Julian days {lo}…{lo+n-1} produced {len(vals)} ints for {n} rows: {r['vals']['r'][:200]}",
                          {"src": req["src"], "get": ["r"]})
            continue
        mrows = [tuple(int(x) for x in row.split()) for row in mline.split(";")] if mline else []
        for i in range(n):
            jd = lo + i
            row = tuple(vals[5 * i:5 * i + 5])
            y, m, d = greg(jd)
            want = (y, m, d, jd, jd % 7)
            chk.evaluations += 1
            replay = {"src": ROW_PRELUDE + f"let r = verif_row({lit(jd)});", "get": ["r"], "expected": list(want), "got": list(row)}
            if row[:3] != want[:3]:
                chk.violation("lang:date:wrong", f"date({jd}) = {row[:3]}, the Gregorian calendar date is {want[:3]}", replay)
            elif row[3] != jd:
                chk.violation("lang:julian_day:roundtrip", f"date({jd}).julian_day() = {row[3]}", replay)
            elif row[4] != want[4]:
                chk.violation("lang:weekday:wrong", f"date({jd}).weekday() = {row[4]}, expected {want[4]} (Monday = 0)", replay)
            elif i < len(mrows) and mrows[i] != row or i >= len(mrows):
                chk.violation("tie:date", f"generated Lean date/julian_day/weekday disagree with the interpreter (which matches the calendar) at Julian day {jd}: "
                              f"model={mrows[i] if i < len(mrows) else None} impl={row}", {"model": f"conv rows {jd} 1", "src": replay["src"]}, no_input=True)
        chk.count(label, n)


def model_std(name, ints=(), floats=()):
    return "conv std " + name + "".join(f" {i}" for i in ints) + (" |" + "".join(f" {f}" for f in floats) if floats else "")


def run(chk):
    rng = chk.rng
    quick = chk.tier == "quick"
    phases, t_last = {}, [time.time()]

    def mark(name):
        now = time.time()
        phases[name] = round(now - t_last[0], 1)
        t_last[0] = now
    chk.coverage["phase_seconds"] = phases
    chk.trusted += [
        "translate/std_int.py: reads the xray source of date/julian_day/weekday/fraction/Fraction arithmetic/datetime/unix faithfully "
        "(fails closed; every generated definition is also run against the interpreter)",
        "Python datetime.date / fractions.Fraction / json / chr as independent oracles; serde_json as the independent JSON parser",
        "float arithmetic is abstract in the theorems (structure FloatOps with exactness laws as hypotheses); the driver instantiates it with "
        "exact binary fixed point (2^-20 s) and the tie only feeds times that are multiples of 2^-20 s",
    ]
    if _translate_error is not None:
        chk.violation("tie:translator", f"the xray->Lean translator no longer recognises the library source: {_translate_error}",
                      {"translator": "python3 /verif/translate/std_int.py", "error": _translate_error}, no_input=True)
    ok = chk.prove()
    if not ok:
        handle_broken(chk)

    mark("proofs (lake build incl. waiting for the shared lock, audit)")
    # ---------------------------------------------------------------------------------------- dates
    if quick:
        ranges = [(-3000000, 400), (3000000 - 399, 400), (-1500, 400), (-200, 400), (1721000, 500), (2299000, 400), (2440400, 400),
                  (2459000, 1500), (-68700, 300)]
        for _ in range(40):
            ranges.append((rng.randrange(-3000000, 3000000 - 150), 150))
        ranges += [(s * 2 ** 53 + rng.randrange(-10 ** 6, 10 ** 6), 20) for s in (-1, 1)] + [(2 ** 70, 20), (-2 ** 70, 20)]
    else:
        step = 5000
        ranges = [(lo, min(step, 3000001 - lo)) for lo in range(-3000000, 3000001, step)]
        ranges += [(2 ** 53 - 2500, 5000), (-2 ** 53 - 2500, 5000), (2 ** 70, 2000), (-2 ** 70, 2000), (10 ** 30, 1000)]
    run_day_ranges(chk, ranges, "date:days")
    chk.sample({"lang": ROW_PRELUDE + "let r = verif_row(2460000);", "expected": list(greg(2460000)) + [2460000, 2460000 % 7]})

    # valid dates -> julian day -> date
    dcases = []
    for _ in range(600 if quick else 40000):
        y = rng.choice([rng.randrange(-12000, 3500), rng.randrange(-12000, 3500), rng.choice([-4800, -4713, -1, 0, 1, 4, 100, 400, 1582, 1600, 1900, 1970, 2000, 2024, 2100])])
        m = rng.randrange(1, 13)
        d = rng.choice([1, dim(y, m), rng.randrange(1, dim(y, m) + 1)])
        dcases.append((y, m, d))
    exprs = [f"Date({lit(y)}, {m}, {d}).julian_day()" for y, m, d in dcases] + [f"date(Date({lit(y)}, {m}, {d}).julian_day())" for y, m, d in dcases]
    dumps = eval_exprs(exprs)
    mres = run_model([model_std("julian_day", (y, m, d)) for y, m, d in dcases])
    n = len(dcases)
    for i, (y, m, d) in enumerate(dcases):
        chk.evaluations += 1
        chk.count("date:valid->jd->date")
        want = greg_jd(y, m, d)
        got = ints_of(dumps[i])
        replay = {"src": f"let r = {exprs[i]};", "get": ["r"], "expected": want, "got": dumps[i]}
        if got != [want]:
            chk.violation("lang:julian_day:wrong", f"{exprs[i]} = {dumps[i]}, expected {want}", replay)
            continue
        if ints_of(dumps[n + i]) != [y, m, d]:
            chk.violation("lang:date:roundtrip", f"{exprs[n+i]} = {dumps[n+i]}, expected the same date", {"src": f"let r = {exprs[n+i]};", "get": ["r"]})
            continue
        if mres[i] != str(want):
            chk.violation("tie:julian_day", f"generated Lean julian_day({y},{m},{d}) = {mres[i]}, interpreter (and calendar) say {want}",
                          {"model": model_std("julian_day", (y, m, d)), "src": replay["src"]}, no_input=True)

    mark("dates")
    # ---------------------------------------------------------------------------------------- fractions
    def big(r):
        k = r.choice([0, 1, 2, 3, 8, 16, 31, 32, 52, 53, 54, 62, 63, 64, 65, 69, 70])
        v = r.choice([0, 1, 2, 3, 5, 6, 7, 10, 12, 2 ** k, 2 ** k + 1, 2 ** k - 1, 3 * 2 ** k, r.getrandbits(k + 1), r.getrandbits(70), 2 ** 70])
        return v if r.random() < 0.5 else -v

    fcases = []   # (key, expr, model line, oracle)
    nfr = 400 if quick else 8000
    ERR = "err"

    def frs(fr):
        return f"{fr.numerator} {fr.denominator}"
    for _ in range(nfr):
        a, b = big(rng), big(rng)
        if rng.random() < 0.3:   # common factors
            g = rng.choice([2, 3, 6, 2 ** 20, 2 ** 40 + 1, 10 ** 9])
            a, b = a * g, b * g
        want = ERR if b == 0 else frs(fractions.Fraction(a, b))
        fcases.append(("fraction", f"fraction({lit(a)}, {lit(b)})", model_std("fraction", (a, b)), want))
    binops = {"fr_add": ("+", lambda x, y: x + y), "fr_sub": ("-", lambda x, y: x - y), "fr_mul": ("*", lambda x, y: x * y),
              "fr_div": ("/", lambda x, y: x / y if y != 0 else None), "fr_mod": ("%", lambda x, y: x - y * math.floor(x / y) if y != 0 else None)}
    for _ in range(nfr):
        a, b, c, d = big(rng), big(rng) or 1, big(rng), big(rng) or 1
        x, y = fractions.Fraction(a, b), fractions.Fraction(c, d)
        for name, (sym, fn) in binops.items():
            r = fn(x, y)
            want = ERR if r is None else frs(r)
            fcases.append((name, f"fraction({lit(a)}, {lit(b)}) {sym} fraction({lit(c)}, {lit(d)})",
                           model_std(name, (x.numerator, x.denominator, y.numerator, y.denominator)), want))
        fcases.append(("fr_cmp", f"sign(cmp(fraction({lit(a)}, {lit(b)}), fraction({lit(c)}, {lit(d)})))", None, str((x > y) - (x < y))))
        fcases.append(("fr_cmp.raw", f"cmp(fraction({lit(a)}, {lit(b)}), fraction({lit(c)}, {lit(d)}))",
                       model_std("fr_cmp", (x.numerator, x.denominator, y.numerator, y.denominator)), None))
        fcases.append(("fr_eq", f"fraction({lit(a)}, {lit(b)}) == fraction({lit(c)}, {lit(d)})",
                       model_std("fr_eq", (x.numerator, x.denominator, y.numerator, y.denominator)), "true" if x == y else "false"))
        fcases.append(("fr_eq.scaled", f"fraction({lit(a)}, {lit(b)}) == fraction({lit(a * 6)}, {lit(b * 6)})", None, "true"))
        for name, fn in (("floor", math.floor), ("ceil", math.ceil), ("trunc", math.trunc)):
            fcases.append(("fr_" + name, f"{name}(fraction({lit(a)}, {lit(b)}))", model_std("fr_" + name, (x.numerator, x.denominator)), str(fn(x))))
        fcases.append(("fr_neg", f"-fraction({lit(a)}, {lit(b)})", model_std("fr_neg", (x.numerator, x.denominator)), frs(-x)))
        fcases.append(("fr_abs", f"abs(fraction({lit(a)}, {lit(b)}))", model_std("fr_abs", (x.numerator, x.denominator)), frs(abs(x))))
        fcases.append(("fr_sign", f"sign(fraction({lit(a)}, {lit(b)}))", model_std("fr_sign", (x.numerator, x.denominator)), str((x > 0) - (x < 0))))
        e = rng.choice([0, 1, 2, 3, 5, -1, -2, -3])
        if abs(a) < 2 ** 40 and abs(b) < 2 ** 40:
            want = ERR if (x == 0 and e <= 0) else frs(x ** e)
            fcases.append(("fr_pow", f"fraction({lit(a)}, {lit(b)}) ** {lit(e)}", model_std("fr_pow", (x.numerator, x.denominator, e)), want))
    dumps = eval_exprs([c[1] for c in fcases])
    midx = [i for i, c in enumerate(fcases) if c[2]]
    mres = dict(zip(midx, run_model([fcases[i][2] for i in midx])))
    for i, ((name, expr, mline, want), dmp) in enumerate(zip(fcases, dumps)):
        chk.evaluations += 1
        chk.count("fraction:" + name)
        if is_err(dmp):
            got = ERR
        elif dmp.startswith("(bool "):
            got = dmp[6:-1]
        elif dmp.startswith("(struct") or dmp.startswith("(int"):
            got = " ".join(map(str, ints_of(dmp)))
        else:
            got = dmp
        if any(abs(v) >= 2 ** 53 for v in map(int, re.findall(r"-?\d+", expr))):
            chk.nontrivial.add((name, expr))
        replay = {"src": f"let r = {expr};", "get": ["r"], "expected": want, "got": dmp}
        if want is not None and got != want:
            kind = "panic" if dmp.startswith("panic") else "wrong"
            chk.violation(f"lang:{name}:{kind}", f"{expr} evaluates to {dmp}; exact result is {want}", replay)
            continue
        if i in mres and mres[i] != got:
            chk.violation(f"tie:{name}", f"generated Lean {mline!r} = {mres[i]!r}, the interpreter says {got!r} for {expr}",
                          {"model": mline, "src": replay["src"]}, no_input=True)
    chk.sample({"lang": fcases[0][1], "expected": fcases[0][3]})

    mark("fractions")
    # ---------------------------------------------------------------------------------------- datetime / unix
    tcases = []
    for _ in range(300 if quick else 10000):
        kind = rng.random()
        whole = rng.choice([0, 1, -1, 59, 60, -60, 3599, 3600, 86399, 86400, -86400, -86401, 951782400, -2208988800,
                            rng.randrange(-10 ** 11, 10 ** 11), rng.randrange(-10 ** 11, 10 ** 11), rng.randrange(-10 ** 6, 10 ** 6)])
        if kind < 0.4:
            num = whole * 1024
        else:
            num = whole * 1024 + rng.choice([1, 512, 1023, -1, -512, rng.randrange(0, 1024)])
        if abs(num) < 2 ** 52:
            tcases.append(num)
    exprs = [f"datetime({lit(k)}/1024)" for k in tcases] + [f"datetime({lit(k)}/1024).unix()" for k in tcases]
    dumps = eval_exprs(exprs)
    mres = run_model([model_std("datetime", (), (k * (SCALE // 1024),)) for k in tcases])
    n = len(tcases)
    for i, k in enumerate(tcases):
        chk.evaluations += 1
        chk.count("datetime:dyadic")
        t = fractions.Fraction(k, 1024)
        days, rem = divmod(t, 86400)
        y, m, d = greg(2440588 + int(days))
        hh, rem = divmod(rem, 3600)
        mi, ss = divmod(rem, 60)
        want = (y, m, d, int(hh), int(mi), ss)
        dmp = dumps[i]
        replay = {"src": f"let r = {exprs[i]};", "get": ["r"], "expected": [str(x) for x in want], "got": dmp}
        fl = floats_of(dmp)
        got = tuple(ints_of(dmp)) + tuple(fractions.Fraction(x) for x in fl)
        if got != want:
            chk.violation("lang:datetime:wrong", f"{exprs[i]} = {dmp}; expected {want}", replay)
            continue
        u = floats_of(dumps[n + i])
        if len(u) != 1 or fractions.Fraction(u[0]) != t:
            chk.violation("lang:unix:roundtrip", f"{exprs[n+i]} = {dumps[n+i]}; expected {float(t)}", {"src": f"let r = {exprs[n+i]};", "get": ["r"]})
            continue
        mwant = " ".join(map(str, want[:5])) + f" {int(ss * SCALE)}"
        if mres[i] != mwant:
            chk.violation("tie:datetime", f"generated Lean datetime({t}) = {mres[i]!r}, interpreter (and oracle) say {mwant!r}",
                          {"model": model_std("datetime", (), (k * (SCALE // 1024),)), "src": replay["src"]}, no_input=True)
    # unix on the model side (the interpreter side is the round trip above)
    ucases = [(k, greg(2440588 + (k // 1024) // 86400)) for k in tcases[:200 if quick else 5000]]
    ulines = []
    for k, (y, m, d) in ucases:
        t = fractions.Fraction(k, 1024)
        rem = t % 86400
        ulines.append(model_std("unix", (y, m, d, int(rem // 3600), int(rem % 3600 // 60)), (int((rem % 60) * SCALE),)))
    for (k, _), line, r in zip(ucases, ulines, run_model(ulines)):
        chk.evaluations += 1
        chk.count("unix:model")
        if r != str(k * (SCALE // 1024)):
            chk.violation("tie:unix", f"generated Lean {line!r} = {r}, expected {k * (SCALE // 1024)}", {"model": line}, no_input=True)

    # arbitrary doubles (float territory: no theorem, round trip in the implementation only).  For t >= 0 the parts are exact
    # and the round trip must be the identity; for t < 0 the seconds part (t mod 60) is rounded once, so |error| <= 2^-46.
    fts = [59.99999999999999, 119.99999999999999, 0.1, 1e-20, -1e-20, -0.1, 1000000000.1, -1000000000.1, 86399.99999999999,
           4.9e-324, -4.9e-324, 3599.9999999999995, 1e11 - 0.001, -(1e11 - 0.001)]
    for _ in range(200 if quick else 10000):
        fts.append(rng.choice([rng.uniform(-1e11, 1e11), rng.uniform(-1e5, 1e5), rng.uniform(-100, 100), 60.0 * rng.randrange(-10 ** 6, 10 ** 6) - rng.choice([2.0 ** -k for k in range(20, 46)])]))

    def flit(x):
        h = struct.pack(">d", x).hex()
        return f"__verif_f({int(h, 16) >> 52 & 0x7ff}, {int(h, 16) & (2 ** 52 - 1)}, {1 if x < 0 or h[0] in '89abcdef' else 0})"
    # exact construction of the double from its fields (no reliance on float literal parsing)
    fprel = ("fn __verif_f(e: int, m: int, s: int)->float{ let v = if(e == 0, m / 2**1074, if(e >= 1075, ((2**52 + m) * 2**(e - 1075)).to_float(), "
             "(2**52 + m) / 2**(1075 - e))); if(s == 1, -v, v) }\n")
    fex = [f"datetime({flit(t)}).unix()" for t in fts]
    fd = eval_exprs(fex, prelude=fprel)
    for t, e, d in zip(fts, fex, fd):
        chk.evaluations += 1
        chk.count("datetime:any-double")
        u = floats_of(d)
        replay = {"src": fprel + f"let r = {e};", "get": ["r"], "t": repr(t)}
        if len(u) != 1:
            chk.violation("lang:unix:float-error", f"datetime({t!r}).unix() = {d}", replay)
        elif (t >= 0 and u[0] != t) or abs(u[0] - t) > 2.0 ** -40:
            chk.violation("lang:unix:float-roundtrip", f"datetime({t!r}).unix() = {u[0]!r}", replay)

    mark("datetime")
    # ---------------------------------------------------------------------------------------- chr / code_point
    scal = [0, 1, 9, 10, 31, 32, 34, 65, 92, 127, 128, 233, 0x7FF, 0x800, 0xD7FF, 0xE000, 0xFFFD, 0xFFFF, 0x10000, 0x1F600, 0x10FFFF]
    bad = [-1, -2 ** 31, 0xD800, 0xDBFF, 0xDC00, 0xDFFF, 0x110000, 2 ** 31, 2 ** 32 - 1, 2 ** 32, 2 ** 40, 2 ** 64, -2 ** 64]
    cvals = scal + bad + [rng.randrange(0, 0x110000) for _ in range(150 if quick else 5000)] + [rng.randrange(0xD800, 0xE000) for _ in range(10)]
    exprs = [f"chr({lit(v)})" for v in cvals] + [f"code_point(chr({lit(v)}))" for v in cvals]
    dumps = eval_exprs(exprs)
    mres = run_model([f"conv chr {v}" for v in cvals])
    for i, v in enumerate(cvals):
        chk.evaluations += 1
        chk.count("chr")
        valid = 0 <= v < 0x110000 and not (0xD800 <= v < 0xE000)
        d1, d2 = dumps[i], dumps[len(cvals) + i]
        replay = {"src": f"let r = {exprs[i]}; let q = {exprs[len(cvals) + i]};", "get": ["r", "q"]}
        if valid:
            got = undump_str(d1)
            if got != chr(v):
                chk.violation("lang:chr:wrong", f"chr({v}) = {d1}", replay)
            elif ints_of(d2) != [v]:
                chk.violation("lang:code_point:roundtrip", f"code_point(chr({v})) = {d2}", replay)
            elif mres[i] != f"ok {v}":
                chk.violation("tie:chr", f"model chr({v}) = {mres[i]}", {"model": f"conv chr {v}"}, no_input=True)
        else:
            if not is_err(d1):
                chk.violation("lang:chr:accepts-non-scalar", f"chr({v}) = {d1}, expected an error value", replay)
            elif mres[i] != "err":
                chk.violation("tie:chr", f"model chr({v}) = {mres[i]}, implementation gives an error value", {"model": f"conv chr {v}"}, no_input=True)
    # chr(code_point(c)) on one-character strings, code_point on other lengths
    sexprs, swant = [], []
    for v in scal + [rng.randrange(0xE000, 0x110000) for _ in range(40)]:
        sexprs.append(f"chr(code_point({strlit([v])})) == {strlit([v])}"); swant.append("(bool true)")
    for cps in ([], [65, 66], [0x1F600, 0x1F600]):
        sexprs.append(f"code_point({strlit(cps)})"); swant.append("ERR")
    for e, w, d in zip(sexprs, swant, eval_exprs(sexprs)):
        chk.evaluations += 1
        chk.count("code_point")
        if (w == "ERR" and not is_err(d)) or (w != "ERR" and d != w):
            chk.violation("lang:code_point:wrong", f"{e} = {d}, expected {w}", {"src": f"let r = {e};", "get": ["r"]})
    mcp = run_model(["conv code_point -", "conv code_point 65,66", "conv code_point 128512"])
    if mcp != ["err", "err", "ok 128512"]:
        chk.violation("tie:code_point", f"model code_point answers {mcp}", {"model": "conv code_point -"}, no_input=True)

    mark("chr")
    # ---------------------------------------------------------------------------------------- int <-> digits / text in a base
    radix_family(chk, quick)
    mark("radix")
    # ---------------------------------------------------------------------------------------- JSON
    ALPH = [34, 92, 47, 8, 9, 10, 12, 13, 0, 1, 31, 127, 32, 97, 98, 122, 65, 48, 0xE9, 0x2028, 0xFFFF, 0xE000, 0xD7FF, 0x1F600, 0x10FFFF]
    SIMPLE_NUMS = [0.0, 1.0, -1.0, 1.5, -2.25, 100.0, 0.5, 1024.0, -0.0048828125, 255.0, 3.0, 1e15]
    RANGE_NUMS = [1e300, -1e300, 5e-324, 1.7976931348623157e308, 0.1, 1e16, 1.2345678901234568e20, 2.2250738585072014e-308, 1e-7, 123456.789, -0.3]

    def rstr(maxlen=6):
        return [rng.choice(ALPH) if rng.random() < 0.8 else rng.randrange(32, 0xD800) for _ in range(rng.randrange(0, maxlen + 1))]

    def gen_doc(depth, simple):
        k = rng.random()
        if depth == 0 or k < 0.45:
            c = rng.random()
            if c < 0.35:
                return ("num", rng.choice(SIMPLE_NUMS) if simple or rng.random() < 0.5 else rng.choice(RANGE_NUMS + [rng.uniform(-1e6, 1e6), rng.randrange(-2 ** 53, 2 ** 53) * 1.0]))
            if c < 0.7:
                return ("str", rstr())
            if c < 0.85:
                return ("bool", rng.random() < 0.5)
            return ("null",)
        if k < 0.75:
            return ("arr", [gen_doc(depth - 1, simple) for _ in range(rng.randrange(0, 4))])
        n = rng.randrange(0, 2) if simple else rng.randrange(0, 4)
        keys = []
        for _ in range(n):
            kk = rstr(3)
            if kk not in keys:
                keys.append(kk)
        return ("obj", [(kk, gen_doc(depth - 1, simple)) for kk in keys])

    def fl_lit(x):
        r = repr(abs(x)).replace("e+", "e")
        if "e" not in r and "." not in r:
            r += ".0"
        return ("-" if (x < 0 or (x == 0 and math.copysign(1, x) < 0)) else "") + r

    def xexpr(doc):
        t = doc[0]
        if t == "num":
            return f"json({fl_lit(doc[1])})"
        if t == "str":
            return f"json({strlit(doc[1])})"
        if t == "bool":
            return "json(true)" if doc[1] else "json(false)"
        if t == "null":
            return "json(())"
        if t == "arr":
            return "json([" + ", ".join(xexpr(x) for x in doc[1]) + "])"
        return "json(mapping<str>()" + "".join(f".set({strlit(k)}, {xexpr(v)})" for k, v in doc[1]) + ")"

    def pyval(doc):
        t = doc[0]
        if t == "num":
            return float(doc[1])
        if t == "str":
            return "".join(map(chr, doc[1]))
        if t == "bool":
            return doc[1]
        if t == "null":
            return None
        if t == "arr":
            return [pyval(x) for x in doc[1]]
        return {"".join(map(chr, k)): pyval(v) for k, v in doc[1]}

    def same(a, b):
        if isinstance(a, bool) or isinstance(b, bool) or a is None or b is None:
            return a is b if (a is None or b is None) else (isinstance(a, bool) and isinstance(b, bool) and a == b)
        if isinstance(a, (int, float)) and isinstance(b, (int, float)):
            return float(a) == float(b)
        if isinstance(a, str) and isinstance(b, str):
            return a == b
        if isinstance(a, list) and isinstance(b, list):
            return len(a) == len(b) and all(same(x, y) for x, y in zip(a, b))
        if isinstance(a, dict) and isinstance(b, dict):
            return a.keys() == b.keys() and all(same(a[k], b[k]) for k in a)
        return False

    def mtoks(doc):
        t = doc[0]
        cps = lambda l: ",".join(map(str, l)) if l else "-"
        if t == "num":
            return ["n:" + cps([ord(c) for c in (repr(doc[1]) if doc[1] != 0 else "0.0")])]
        if t == "str":
            return ["s:" + cps(doc[1])]
        if t == "bool":
            return ["b:1" if doc[1] else "b:0"]
        if t == "null":
            return ["z"]
        if t == "arr":
            return [f"a:{len(doc[1])}"] + [x for d in doc[1] for x in mtoks(d)]
        return [f"o:{len(doc[1])}"] + [x for k, v in doc[1] for x in [cps(k)] + mtoks(v)]

    docs = [(gen_doc(rng.randrange(0, 6), simple), simple) for simple in (True, False) for _ in range(120 if quick else 2500)]
    jexprs = [f"({xexpr(d)}).serialize()" for d, _ in docs] + [f"json_deserialize(({xexpr(d)}).serialize()) == ({xexpr(d)})" for d, _ in docs]
    dumps = eval_exprs(jexprs, chunk=20)
    n = len(docs)
    texts = [undump_str(dumps[i]) for i in range(n)]
    parsed = run_harness([{"op": "conv", "f": "json_parse", "text": t if t is not None else ""} for t in texts])
    sim = [i for i, (d, simple) in enumerate(docs) if simple]
    mser = dict(zip(sim, run_model(["conv ser " + " ".join(mtoks(docs[i][0])) for i in sim])))
    tcp = [",".join(str(ord(c)) for c in t) if t else "-" for t in texts]
    mreser = run_model([f"conv reser {t}" for t in tcp])
    mparse = run_model([f"conv parse {t}" for t in tcp])
    for i, (doc, simple) in enumerate(docs):
        chk.evaluations += 1
        chk.count("json:" + ("simple" if simple else "wide"))
        replay = {"src": f"let r = {jexprs[i]}; let q = {jexprs[n + i]};", "get": ["r", "q"], "document": pyjson.dumps(pyval(doc))}
        if texts[i] is None:
            chk.violation("lang:json:serialize-failed", f"serialize gave {dumps[i][:200]}", replay)
            continue
        pr = parsed[i]
        if "ok" not in pr:
            chk.violation("lang:json:unparseable", f"serde_json rejects the serialised text {texts[i]!r}: {pr}", replay)
            continue
        if not same(pr["ok"], pyval(doc)):
            chk.violation("lang:json:different-document", f"serialised text {texts[i]!r} reads as {pr['ok']!r}, the document is {pyval(doc)!r}", replay)
            continue
        if dumps[n + i] != "(bool true)":
            chk.violation("lang:json:deserialize-roundtrip", f"json_deserialize(serialize(v)) == v is {dumps[n+i]} for v = {pyval(doc)!r}", replay)
            continue
        if i in mser:
            mt = "".join(chr(int(c)) for c in mser[i].split(",")) if mser[i] not in ("-", "bad-op") else mser[i]
            if mt != texts[i]:
                chk.violation("tie:json:ser", f"model ser = {mt!r}, implementation = {texts[i]!r}", {"model": "conv ser " + " ".join(mtoks(doc)), "src": replay["src"]}, no_input=True)
        # the Lean reader on the implementation's text: it must accept it, and re-serialising the value it read must give the same text
        if mreser[i] != "ok " + ",".join(str(ord(c)) for c in texts[i]):
            chk.violation("tie:json:parse", f"model parseJson/ser on the implementation's text {texts[i]!r} gives {mreser[i][:200]}",
                          {"model": "conv reser " + ",".join(str(ord(c)) for c in texts[i]), "src": replay["src"]}, no_input=True)
        elif i in mser and mparse[i] != "ok " + " ".join(mtoks(doc)):
            chk.violation("tie:json:parse", f"model parseJson reads {texts[i]!r} as {mparse[i][:200]}, the document is {' '.join(mtoks(doc))}",
                          {"model": "conv parse " + ",".join(str(ord(c)) for c in texts[i]), "src": replay["src"]}, no_input=True)
    chk.sample({"lang": jexprs[0], "document": pyjson.dumps(pyval(docs[0][0]))})

    # strings: escape (model / implementation / Python json.dumps) and unescape (model / json_deserialize / json.loads)
    strs = [[c] for c in ALPH] + [rstr(12) for _ in range(150 if quick else 5000)] + [list(range(0, 40))]
    sd = eval_exprs([f"json({strlit(cps)}).serialize()" for cps in strs])
    ms = run_model([f"conv escape {','.join(map(str, cps)) if cps else '-'}" for cps in strs])
    for cps, d, m in zip(strs, sd, ms):
        chk.evaluations += 1
        chk.count("json:escape")
        want = pyjson.dumps("".join(map(chr, cps)), ensure_ascii=False)
        got = undump_str(d)
        if got != want:
            chk.violation("lang:json:escape", f"serialize of the string {cps} is {d}, expected {want!r}", {"src": f"let r = json({strlit(cps)}).serialize();", "get": ["r"]})
        elif m != ",".join(str(ord(c)) for c in want):
            chk.violation("tie:json:escape", f"model escapeStr {cps} = {m}, implementation {want!r}", {"model": f"conv escape {cps}"}, no_input=True)
    utexts = []
    for _ in range(150 if quick else 5000):
        parts = ['"']
        for _ in range(rng.randrange(0, 8)):
            r = rng.random()
            if r < 0.3:
                parts.append(rng.choice(['\\"', "\\\\", "\\/", "\\b", "\\f", "\\n", "\\r", "\\t"]))
            elif r < 0.5:
                u = rng.choice([0, 0x1f, 0x41, 0xe9, 0x2028, 0xffff, 0xd7ff, 0xe000, rng.randrange(0, 0xd800)])
                parts.append("\\u%04x" % u if rng.random() < 0.5 else "\\u%04X" % u)
            elif r < 0.6:
                v = rng.randrange(0x10000, 0x110000) - 0x10000
                parts.append("\\u%04x\\u%04x" % (0xd800 + (v >> 10), 0xdc00 + (v & 0x3ff)))
            elif r < 0.9:
                parts.append(chr(rng.choice([32, 97, 0xe9, 0x1f600, 47, 127])))
            else:
                parts.append(rng.choice(["\\x", "\\u12", chr(10), chr(31), "\\ud800", "\\udc00\\ud800", '"', "\\"]))
        parts.append('"')
        utexts.append("".join(parts))
    ud = eval_exprs([f"json_deserialize({strlit([ord(c) for c in t])})" for t in utexts])
    um = run_model([f"conv unescape {','.join(str(ord(c)) for c in t)}" for t in utexts])
    for t, d, m in zip(utexts, ud, um):
        chk.evaluations += 1
        chk.count("json:unescape")
        try:
            want = pyjson.loads(t)
            if not isinstance(want, str) or any(0xD800 <= ord(c) < 0xE000 for c in want):
                want = None
        except Exception:
            want = None
        mm = re.match(r'\(union \d+ (\(str .*\))\)$', d, re.S)
        got = undump_str(mm.group(1)) if mm else None
        replay = {"src": f"let r = json_deserialize({strlit([ord(c) for c in t])});", "get": ["r"], "text": t}
        if want is None:
            if not is_err(d):
                chk.violation("lang:json:accepts-invalid-string", f"json_deserialize of {t!r} = {d}", replay)
            elif m != "none":
                chk.violation("tie:json:unescape", f"model unescapeStr accepts {t!r}: {m}", {"model": "conv unescape", "text": t}, no_input=True)
        else:
            if got != want:
                chk.violation("lang:json:unescape", f"json_deserialize of {t!r} = {d}, expected the string {want!r}", replay)
            elif m != "ok " + (",".join(str(ord(c)) for c in want) if want else "-"):
                chk.violation("tie:json:unescape", f"model unescapeStr {t!r} = {m}, implementation {want!r}", {"model": "conv unescape", "text": t}, no_input=True)

    mark("json")
    return chk.finish(rule="Julian days: blocks of consecutive days through date/julian_day/weekday (quick: ±3 000 000 ends, era/century boundaries, "
                           "40 random blocks, beyond 2^53 and 2^70; thorough: all 6 000 001 days of ±3 000 000); fractions: operand pairs up to 2^70 "
                           "incl. negative/zero/common factors through fraction and every Fraction operation; datetime/unix: dyadic times in ±10^11 s; "
                           "chr/code_point: all boundary scalars/surrogates + random; to_int in bases 2-36 / format x,b,o; JSON: random documents of depth ≤ 5 "
                           "(strings over quotes, backslash, all C0 controls, DEL, BMP and non-BMP; numbers across the double range; objects with distinct keys) "
                           "serialised by the interpreter, parsed by serde_json and compared structurally, and deserialize(serialize(v)) == v; "
                           "non-trivial = distinct fraction cases with an operand ≥ 2^53")
