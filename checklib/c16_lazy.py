"""C16 — laziness / needed-prefix sweep over EVERY library function that takes a generator.

The functions are enumerated from the signature hook (`c01.library_signatures`, the same list the library probes use),
so a new adaptor or consumer is picked up without touching this file; arguments are synthesised from the parameter
types (generics := int).  Two observations per function and per generator parameter:

 (i)  infinite source (count(), successors, repeat of an array): consuming a short prefix of the result under a
      generous search limit must return (no MaximumSearch, no hang);
 (ii) finite source with a poisoned element K (its map callback yields an error value there): consuming a short
      prefix must give exactly what the same program gives on the source truncated before K — the poisoned element is
      never evaluated (same result, same number of callback calls).

Adaptors (generator result) must satisfy both, or be listed in EAGER with the reference that documents it.
Consumers (other results) are early-stopping if they return on an infinite source for one of the synthesised
predicates (then (ii) applies to them), otherwise they are total consumers and must be listed in TOTAL."""
from .common import *
from . import c01 as L

LIMITS = {"search": 2000, "ud_calls": 60000}
PREFIX = 3

# adaptors known NOT to be lazy, with the reference; a key listed here is still reported when it is a known finding
EAGER = {
    # name/arity-signature -> reason
    "flatten/<T>(Generator<Generator<T>>)->Generator<T>":
        "known finding lazy:flatten:outer-infinite (flatten = reduce over add, include.rs:1319)",
}
# consumers that consume the whole generator by definition (book/src/std/generator.md: 'Returns the number of elements', 'the
# last element', 'a sequence containing the elements', reductions over all elements, container updates)
TOTAL = {"len", "last", "to_array", "join", "sum", "product", "max", "min", "mean", "geo_mean", "reduce", "count", "covariance",
         "linear_regression_least_squares", "update", "update_counter", "update_from_keys", "all", "any", "contains", "first", "nth", "get"}
# (the last six are early-stopping for a suitable predicate/index and are classified by observation; being listed only
#  means that walking the whole generator for the *other* predicate is allowed)

# dyn functions over generators have no printable signature: explicit call templates (@G@ = the generator under test)
DYN_TEMPLATES = {
    "zip": ["@G@.zip(count().to_generator())", "count().to_generator().zip(@G@)", "@G@.zip(count().to_generator(), count().to_generator())"],
    "product": ["@G@.product([7, 8].to_generator())", "[7].to_generator().product(@G@)", "@G@.product([7].to_generator(), [8, 9].to_generator())"],
    "unzip": ["@G@.map((x:int)->{(x, x)}).unzip()::item1"],
    "distinct": ["@G@.distinct()"],
    "with_count": ["@G@.with_count()"],
    "group": ["@G@.group()"],
}
DYN_CONSUMERS = {"mean", "geo_mean", "harmonic_mean", "sum", "product", "max", "min", "contains", "count", "median"}

INFINITE = ["count().to_generator()", "successors(0, (x:int)->{x + 1})", "[0, 1, 2].to_generator().repeat()"]


def finite_source(n, poison=None):
    xs = ", ".join(str(i) for i in range(n))
    if poison is None:
        return f"[{xs}].to_generator().map((x:int)->{{x + div_floor(0, x - {n + 5})}})"
    return f"[{xs}].to_generator().map((x:int)->{{x + div_floor(0, x - {poison})}})"


def subst(t):
    """generics := int"""
    if isinstance(t, str):
        return t
    if t[0] == 'G':
        return 'int'
    if t[0] == 'N':
        return ('N', t[1], [subst(a) for a in t[2]])
    if t[0] == 'T':
        return ('T', [subst(a) for a in t[1]])
    if t[0] == 'F':
        return ('F', [subst(a) for a in t[1]], subst(t[2]))
    raise ValueError(t)


class Unsupported(Exception):
    pass


def value_of(t, names):
    """an expression of type t over int variables `names`"""
    if t == 'int':
        return " + ".join(names) if names else "2"
    if t == 'bool':
        return None     # decided by the predicate variant
    if t == 'float':
        return (names[0] + ".to_float()") if names else "1.5"
    if t == 'str':
        return (names[0] + ".to_str()") if names else "','"
    if isinstance(t, tuple) and t[0] == 'T':
        return "(" + ", ".join(value_of(a, names) for a in t[1]) + ")"
    raise Unsupported(L.ts(t))


def lam(t, truth):
    """a lambda of function type t (parameters of type int / tuples of int)"""
    params, ret = t[1], t[2]
    names = [chr(ord('a') + i) for i in range(len(params))]
    ptxt = ", ".join(f"{n}:{L.ts(p)}" for n, p in zip(names, params))
    ints = [n for n, p in zip(names, params) if p == 'int']
    if any(p != 'int' for p in params):
        ints = ints  # tuple-typed parameters are only passed through
    if ret == 'bool':
        if len(ints) >= 2:
            body = f"{ints[0]} == {ints[1]}" if truth else f"{ints[0]} != {ints[0]}"
        elif ints:
            body = f"{ints[0]} >= 0" if truth else f"{ints[0]} < 0"
        else:
            body = "true" if truth else "false"
    else:
        body = value_of(ret, ints)
        if body is None:
            raise Unsupported("bool")
    return f"({ptxt})->{{{body}}}"


def gen_arg(elem, g):
    """the generator under test `g` (of ints) as a generator of `elem`"""
    if elem == 'int':
        return g
    if elem == 'str':
        return f"{g}.map(to_str{{int}})"
    if elem == 'float':
        return f"{g}.map((x:int)->{{x.to_float()}})"
    if isinstance(elem, tuple) and elem[0] == 'T':
        return f"{g}.map((x:int)->{{{value_of(elem, ['x'])}}})"
    if isinstance(elem, tuple) and elem[0] == 'N' and elem[1] == 'Generator' and elem[2] == ['int']:
        return f"{g}.map((x:int)->{{[x, x].to_generator()}})"
    raise Unsupported(L.ts(elem))


def other_arg(t, truth):
    if isinstance(t, tuple) and t[0] == 'F':
        return lam(t, truth)
    if isinstance(t, tuple) and t[0] == 'N':
        if t[1] == 'Mapping' and len(t[2]) == 2 and t[2][0] == 'int':
            return "mapping<int>()"
        if t[1] == 'Set' and t[2] == ['int']:
            return "set<int>()"
        raise Unsupported(L.ts(t))
    v = value_of(t, [])
    if v is None:
        return "true"
    return v


def calls_of(name, sig):
    """call templates of one signature: [(template with {g}, position of the generator parameter)] per generator parameter,
    for both predicate variants; [] if the signature has no generator parameter"""
    gs, ps, ret = L.parse_sig(sig)
    ps = [(subst(t), req) for t, req in ps]
    gpos = [i for i, (t, _) in enumerate(ps) if isinstance(t, tuple) and t[0] == 'N' and t[1] == 'Generator']
    out = []
    for truth in (True, False):
        has_pred = any(isinstance(t, tuple) and t[0] == 'F' and t[2] == 'bool' for t, _ in ps)
        if not truth and not has_pred:
            continue
        for gp in gpos:
            args = []
            for i, (t, req) in enumerate(ps):
                if not req:
                    continue
                if i == gp:
                    args.append(gen_arg(t[2][0], "@G@"))
                elif i in gpos:
                    args.append(gen_arg(t[2][0], "count().to_generator()"))
                else:
                    args.append(other_arg(t, truth))
            call = f"{name}(" + ", ".join(args) + ")"
            out.append((call, gp, truth))
    is_adaptor = isinstance(ret, tuple) and ret[0] == 'N' and ret[1] == 'Generator'
    if is_adaptor:
        # with a never-accepting predicate the denoted stream has no PREFIX elements: searching for ever is its meaning
        out = [o for o in out if o[2]]
    return out, is_adaptor


def run_sweep(chk):
    sigs = L.library_signatures()
    entries = []     # (key, name, template, is_adaptor)
    unsupported = []
    for name in sorted(sigs):
        if name.startswith("__"):
            continue
        for s in sigs[name]:
            if s.startswith("dyn:"):
                if s in ("dyn:generators", "dyn:generator") and name not in DYN_TEMPLATES and name not in DYN_CONSUMERS:
                    chk.violation(f"tie:lazy-sweep:no-template:{name}", f"dyn function `{name}` over generators has no call template in "
                                  f"checklib/c16_lazy.py (DYN_TEMPLATES / DYN_CONSUMERS)", {"name": name, "sig": s}, no_input=True)
                continue
            try:
                calls, is_adaptor = calls_of(name, s)
            except (Unsupported, ValueError) as e:
                unsupported.append(f"{name} {s}: {e}")
                continue
            for call, gp, truth in calls:
                entries.append((f"{name}/{s}", name, call, is_adaptor, gp, truth))
    for name, tmpls in DYN_TEMPLATES.items():
        if name in sigs:
            for i, t in enumerate(tmpls):
                entries.append((f"{name}/dyn#{i}", name, t, True, 0, True))
    chk.coverage["lazy_sweep_unsupported"] = unsupported
    chk.count("sweep:functions", len({e[0] for e in entries}))

    # ---- build the programs
    progs = []   # (entry index, kind, program, consumption)
    K1, N1, K2, N2 = 8, 12, 40, 48
    for ei, (key, name, tmpl, is_adaptor, gp, truth) in enumerate(entries):
        tails = [f".take({PREFIX}).to_array()", f".get({PREFIX - 1})"] if is_adaptor else [""]
        for tail in tails:
            for src in INFINITE:
                progs.append((ei, "inf", tmpl.replace('@G@', src) + tail, tail))
            for (K, N) in ((K1, N1), (K2, N2)):
                progs.append((ei, f"poison{K}", tmpl.replace('@G@', finite_source(N, K)) + tail, tail))
                progs.append((ei, f"trunc{K}", tmpl.replace('@G@', finite_source(K)) + tail, tail))
                progs.append((ei, f"clean{K}", tmpl.replace('@G@', finite_source(N)) + tail, tail))
    reqs = [{"op": "run", "src": f"let a = {p};", "get": ["a"], "limits": LIMITS} for _, _, p, _ in progs]
    resps = run_harness(reqs, per_req_timeout=60.0)
    for _ in progs:
        chk.evaluations += 1
    by_entry = {}
    for (ei, kind, p, tail), r in zip(progs, resps):
        f = _fail(r)
        by_entry.setdefault((ei, tail), []).append((kind, f if f is not None else r["vals"]["a"], r.get("ud_calls1") if f is None else None, p))
    for (ei, tail), runs in by_entry.items():
        key, name, tmpl, is_adaptor, gp, truth = entries[ei]
        infs = [r for r in runs if r[0] == "inf"]
        compile_err = [r for r in runs if str(r[1]).startswith("compile-err")]
        if compile_err:
            chk.count("sweep:not-compiling")
            chk.coverage.setdefault("lazy_sweep_not_compiling", []).append(compile_err[0][3][:160])
            continue
        returns = [r for r in infs if not (str(r[1]).startswith("viol ") or r[1] in ("hang",) or str(r[1]).startswith("panic"))]
        bad_inf = [r for r in infs if r not in returns]
        shape = f"{name}:{'adaptor' if is_adaptor else 'consumer'}"
        if is_adaptor:
            if bad_inf:
                if key in EAGER:
                    chk.violation("lazy:flatten:outer-infinite" if name == "flatten" else f"lazy:{name}:eager-documented",
                                  f"`let a = {bad_inf[0][3]};` : {bad_inf[0][1]} ({EAGER[key]})",
                                  {"src": f"let a = {bad_inf[0][3]};", "get": ["a"], "limits": LIMITS, "got": bad_inf[0][1],
                                   "expect_no_violation": True})
                    continue
                else:
                    chk.violation(f"lazy:{name}:infinite-source",
                                  f"`let a = {bad_inf[0][3]};` under {LIMITS}: {bad_inf[0][1]} — a prefix of {PREFIX} elements of an adaptor over an "
                                  f"infinite generator must not need the whole generator",
                                  {"src": f"let a = {bad_inf[0][3]};", "get": ["a"], "limits": LIMITS, "got": bad_inf[0][1],
                                   "expect_no_violation": True})
            else:
                chk.count("sweep:adaptor:infinite-ok")
        else:
            if bad_inf and len(bad_inf) == len(infs):
                # walks the whole generator for this predicate variant
                if name not in TOTAL:
                    chk.violation(f"lazy:{name}:total-consumer-not-listed",
                                  f"`let a = {bad_inf[0][3]};`: {bad_inf[0][1]} — `{name}` consumes a whole infinite generator and is not in the table "
                                  f"of total consumers (checklib/c16_lazy.py TOTAL)",
                                  {"src": f"let a = {bad_inf[0][3]};", "get": ["a"], "limits": LIMITS, "got": bad_inf[0][1]})
                chk.count("sweep:consumer:total")
                continue
            if bad_inf:
                chk.count("sweep:consumer:mixed")
                continue
            chk.count("sweep:consumer:early-stopping")
        # (ii) the poisoned element beyond the needed prefix is never evaluated
        decided = False
        for K in (K1, K2):
            t = [r for r in runs if r[0] == f"trunc{K}"][0]
            p = [r for r in runs if r[0] == f"poison{K}"][0]
            c = [r for r in runs if r[0] == f"clean{K}"][0]
            # conclusive when cutting the source before K does not change the prefix that is consumed
            if t[1] != c[1] or str(t[1]).startswith("viol"):
                continue          # the truncated source is too short for this function: try the longer one
            decided = True
            if t[2] != c[2]:
                chk.violation(f"lazy:{name}:evaluates-beyond-prefix",
                              f"`let a = {c[3]};` gives {str(c[1])[:100]} with {c[2]} callback calls; on the source cut after {K} elements the same "
                              f"result needs {t[2]} calls: consuming a prefix evaluated elements of the source that the prefix does not need",
                              {"src": f"let a = {c[3]};", "get": ["a"], "limits": LIMITS, "got": c[1], "calls": c[2],
                               "truncated": f"let a = {t[3]};", "expected_calls": t[2]})
            elif p[1] != t[1] or p[2] != t[2]:
                chk.violation(f"lazy:{name}:needs-more-than-prefix",
                              f"`let a = {p[3]};` gives {str(p[1])[:120]} ({p[2]} callback calls); on the source cut before the poisoned "
                              f"element {K} it gives {str(t[1])[:120]} ({t[2]} calls): consuming a prefix evaluated the source beyond it",
                              {"src": f"let a = {p[3]};", "get": ["a"], "limits": LIMITS, "got": p[1], "expected": t[1],
                               "calls": p[2], "expected_calls": t[2], "truncated": f"let a = {t[3]};"})
            else:
                chk.count("sweep:prefix-law-ok")
            break
        if not decided:
            chk.count("sweep:prefix-law-inconclusive")
            chk.coverage.setdefault("lazy_sweep_inconclusive", []).append(f"{key} {tail}")
    # the operations of the model's pipelines must all be library functions that were swept
    swept = {e[1] for e in entries}
    from . import c16
    alias = {"repeatn": "repeat", "aggregate1": "aggregate", "with_count": "with_count"}
    for op in c16.INT_OPS:
        if alias.get(op, op) not in swept:
            chk.violation(f"tie:lazy-sweep:model-op:{op}", f"operation `{op}` of the model's pipelines is not among the swept library functions",
                          {"op": op}, no_input=True)


def _fail(r):
    if "panic" in r:
        return "panic " + r["panic"]
    if "abort" in r:
        return "panic abort " + str(r["abort"])
    if "hang" in r:
        return "hang"
    if r.get("compile") != "ok":
        c = r.get("compile")
        return "compile-err " + (c.get("msg", "?") if isinstance(c, dict) else str(c))[:200]
    if r.get("inst") != "ok":
        return "viol " + r["inst"]["viol"]
    return None
