"""C16 — consumer coherence on the SAME generator value.

For every pipeline of the families below, ONE program binds the generator once and applies every terminal consumer of
the library to it (twice for to_array):
    let g = <pipeline>; let arr = g.to_array(); let arr2 = g.to_array(); let c_len = g.len(); let c_last = g.last(); …
Each consumer's answer is compared (a) with the list computation on `arr` — the to_array of the same value as the
implementation itself printed it (metamorphic), (b) with the same computation on the oracle's list, and (c) with the model
(`xmodel gen <consumer> …`) where the consumer is modelled.  The terminal consumers are enumerated from the signature hook
(every function with a generator parameter and a non-generator result); each needs a rule in RULES or a reason in
EXCLUDED, otherwise `tie:coherence:no-rule:<name>` is reported, so a new consumer cannot go unnoticed.

Families: the random pipelines of c16.gen_case (without error-producing callbacks), the product family, and n-ary endings:
zip of 2-3 parts of mixed kinds (array-backed, possibly under take / skip / add, and filter / map / take_while / skip_until
parts), chains of such parts, repeat(n)."""
import functools
from .common import *
from . import c01 as L
from . import c16

LIMITS = {"search": c16.SEARCH, "ud_calls": c16.UD_CALLS}

EXCLUDED = {
    "covariance": "float statistics (C13)", "linear_regression_least_squares": "float statistics (C13)",
    "mean": "float result (C13)", "geo_mean": "float result (C13)", "harmonic_mean": "float result (C13)",
    "update": "container consumer (C17)", "update_counter": "container consumer (C17)", "update_from_keys": "container consumer (C17)",
}


def parse_dump(d):
    """harness dump -> python value (ints, tuples for struct, lists for seq, ('some', v) / ('none',), strings, bools);
    None if it is not a plain value"""
    toks = re.findall(r'\(|\)|"(?:[^"\\]|\\.)*"|[^\s()]+', d)
    pos = [0]

    def rd():
        t = toks[pos[0]]
        pos[0] += 1
        if t != "(":
            raise ValueError(t)
        head = toks[pos[0]]
        pos[0] += 1
        if head == "int":
            pos[0] += 1          # S / L
            v = int(toks[pos[0]])
            pos[0] += 1
        elif head == "bool":
            v = toks[pos[0]] == "true"
            pos[0] += 1
        elif head == "str":
            v = ("str", toks[pos[0]][1:-1])
            pos[0] += 1
        elif head in ("seq", "struct", "some", "none"):
            items = []
            while toks[pos[0]] != ")":
                items.append(rd())
            v = items if head == "seq" else tuple(items) if head == "struct" else ("some", items[0]) if head == "some" else ("none",)
        else:
            raise ValueError(head)
        if toks[pos[0]] != ")":
            raise ValueError("unclosed")
        pos[0] += 1
        return v
    try:
        return rd()
    except (ValueError, IndexError):
        return None


def to_dump(v):
    if v is c16.ERR:
        return "ERR"
    if isinstance(v, tuple) and v and v[0] == "some":
        return f"(some {to_dump(v[1])})"
    if isinstance(v, tuple) and v == ("none",):
        return "(none)"
    if isinstance(v, tuple) and len(v) == 2 and v[0] == "str":
        return f'(str "{v[1]}")'
    return c16.dump(v)


def isum(x):
    return c16.pysum(x)


def rules(ty, rng):
    """[(name, consumer name in the library, xray call, model consumer or None, python fn of the list)] for element type ty"""
    R = []
    ERR = c16.ERR
    R.append(("len", "len", "len()", "len", lambda a: len(a)))
    R.append(("last", "last", "last()", "last", lambda a: a[-1] if a else ERR))
    for i in (0, 2, 7, -1):
        R.append((f"get({i})", "get", f"get({c16.lit(i)})", f"get:{i}", lambda a, i=i: a[i] if 0 <= i < len(a) else ERR))
    if ty in (c16.INT, c16.TUP2):
        for _ in range(2):
            x, tok, pred = c16.gen_pred(rng, ty, False)
            q = lambda v, pred=pred: pred(c16.Ctx(), v)
            k = rng.choice([0, 1, 2, -1])
            R.append((f"nth({k})", "nth", f"nth({c16.lit(k)}, {x})", f"nth:{k}:{tok}",
                      lambda a, q=q, k=k: ERR if k < 0 else (("some", [v for v in a if q(v)][k]) if len([v for v in a if q(v)]) > k else ("none",))))
            R.append(("first", "first", f"first({x})", f"first:{tok}",
                      lambda a, q=q: ("some", [v for v in a if q(v)][0]) if any(q(v) for v in a) else ("none",)))
            R.append(("any", "any", f"any({x})", f"any:{tok}", lambda a, q=q: any(q(v) for v in a)))
            R.append(("all", "all", f"all({x})", f"all:{tok}", lambda a, q=q: all(q(v) for v in a)))
            R.append(("count(p)", "count", f"count({x})", f"count:{tok}", lambda a, q=q: sum(1 for v in a if q(v))))
    if ty == c16.INT:
        needle = rng.choice([0, 1, 2, 3, 5, 10])
        R.append(("contains", "contains", f"contains({needle})", None, lambda a: needle in a))
        R.append(("contains(eq)", "contains", f"contains({needle}, (a:int, b:int)->{{a == b}})", None, lambda a: needle in a))
        R.append(("count(x)", "count", f"count({needle})", None, lambda a: a.count(needle)))
        R.append(("sum", "sum", "sum()", "reduce:0:add", lambda a: sum(a)))
        R.append(("product", "product", "product()", None, lambda a: functools.reduce(lambda x, y: x * y, a, 1)))
        R.append(("max", "max", "max()", None, lambda a: max(a) if a else ERR))
        R.append(("min", "min", "min()", None, lambda a: min(a) if a else ERR))
        R.append(("max(lt)", "max", "max((a:int, b:int)->{a < b})", None, lambda a: max(a) if a else ERR))
        R.append(("min(lt)", "min", "min((a:int, b:int)->{a < b})", None, lambda a: min(a) if a else ERR))
        x, tok, f2 = c16.gen_f2(rng)
        f = lambda s, v, f2=f2: f2(c16.Ctx(), s, v)
        init = c16.small(rng)
        R.append(("reduce(init)", "reduce", f"reduce({c16.lit(init)}, {x})", f"reduce:{init}:{tok}", lambda a, f=f, init=init: functools.reduce(f, a, init)))
        R.append(("reduce", "reduce", f"reduce({x})", f"reduce1:{tok}", lambda a, f=f: functools.reduce(f, a) if a else ERR))
        R.append(("join", "join", "map(to_str{int}).join(',')", None, lambda a: ("str", ",".join(str(v) for v in a))))
        R.append(("join()", "join", "map(to_str{int}).join()", None, lambda a: ("str", "".join(str(v) for v in a))))
    return R


def mixed_part(rng, backed):
    """one part of an n-ary ending: array-backed (known length: arrays under take / skip / add) or of unknown length
    (filter / map / take_while / skip_until …)"""
    if backed:
        p = c16.gen_source(rng, False)
        tries = 0
        while p.inf and tries < 5:
            p = c16.gen_source(rng, False)
            tries += 1
        if p.inf:
            p = c16.final_take(p, rng.choice([2, 4, 6]))
        for _ in range(rng.choice([0, 0, 1, 2])):
            op = rng.choice(["take", "skip", "add"])
            if op == "take":
                n = rng.choice([0, 2, 3, 5, 8])
                p = p.then("take", f"{p.src}.take({n})", f"take:{n}", c16.o_slice(p.orc, 0, n))
            elif op == "skip":
                n = rng.choice([0, 1, 2, 4])
                p = p.then("skip", f"{p.src}.skip({n})", f"skip:{n}", c16.o_slice(p.orc, n, None))
            else:
                xs = [rng.choice([0, 1, 2, 3, 4, 5]) for _ in range(rng.choice([1, 2, 4]))]
                q = c16.Pipe("[" + ", ".join(map(str, xs)) + "].to_generator()", ["arr:" + ",".join(map(str, xs))], c16.o_arr(xs), ops=["arr"])
                p = c16.Pipe(f"{p.src}.add({q.src})", p.toks + q.toks + ["add"], c16.o_chain([p.orc, q.orc]), c16.INT, False, p.ops + q.ops + ["add"])
        return p
    p = c16.gen_pipe(rng, False, rng.choice([1, 2, 3]), want_int=True)
    if p.inf:
        p = c16.final_take(p, rng.choice([1, 3, 5, 8]))
    return p


def nary_case(rng):
    kind = rng.choice(["zip", "zip", "zip", "chain", "repeatn"])
    if kind == "zip":
        k = rng.choice([2, 2, 3])
        parts = [mixed_part(rng, rng.random() < 0.5) for _ in range(k)]
        src = f"{parts[0].src}.zip(" + ", ".join(q.src for q in parts[1:]) + ")"
        p = c16.Pipe(src, [t for q in parts for t in q.toks] + [f"zip:{k}"], c16.o_zip([q.orc for q in parts]),
                     ty=c16.TUP2 if k == 2 else "TUP3", inf=False, ops=[o for q in parts for o in q.ops] + ["zip"])
        return p
    if kind == "chain":
        parts = [mixed_part(rng, rng.random() < 0.5) for _ in range(rng.choice([2, 3]))]
        p = parts[0]
        for q in parts[1:]:
            p = c16.Pipe(f"{p.src}.add({q.src})", p.toks + q.toks + ["add"], c16.o_chain([p.orc, q.orc]), c16.INT, False, p.ops + q.ops + ["add"])
        return p
    q = mixed_part(rng, rng.random() < 0.5)
    n = rng.choice([0, 1, 2, 3])
    return q.then("repeatn", f"{q.src}.repeat({n})", f"repeatn:{n}", c16.o_chain([q.orc] * n))


def library_consumers(sigs):
    """names of the library functions with a generator parameter and a non-generator result"""
    out = set()
    for name in sorted(sigs):
        for s in sigs[name]:
            if s.startswith("dyn:"):
                if s in ("dyn:generator",):
                    out.add(name)
                continue
            try:
                gs, ps, ret = L.parse_sig(s)
            except ValueError:
                continue
            if any(isinstance(t, tuple) and t[0] == 'N' and t[1] == 'Generator' for t, _ in ps) and \
                    not (isinstance(ret, tuple) and ret[0] == 'N' and ret[1] == 'Generator'):
                out.add(name)
    return out


def check_one(p, rng_rules, want_list):
    """-> (requests pieces) build the program for pipeline p"""
    R = rules(p.ty, rng_rules)
    lines = [f"let g = {p.src};", "let arr = g.to_array();", "let arr2 = g.to_array();"]
    names = ["arr", "arr2"]
    for j, (nm, lib, call, mcons, fn) in enumerate(R):
        lines.append(f"let c{j} = g.{call};")
        names.append(f"c{j}")
    return R, "\n".join(lines) + "\n", names


def run_coherence(chk):
    rng = chk.rng
    quick = chk.tier == "quick"
    sigs = L.library_signatures()
    consumers = library_consumers(sigs)
    sample_rules = {r[1] for ty in (c16.INT, c16.TUP2, c16.SEQ) for r in rules(ty, random.Random(0))} | {"to_array"}
    for name in sorted(consumers):
        if name not in sample_rules and name not in EXCLUDED:
            chk.violation(f"tie:coherence:no-rule:{name}", f"terminal consumer `{name}` of the library has neither a coherence rule nor an "
                          f"exclusion in checklib/c16_coh.py", {"name": name, "sigs": sigs[name]}, no_input=True)
    chk.coverage["coherence_consumers"] = sorted(consumers)
    chk.coverage["coherence_excluded"] = EXCLUDED

    n_rand, n_prod, n_nary = (60, 25, 70) if quick else (600, 250, 700)
    pipes = []
    while len(pipes) < n_rand:
        c = c16.gen_case(rng, 5 if quick else 8)
        if getattr(c[0], "errmode", False):
            continue
        pipes.append(("pipe", c[0]))
    for _ in range(n_prod):
        pipes.append(("product", c16.gen_product_case(rng)[0]))
    for _ in range(n_nary):
        pipes.append(("nary", nary_case(rng)))

    progs, metas = [], []
    for fam, p in pipes:
        R, src, names = check_one(p, rng, None)
        progs.append({"op": "run", "src": src, "get": names, "limits": LIMITS})
        metas.append((fam, p, R, names))
    resps = run_harness(progs, per_req_timeout=c16.WATCHDOG)
    # the model, for the modelled consumers of pipelines that have tokens
    mlines, mref = [], []
    for pi, (fam, p, R, names) in enumerate(metas):
        if getattr(p, "nomodel", False) or hasattr(p, "product_spec") or p.ty == "TUP3" and False:
            continue
        for j, (nm, lib, call, mcons, fn) in enumerate(R):
            if mcons:
                mlines.append(f"gen {mcons} {c16.SEARCH} {c16.FUEL} " + " ".join(p.toks))
                mref.append((pi, j))
    mres = dict(zip(mref, run_model(mlines))) if mlines else {}

    for pi, ((fam, p, R, names), r, req) in enumerate(zip(metas, resps, progs)):
        chk.evaluations += 1
        chk.count("coh:family:" + fam)
        f = c16._fail(r)
        if f is not None:
            if f.startswith("COMPILE"):
                chk.violation(f"tie:coherence:harness:{fam}", f"generated coherence program does not compile: {f[:200]}", {**req, "got": f}, no_input=True)
            else:
                chk.count("coh:whole-program:" + f.split()[0])
            continue
        arr_d, arr2_d = r["vals"]["arr"], r["vals"]["arr2"]
        if arr_d != arr2_d:
            chk.violation(f"coherence:to_array:twice:{fam}", f"{req['src']} — to_array of the same value twice: {arr_d[:120]} / {arr2_d[:120]}", {**req, "got": arr_d, "got_second": arr2_d})
            continue
        arr = parse_dump(arr_d)
        if not isinstance(arr, list):
            chk.count("coh:to_array-not-a-list")
            continue
        # the oracle's list (None when it gives up)
        try:
            ov, _ = c16.consume("toarray", None, p.orc)
        except c16.Diverge:
            ov = None
        if ov is not None and ov is not c16.ERR and c16.dump(ov) != arr_d:
            sig = "+".join(sorted(set(p.ops)))
            chk.violation(f"coherence:to_array:wrong:{sig}", f"let g = {p.src}; g.to_array() = {arr_d[:160]}; over plain lists {c16.dump(ov)[:160]}",
                          {"src": f"let g = {p.src}; let a = g.to_array(); let b = g.to_array();", "get": ["a", "b"], "limits": LIMITS, "expected": c16.dump(ov)})
            continue
        for j, (nm, lib, call, mcons, fn) in enumerate(R):
            chk.evaluations += 1
            chk.count("coh:consumer:" + lib)
            got = c16.canon_impl(r["vals"][f"c{j}"])
            try:
                want = to_dump(fn(arr))
            except Exception as e:      # the rule does not apply to this element type / value
                chk.count("coh:rule-not-applicable")
                continue
            src1 = f"let g = {p.src}; let a = g.{call}; let b = g.to_array();"
            if got != want:
                sig = "+".join(sorted(set(p.ops)))
                chk.violation(f"coherence:{lib}:{sig}",
                              f"on the same generator value `g = {p.src}`: g.{call} = {got[:120]}, but g.to_array() = {arr_d[:160]}, whose {nm} is {want[:120]}",
                              {"src": src1, "get": ["a", "b"], "limits": LIMITS, "coherence": {"consumer": call, "expected_from_to_array": want}, "got": got})
                continue
            m = mres.get((pi, j))
            if m is not None:
                mm = c16.parse_model(m)
                if mm not in ("FUEL",) and mm != got:
                    sig = "+".join(sorted(set(p.ops)))
                    chk.violation(f"tie:coherence:{lib}:{sig}", f"model gives {mm[:100]} for g.{call} on `g = {p.src}`, implementation and list computation {got[:100]}",
                                  {"src": src1, "model": mlines[list(mres.keys()).index((pi, j))], "model_out": m}, no_input=True)
