"""Deeply nested closures (shared by C02 and C03): implementation vs closed form.

Functions / lambdas nested 2..7 levels deep; every level has 1..3 parameters and optional let-bound locals; the innermost
body combines variables of EVERY enclosing level positionally (a*b^k + ...), so reading any other variable than the one
named - e.g. a variable of another level that happens to sit in the same cell index - changes the value.  Variants: all
lambdas (curried call), all named nested functions (each returned and called by the next level), mixed; parameters of
different levels at the same position; a level that uses none of its own variables; intermediate levels that capture only
for their children; the same shape instantiated twice with different arguments (no sharing between activations)."""
import json
from .common import run_harness


def _gen_case(rng, depth, style):
    """returns (source, binding name, expected int)"""
    levels = []     # per level: list of (name, value, kind) ; kind 'p' parameter, 'l' local
    uid = 0
    for d in range(depth):
        vars_ = []
        for k in range(rng.choice([1, 1, 2, 3])):
            uid += 1
            vars_.append((f"p{d}_{k}", rng.randint(1, 8), 'p'))
        if rng.random() < 0.4:
            uid += 1
            vars_.append((f"l{d}", None, 'l'))
        levels.append(vars_)
    # expected values of locals: local of level d = sum of that level's parameters + d
    env = {}
    for d, vars_ in enumerate(levels):
        for name, val, kind in vars_:
            if kind == 'p':
                env[name] = val
        for name, val, kind in vars_:
            if kind == 'l':
                env[name] = sum(v for (n2, v, k2) in vars_ if k2 == 'p') + d
    used = []
    for d, vars_ in enumerate(levels):
        pick = [v for v in vars_ if rng.random() < 0.8] or [vars_[0]]
        if d == depth - 1 and rng.random() < 0.3:
            pick = []                      # the innermost level uses none of its own variables
        used.extend(n for n, _, _ in pick)
    if not used:
        used = [levels[0][0][0]]
    terms, expected = [], 0
    for i, nme in enumerate(used):
        w = 9 ** i
        terms.append(f"{nme} * {w}")
        expected += env[nme] * w
    body = " + ".join(terms)

    def params(d):
        return ", ".join(f"{n}: int" for n, _, k in levels[d] if k == 'p')

    def locals_(d):
        ps = [n for n, _, k in levels[d] if k == 'p']
        return "".join(f"let {n} = {' + '.join(ps)} + {d}; " for n, _, k in levels[d] if k == 'l')

    def args(d):
        return ", ".join(str(v) for _, v, k in levels[d] if k == 'p')

    rett = ["int"]
    for d in range(depth - 1, 0, -1):
        pt = ", ".join("int" for _, _, k in levels[d] if k == 'p')
        rett.append(f"({pt})->({rett[-1]})")
    rett.reverse()          # rett[d] = return type of level d

    def build(d):
        """expression/declaration text for level d and below, as the body of level d-1"""
        inner = body if d == depth - 1 else None
        if style == "lambda" or (style == "mixed" and d % 2 == 1):
            b = f"{locals_(d)}{inner if inner is not None else build(d + 1)}"
            return f"({params(d)})->{{{b}}}"
        b = f"{locals_(d)}{inner if inner is not None else build(d + 1)}"
        return f"fn f{d}({params(d)})->{rett[d]}{{{b}}} f{d}"

    src0 = build(0)
    call = "".join(f"({args(d)})" for d in range(depth))
    if src0.startswith("fn f0"):
        decl, _ = src0.rsplit(" f0", 1)
        src = f"{decl}\nlet r = f0{call};\n"
    else:
        src = f"let r = ({src0}){call};\n"
    return src, expected


def deep_capture(chk, rng, n, prefix):
    cases = []
    for _ in range(n):
        depth = rng.choice([2, 3, 4, 4, 5, 5, 6, 7])
        style = rng.choice(["lambda", "named", "mixed"])
        src, exp = _gen_case(rng, depth, style)
        cases.append((src, exp, depth, style))
    res = run_harness([{"op": "run", "src": src, "get": ["r"], "limits": {"time_ms": 5000}} for src, _, _, _ in cases], per_req_timeout=30.0)
    rejected = 0
    for (src, exp, depth, style), r in zip(cases, res):
        chk.evaluations += 1
        chk.count(f"{prefix}:deep-capture:{style}:{depth}")
        if r.get("compile") != "ok":
            rejected += 1
            chk.count(f"{prefix}:deep-capture:rejected")
            continue
        chk.nontrivial.add(src)
        want = f"(int S {exp})"
        got = r.get("vals", {}).get("r") if r.get("inst") == "ok" else json.dumps({k: r.get(k) for k in ("inst", "panic", "abort", "hang") if k in r})[:200]
        if got != want:
            chk.violation(f"{prefix}:deep-capture:{style}:wrong-value",
                          f"closures nested {depth} deep ({style}): the innermost body names variables of every level; r = {got}, expected {want}: {src.strip()[:400]}",
                          {"src": src, "get": ["r"], "limits": {"time_ms": 5000}, "expected": {"r": want}, "got": {"r": got}})
    chk.coverage[f"{prefix}_deep_capture_rejected"] = rejected
    if cases:
        chk.sample({"deep-capture": cases[0][0], "expected": cases[0][1]})
