"""C06 — Errors propagate as values; violations cannot be caught.
Proofs: lean/Props/C06.lean over lean/XrayModel/Core.lean (the core evaluator).
Tie: generated core programs with error values injected at every kind of argument position (unique messages, so
"the leftmost one" is observable) and limit sweeps that make a violation land on every user call / frame,
run on the implementation, the Lean model and the Python reference evaluator."""
from .common import *
from . import coregen as cg
from .corecheck import Case, three_way, replay_file


def run(chk):
    rng = chk.rng
    quick = chk.tier == "quick"
    chk.trusted += [
        "checklib/coregen.py RefEval: independent Python evaluator of the documented semantics (oracle)",
        "theorems are about the named-level core model (XrayModel/Core.lean); natives outside the core fragment are covered by the tie only",
        "Driver/Core.lean uses `partial` for S-expression decoding and value printing (glue, not part of the model)",
    ]
    if not chk.prove():
        handle_broken(chk)
    cases = []
    # (a) error injection
    n = 250 if quick else 6000
    for i in range(n):
        g = cg.Gen(rng, max_depth=rng.choice([3, 4, 5]), err_rate=rng.choice([0.08, 0.15, 0.3]))
        ds = cg.ERR_PRELUDE + g.program(rng.choice([3, 5, 8]))
        cases.append(Case(ds, "inject", printer_rng=rng))
    # (b) targeted: one user function, errors at every subset of argument positions
    for k in range(1, 4 if quick else 5):
        for mask in range(1, 2 ** k):
            params = [(f'a{i}', 'int', None) for i in range(k)]
            used = rng.sample(range(k), rng.randrange(0, k + 1))
            body = ('i', 7)
            for u in used:
                body = ('c', 'add', [body, ('v', f'a{u}')])
            f = ('fn', 'f', params, 'int', [], ('c', 'display', [body]))
            args = [('c', 'err_int', [('s', f'm{i}')]) if (mask >> i) & 1 else ('c', 'display', [('i', i)]) for i in range(k)]
            for form in range(3):
                if form == 0:
                    call = ('c', 'f', args)
                elif form == 1:   # through a function-typed variable
                    call = ('ce', ('v', 'g'), args)
                else:             # through an immediately applied lambda that forwards
                    lam = ('lam', [(f'b{i}', 'int', None) for i in range(k)], [], ('c', 'f', [('v', f'b{i}') for i in range(k)]), 'int')
                    call = ('ce', lam, args)
                ds = cg.ERR_PRELUDE + [f, ('let', 'g', ('v', 'f'), None), ('let', 'r', call, 'int'),
                                       ('let', 'h', ('c', 'is_error', [call]), 'bool'),
                                       ('let', 't', ('tup', [('i', 1), call]), None),
                                       ('let', 'q', ('arr', [call, ('i', 2)], 'int'), None)]
                cases.append(Case(ds, f"leftmost-k{k}", printer_rng=rng))
    # (b') aggregates: every subset of erroring fields of a literal tuple, every selected index, several consumers
    for k in range(1, 4):
        for mask in range(1, 2 ** k):
            items = [('c', 'err_int', [('s', f't{i}')]) if (mask >> i) & 1 else ('c', 'display', [('i', 10 + i)]) for i in range(k)]
            ds = list(cg.ERR_PRELUDE)
            for idx in range(k):
                ds.append(('let', f'm{idx}', ('item', ('tup', items), idx), None))
            ds.append(('let', 'whole', ('tup', items), None))
            ds.append(('let', 'arr', ('arr', items, 'int'), None))
            ds.append(('let', 'n', ('c', 'len', [('arr', items, 'int')]), None))
            ds.append(('let', 'nested', ('item', ('tup', [('i', 1), ('tup', items)]), 0), None))
            cases.append(Case(ds, f"aggregate-k{k}", printer_rng=rng))
    res = three_way(chk, cases, "c06", nontrivial=lambda c, ev: 'err_' in c.src and 'error' in json.dumps(ev.out) or 'err_' in c.src)
    for c, ci, cm, co, ev in res[:2]:
        chk.sample({"program": c.src, "impl": ci})

    # (c) violation sweep: every limit value from 1 to the program's need + 1; wrapped in error handlers
    sweep = []
    progs = []
    for i in range(25 if quick else 400):
        g = cg.Gen(rng, max_depth=4, err_rate=0.05)
        ds = cg.ERR_PRELUDE + g.program(rng.choice([4, 6]))
        # wrap every top-level let in an error handler: a violation must still reach the host
        ds2 = []
        for d in ds:
            if d[0] == 'let' and d[3] in ('int', 'bool', 'str'):
                ds2.append(('let', d[1], ('c', 'if_error', [d[2], cg.Gen(rng).lit(d[3])]), d[3]))
            else:
                ds2.append(d)
        ev = cg.RefEval(); 
        try:
            r = ev.run(ds2)
        except Exception:
            continue
        if ev.all_calls == 0:
            continue
        progs.append((ds2, ev.all_calls, ev.max_depth))
    for ds, ncalls, mdepth in progs:
        src = cg.Printer(rng).program(ds)
        ls = list(range(1, min(ncalls, 12 if quick else 60) + 2))
        for l in ls:
            sweep.append(Case(ds, "calls-limit", calls=l, src=src))
        for l in range(1, mdepth + 2):
            sweep.append(Case(ds, "depth-limit", depth=l, src=src))
    res = three_way(chk, sweep, "c06", nontrivial=lambda c, ev: True)
    nviol = sum(1 for c, ci, cm, co, ev in res if ci["outcome"].startswith("viol"))
    chk.coverage["sweep_runs_ending_in_violation"] = nviol
    for c, ci, cm, co, ev in res[:1]:
        chk.sample({"program": c.src, "limits": {"calls": c.calls, "depth": c.depth}, "impl": ci["outcome"]})
    # (d) the whole exported library surface: an error value at argument position i is the result (leftmost),
    #     and (e) a violation inside a library function that runs user callbacks is never swallowed
    from . import libprobe
    libprobe.error_propagation(chk, rng, 1 if quick else 6, prefix="c06")
    libprobe.limit_transparency(chk, rng, 1 if quick else 4, prefix="c06",
                                sweeps={"ud_calls": [1, 2, 4, 9], "search": [1, 3, 9]} if quick else None)
    # (f) extended fragment (unions, optionals, optional map_or/or/and, get/index sugar/push/len, !: and ?:):
    #     implementation / extended Lean model CoreX (`core runx`) / extended reference evaluator
    from . import coregenx as cx
    xcases = []
    for ds, tag in cx.targeted_programs():
        xcases.append(cx.Case(ds, tag, printer_rng=rng))
    for i in range(120 if quick else 3000):
        g = cx.Gen(rng, max_depth=rng.choice([3, 4]), err_rate=rng.choice([0.08, 0.15, 0.3]))
        ds = cg.ERR_PRELUDE + cx.X_PRELUDE + g.program(rng.choice([3, 5, 8]))
        xcases.append(cx.Case(ds, "x-inject", printer_rng=rng))
    xprogs = []
    for i in range(8 if quick else 150):
        g = cx.Gen(rng, max_depth=4, err_rate=0.05)
        ds = cg.ERR_PRELUDE + cx.X_PRELUDE + g.program(rng.choice([4, 6]))
        ev = cx.RefEval()
        try:
            ev.run(ds)
        except Exception:
            continue
        if ev.all_calls:
            xprogs.append((ds, ev.all_calls, ev.max_depth))
    for ds, ncalls, mdepth in xprogs:
        src = cx.Printer(rng).program(ds)
        for l in range(1, min(ncalls, 10 if quick else 40) + 2):
            xcases.append(cx.Case(ds, "x-calls-limit", calls=l, src=src))
        for l in range(1, mdepth + 2):
            xcases.append(cx.Case(ds, "x-depth-limit", depth=l, src=src))
    res = three_way(chk, xcases, "c06", nontrivial=lambda c, ev: True, per_req_timeout=40.0)
    chk.coverage["extended_fragment_runs"] = len(res)
    chk.coverage["extended_fragment_runs_ending_in_violation"] = sum(1 for c, ci, cm, co, ev in res if ci["outcome"].startswith("viol"))
    for c, ci, cm, co, ev in res[-1:]:
        chk.sample({"program": c.src, "impl": ci["outcome"]})
    # (e') generator pipelines (the iterator adaptors that must forward a violation instead of swallowing it)
    libprobe.pipeline_transparency(chk, rng, 100 if quick else 1500, prefix="c06")
    return chk.finish(rule="generated core programs with typed error values injected at argument positions (unique messages), "
                           "targeted leftmost-error programs (every subset of erroring arguments of a k-ary user function, direct / via variable / via lambda, "
                           "inside tuple and array construction and under is_error), and call/depth limit sweeps 1..need+1 on handler-wrapped programs; "
                           "plus, over the whole exported library surface (signature hook + typed value pool of C01): an error value at each argument position must be the result, "
                           "and calls running user callbacks under call/search limits end in that violation or in the unlimited outcome; "
                           "plus the extended fragment (unions, optionals with map_or/or/and, get/index/push/len, !: and ?:) three ways against the model CoreX: every native x every subset of erroring arguments, index sweep around the bounds, generated programs with injection, limit sweeps; "
                           "non-trivial = program contains an injected error or runs under a limit; distinct by source text + limits")


def replay(path):
    return replay_file(path, "C06")
