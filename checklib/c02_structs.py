"""C02, user structs with user overloads of the operator-named functions.

"An operator is the named function it aliases, so user overloads of that name take effect" — for *every* function of
the book's alias table (book/src/lang/functions.md "Operators", read at run time by `book_alias_table`) and for the
documented derived functions (book/src/std/general.md): `lt/le/gt/ge(a, b)` = `cmp(a, b)` `< / <= / > / >=` 0, `ne` =
`!eq`, `max(a, b)` = `b` if `lt(a, b)` else `a`, `min(a, b)` = `b` if `lt(b, a)` else `a`, `sort` by `cmp`.

Programs declare `struct P(x: int, y: int)` and user functions named add, sub, mul, div, mod, pow, bit_and, bit_or,
bit_xor, and, or, neg, pos, not, get, cmp, eq, (some of) lt, le, gt, ge, ne, to_str, hash on it whose bodies return
distinctive and unusual values (cmp any integer incl. 0 and bignums, eq constants, results tagged in `y`), then use
every spelling (operator / call / method / index) on them, directly and inside tuples, sequences and optionals.

Encoding for the untyped reference evaluator and the Lean core model (neither is edited): a struct value is a tuple;
`P@mk` is the constructor (printed as the `struct` declaration), `f@P` the user's overload of `f` (printed `f`),
`f@D:P` the *documented derivation* of `f` from `cmp@P` / `eq@P` written out as a function (hidden from the source
text: the language supplies it), `f@D:tup` / `f@D:seq` / `f@D:opt` the same one level up (arguments flattened)."""
import os
import re
from . import coregen as cg

# name -> (symbol, level, right-assoc): the documented table (c02.DOC_BINARY turned around)
DOCF = {
    'pow': ('**', 6, True), 'mul': ('*', 5, False), 'div': ('/', 5, False), 'mod': ('%', 5, False),
    'add': ('+', 4, False), 'sub': ('-', 4, False),
    'bit_or': ('|', 3, False), 'bit_and': ('&', 3, False), 'bit_xor': ('^', 3, False),
    'le': ('<=', 2, False), 'lt': ('<', 2, False), 'ge': ('>=', 2, False), 'gt': ('>', 2, False),
    'eq': ('==', 2, False), 'ne': ('!=', 2, False), 'and': ('&&', 1, False), 'or': ('||', 1, False),
}
DOCU = {'not': '!', 'neg': '-', 'pos': '+'}


def book_alias_table(repo):
    """(binary [(token, function)], unary [(token, function)], index function) as listed in the book"""
    text = open(os.path.join(repo, "book", "src", "lang", "functions.md")).read()
    i = text.index("following binary operators")
    j = text.index("following unary operators")
    k = text.index("indexing operator")
    item = re.compile(r"^\* `([^`]+)`: `([a-z_]+)`\s*$", re.M)
    binary = item.findall(text[i:j])
    unary = item.findall(text[j:k])
    m = re.search(r"indexing operator \(`\[\]`\) as an alias for the `([a-z_]+)` function", text)
    return binary, unary, (m.group(1) if m else None)


class StructPrinter(cg.Printer):
    """xray text of the struct programs: every operator of the table in infix / call / method spelling, index sugar,
    struct declarations and member access; the derivations `@D` are not printed"""

    def expr(self, e, prec=0):
        k = e[0]
        if k == 'item' and len(e) == 4:
            return self.expr(e[1], 9) + '::' + e[3]
        if k != 'c':
            return super().expr(e, prec)
        f, args = e[1], e[2]
        shown = f.split('@')[0]
        kind = f.split(':')[1] if '@D:' in f else None
        if f.endswith('@mk'):
            return shown + '(' + ', '.join(self.expr(a) for a in args) + ')'
        if kind in ('tup', 'seq', 'opt'):
            h = len(args) // 2
            if kind == 'tup':
                mk = lambda xs: ('x', '(' + ', '.join(self.expr(a) for a in xs) + ')')
            elif kind == 'seq':
                mk = lambda xs: ('x', '[' + ', '.join(self.expr(a) for a in xs) + ']')
            else:
                mk = lambda xs: ('x', 'some(' + self.expr(xs[0]) + ')')
            return self.binary(shown, mk(args[:h]), mk(args[h:]), prec)
        if shown in DOCF and len(args) == 2:
            return self.binary(shown, args[0], args[1], prec)
        if shown in DOCU and len(args) == 1:
            if self.pick(3) <= 1:
                s = DOCU[shown] + self.expr(args[0], 8)
                return '(' + s + ')' if prec > 7 else s
            if self.pick(2) == 0:
                return self.expr(args[0], 9) + '.' + shown + '()'
            return shown + '(' + self.expr(args[0]) + ')'
        if shown == 'get' and len(args) == 2 and self.pick(3) != 2:
            return self.expr(args[0], 9) + '[' + self.expr(args[1]) + ']'
        if args and self.pick(3) == 2 and shown not in ('if', 'display', 'error'):
            return self.expr(args[0], 9) + '.' + shown + '(' + ', '.join(self.expr(a) for a in args[1:]) + ')'
        return shown + '(' + ', '.join(self.expr(a) for a in args) + ')'

    def sub(self, a, prec):
        return a[1] if a[0] == 'x' else self.expr(a, prec)     # ('x', text): an already printed primary

    def binary(self, shown, a, b, prec):
        sym, lvl, right = DOCF[shown]
        style = self.pick(6)
        if style <= 3:
            lp, rp = (lvl + 1, lvl) if right else (lvl, lvl + 1)
            s = self.sub(a, lp) + ' ' + sym + ' ' + self.sub(b, rp)
            return '(' + s + ')' if (prec > lvl or style == 3) else s
        if style == 4:
            return shown + '(' + self.sub(a, 0) + ', ' + self.sub(b, 0) + ')'
        return self.sub(a, 9) + '.' + shown + '(' + self.sub(b, 0) + ')'

    def decl(self, d):
        if d[0] == 'fn' and d[1].endswith('@mk'):
            return 'struct ' + d[1].split('@')[0] + '(' + ', '.join(f'{n}: {cg.ty_str(t)}' for (n, t, _) in d[2]) + ')\n'
        if d[0] == 'fn' and '@D' in d[1]:
            return ''
        return super().decl(d)


# ------------------------------------------------------------------------------------------------ program family

def V(n):
    return ('v', n)


def I(n):
    return ('i', n)


def C(f, *a):
    return ('c', f, list(a))


def X(e):
    return ('item', e, 0, 'x')


def Y(e):
    return ('item', e, 1, 'y')


def disp(e):
    return C('display', e)


A, B = V('a'), V('b')
CMP_FACTORS = [1, 1, 7, -1, -3, 2 ** 70, -(2 ** 64), 0, 2]
CMP_CONSTS = [5, -3, 0, 2 ** 64, -(2 ** 63) - 1, 2, 1, -1]
BIN_P = ['add', 'sub', 'mul', 'div', 'mod', 'pow', 'bit_and', 'bit_or', 'bit_xor', 'and', 'or']


class StructProgram:
    """one program of the family. loud: the overloads announce themselves through display (direct uses only);
    quiet: no output in cmp / eq, and the uses include containers, max / min and sort"""

    def __init__(self, rng, loud):
        self.rng, self.loud = rng, loud
        self.decls = [('fn', 'P@mk', [('x', 'int', None), ('y', 'int', None)], 'P', [], ('tup', [V('x'), V('y')]))]
        self.tag = 100
        self.user = set()
        self.features = set()
        self.cmp_factor = None
        self.make_overloads()

    def mk(self, x, y):
        return C('P@mk', x, y)

    def loudly(self, e):
        self.tag += 1
        return C('add', C('mul', disp(I(self.tag)), I(0)), e) if (self.loud and self.rng.random() < 0.7) else e

    def fn(self, name, params, ret, body, decls=None):
        self.decls.append(('fn', name, params, ret, decls or [], body))

    def make_overloads(self):
        rng = self.rng
        PP = [('a', 'P', None), ('b', 'P', None)]
        # cmp: any integer
        if rng.random() < 0.7:
            k = rng.choice(CMP_FACTORS)
            self.cmp_factor = k
            body = C('mul', C('sub', X(A), X(B)), I(k))
            self.features.add('cmp:factor:' + ('0' if k == 0 else ('big' if abs(k) > 2 ** 60 else ('neg' if k < 0 else ('1' if k == 1 else 'pos>1')))))
        else:
            k = rng.choice(CMP_CONSTS)
            body = I(k)
            self.features.add('cmp:const:' + ('0' if k == 0 else ('big' if abs(k) > 2 ** 60 else ('neg' if k < 0 else ('1' if k == 1 else 'pos>1')))))
        self.fn('cmp@P', PP, 'int', self.loudly(body) if self.loud else body)
        # eq: a constant, or one of the fields
        r = rng.random()
        body = ('b', rng.random() < 0.5) if r < 0.35 else (C('eq', Y(A), Y(B)) if r < 0.7 else C('eq', X(A), X(B)))
        self.features.add('eq:' + ('const' if r < 0.35 else 'field'))
        if self.loud and rng.random() < 0.7:
            self.tag += 1
            body = C('and', C('eq', disp(I(self.tag)), I(self.tag)), body)
        self.fn('eq@P', PP, 'bool', body)
        # the derived comparisons, or the user's own
        for f, test in (('lt', 'lt'), ('le', 'le'), ('gt', 'gt'), ('ge', 'ge')):
            if self.loud and rng.random() < 0.3:
                r = rng.random()
                body = ('b', rng.random() < 0.5) if r < 0.4 else C(rng.choice(['lt', 'gt', 'le']), Y(B), X(A))
                self.tag += 1
                self.fn(f + '@P', PP, 'bool', C('and', C('eq', disp(I(self.tag)), I(self.tag)), body))
                self.user.add(f)
                self.features.add('user:' + f)
            else:
                self.fn(f + '@D:P', PP, 'bool', C(test, C('cmp@P', A, B), I(0)))
        if rng.random() < 0.3:
            self.fn('ne@P', PP, 'bool', ('b', rng.random() < 0.5))
            self.user.add('ne')
            self.features.add('user:ne')
        else:
            self.fn('ne@D:P', PP, 'bool', C('not', C('eq@P', A, B)))
        # max / min as documented: through lt
        LT = self.name('lt')
        self.fn('max@D:P', PP, 'P', C('if', C(LT, A, B), B, A))
        # min: the book's first sentence ("a if lt_(a,b), otherwise b") contradicts its second ("a if they are equal");
        # include.rs:12 and the second sentence agree: b if lt(b, a), otherwise a
        self.fn('min@D:P', PP, 'P', C('if', C(LT, B, A), B, A))
        # the arithmetic / bitwise / logical operator functions: results tagged in y
        self.binops = []
        for f in BIN_P:
            if rng.random() < 0.6:
                self.tag += 1
                xs = rng.choice([C('add', X(A), X(B)), C('sub', X(A), X(B)), C('mul', X(A), X(B)), X(B),
                                 C('add', C('mul', X(A), I(2)), Y(B)), C('sub', X(B), X(A))])
                tag = I(self.tag)
                self.fn(f + '@P', PP, 'P', self.mk(xs, disp(tag) if (self.loud and rng.random() < 0.6) else tag))
                self.binops.append(f)
        self.unops = []
        for f in ('neg', 'pos'):
            if rng.random() < 0.7:
                self.tag += 1
                self.fn(f + '@P', [('a', 'P', None)], 'P', self.mk(C('neg', X(A)) if f == 'neg' else C('add', X(A), I(1)), I(self.tag)))
                self.unops.append(f)
        self.fn('not@P', [('a', 'P', None)], 'bool', C('eq', X(A), I(0)))
        self.fn('get@P', [('a', 'P', None), ('i', 'int', None)], 'int', C('add', C('mul', X(A), I(100)), V('i')))
        self.fn('to_str@P', [('a', 'P', None)], 'str', C('add', ('s', 'P'), C('to_str', Y(A))))
        self.fn('hash@P', [('a', 'P', None)], 'int', C('add', C('mul', X(A), I(3)), I(1)))
        if not self.loud:
            self.container_derivations()

    def name(self, f):
        """what the operator-named function `f` on (P, P) resolves to"""
        if f in ('lt', 'le', 'gt', 'ge', 'ne'):
            return f + '@P' if f in self.user else f + '@D:P'
        return f + '@P'

    def container_derivations(self):
        # (a, i) OP (b, j): lexicographic by the elements' cmp; [a1, a2] OP [b1, b2]; some(a) == some(b)
        T = [('a', 'P', None), ('i', 'int', None), ('b', 'P', None), ('j', 'int', None)]
        S = [('a', 'P', None), ('a2', 'P', None), ('b', 'P', None), ('b2', 'P', None)]
        c = V('c')
        for f in ('lt', 'le', 'gt', 'ge'):
            strict = 'lt' if f in ('lt', 'le') else 'gt'
            self.fn(f + '@D:tup', T, 'bool', C('if', C('ne', c, I(0)), C(strict, c, I(0)), C(f, V('i'), V('j'))),
                    [('let', 'c', C('cmp@P', A, B), 'int')])
            self.fn(f + '@D:seq', S, 'bool', C('if', C('ne', c, I(0)), C(strict, c, I(0)), C(f, C('cmp@P', V('a2'), V('b2')), I(0))),
                    [('let', 'c', C('cmp@P', A, B), 'int')])
        self.fn('eq@D:tup', T, 'bool', C('and', C('eq@P', A, B), C('eq', V('i'), V('j'))))
        self.fn('ne@D:tup', T, 'bool', C('not', C('and', C('eq@P', A, B), C('eq', V('i'), V('j')))))
        self.fn('eq@D:seq', S, 'bool', C('and', C('eq@P', A, B), C('eq@P', V('a2'), V('b2'))))
        self.fn('ne@D:seq', S, 'bool', C('not', C('and', C('eq@P', A, B), C('eq@P', V('a2'), V('b2')))))
        O = [('a', 'P', None), ('b', 'P', None)]
        self.fn('eq@D:opt', O, 'bool', C('eq@P', A, B))
        self.fn('ne@D:opt', O, 'bool', C('not', C('eq@P', A, B)))

    # ---- uses
    def p_expr(self, d, vp):
        rng = self.rng
        k = rng.random()
        if d <= 0 or k < 0.25:
            if vp and rng.random() < 0.65:
                return V(rng.choice(vp))
            return self.mk(I(rng.choice([0, 1, 2, 3, 5, 10, -4, 2 ** 40])), I(rng.choice([0, 1, 9])))
        if k < 0.6 and self.binops:
            f = rng.choice(self.binops)
            self.features.add('use:' + f)
            return C(f + '@P', self.p_expr(d - 1, vp), self.p_expr(d - 1, vp))
        if k < 0.72 and self.unops:
            f = rng.choice(self.unops)
            self.features.add('use:' + f)
            return C(f + '@P', self.p_expr(d - 1, vp))
        if k < 0.86:
            f = rng.choice(['max', 'min'])
            self.features.add('use:' + f)
            return C(f + '@D:P', self.p_expr(d - 1, vp), self.p_expr(d - 1, vp))
        return C('if', self.b_expr(d - 1, vp), self.p_expr(d - 1, vp), self.p_expr(d - 1, vp))

    def b_expr(self, d, vp):
        rng = self.rng
        k = rng.random()
        if k < 0.6 or self.loud:
            if k < 0.08:
                self.features.add('use:not')
                return C('not@P', self.p_expr(d - 1, vp))
            f = rng.choice(['lt', 'le', 'gt', 'ge', 'eq', 'ne'])
            self.features.add('use:' + f + (':user' if (f in self.user or f == 'eq') else ':derived'))
            return C(self.name(f), self.p_expr(d - 1, vp), self.p_expr(d - 1, vp))
        kind = rng.choice(['tup', 'seq', 'opt'])
        f = rng.choice(['eq', 'ne'] if kind == 'opt' else ['lt', 'le', 'gt', 'ge', 'eq', 'ne'])
        self.features.add('use:' + f + ':' + kind)
        p = lambda: self.p_expr(d - 1, vp)
        i = lambda: I(rng.choice([0, 1, 2]))
        if kind == 'tup':
            return C(f + '@D:tup', p(), i(), p(), i())
        if kind == 'seq':
            return C(f + '@D:seq', p(), p(), p(), p())
        return C(f + '@D:opt', p(), p())

    def i_expr(self, d, vp):
        rng = self.rng
        k = rng.random()
        p = self.p_expr(d - 1, vp)
        if k < 0.3:
            self.features.add('use:get')
            return C('get@P', p, I(rng.choice([0, 1, 7])))
        if k < 0.55:
            self.features.add('use:cmp')
            return C('cmp@P', p, self.p_expr(d - 1, vp))
        if k < 0.7:
            return C('hash@P', p)
        return rng.choice([X, Y])(p)

    def program(self):
        rng = self.rng
        ds = list(self.decls)
        vp = []
        extra = []          # (name, expected value as an AST literal, source text of the real expression)
        for n in range(rng.choice([4, 6, 8])):
            t = rng.choice(['p', 'p', 'b', 'b', 'b', 'i', 's'])
            name = f'{t}{n}'
            d = rng.choice([1, 2, 2, 3])
            if t == 'p':
                ds.append(('let', name, self.p_expr(d, vp), 'P'))
                vp.append(name)
            elif t == 'b':
                ds.append(('let', name, self.b_expr(d, vp), 'bool'))
            elif t == 'i':
                ds.append(('let', name, self.i_expr(d, vp), 'int'))
            else:
                ds.append(('let', name, C('to_str@P', self.p_expr(d - 1, vp)), 'str'))
        if not self.loud and self.cmp_factor is not None:
            # sort by the user's cmp = factor * (a.x - b.x): ascending / descending in x, stable (factor 0: unchanged)
            xs = [rng.choice([0, 1, 2, 3, 5, 8]) for _ in range(rng.choice([2, 3, 4, 5]))]
            items = [(x, i) for i, x in enumerate(xs)]
            k = self.cmp_factor
            want = sorted(items, key=lambda t: t[0] * (1 if k > 0 else (-1 if k < 0 else 0)))
            lit = '[' + ', '.join(f'P({x}, {i})' for (x, i) in items) + ']'
            for pos, (x, i) in enumerate(want):
                extra.append((f'srt{pos}', ('tup', [I(x), I(i)]), f'{lit}.sort()[{pos}]'))
            self.features.add('use:sort')
        return ds, extra


def struct_case(chk, rng, loud, Case, spell):
    sp = StructProgram(rng, loud)
    ds, extra = sp.program()
    src = spell(chk, ds, rng, StructPrinter)
    for (name, lit, text) in extra:
        ds = ds + [('let', name, lit, None)]
        src += f'let {name} = {text};\n'
    for f in sp.features:
        chk.count('struct:' + f)
    return Case(ds, 'struct-loud' if loud else 'struct-quiet', src=src)
