"""C17 — Mappings and sets are finite maps under any consistent hash.
Proofs: lean/Props/C17.lean over lean/XrayModel/HashMap.lean.
Tie: operation histories over mappings and sets with user-supplied hash / equality functions are run
(i) through the language on the real implementation (harness op "map": one xray program per history; every
version is dumped right after it was created and again after the whole history has run, together with the
internal bucket table read from the value's Debug rendering) and (ii) through the compiled Lean model
(`xmodel`, engine `map`).  An association list over the equivalence classes of the equality, written in plain
Python below (no hashing, no buckets), is the independent oracle for the verdict."""
import re
from .common import *

U = list(range(8))          # key universe
BIG = 2 ** 64


# ------------------------------------------------------------------------------------------------ configs
class Cfg:
    def __init__(self, k0, hk, m, badc=-1, badkind=0, eqerrc=-1):
        self.k0, self.hk, self.m, self.badc, self.badkind, self.eqerrc = k0, hk, m, badc, badkind, eqerrc

    def args(self):
        return f"{self.k0} {self.hk} {self.m} {self.badc} {self.badkind} {self.eqerrc}"

    def hash(self, k):
        """int, or 'err'"""
        if self.badc >= 0 and k % self.k0 == self.badc:
            return {1: -1, 2: BIG}.get(self.badkind, "err")
        return (k % self.hk) % self.m

    def cls(self, k):
        return k % self.k0

    def consistent(self):
        """the premise of the property, decided on the key universe: no errors, hashes in range, equal keys hash equally"""
        if self.badc >= 0 and any(k % self.k0 == self.badc for k in U):
            return False
        if self.eqerrc >= 0 and any(k % self.k0 == self.eqerrc for k in U):
            return False
        return all(self.hash(a) == self.hash(b) for a in U for b in U if self.cls(a) == self.cls(b))

    def kind(self):
        if self.consistent():
            nh = len({self.hash(k) for k in U})
            nc = len({self.cls(k) for k in U})
            if nh == 1 and nc > 1:
                return "consistent:constant-hash"
            if nh == nc:
                return "consistent:injective-on-classes"
            return "consistent:colliding"
        if self.badc >= 0:
            return "bad-hash:" + {1: "negative", 2: "2^64", 3: "error"}[self.badkind]
        if self.eqerrc >= 0:
            return "eq-error"
        return "inconsistent-hash"

    def prelude(self):
        k0, hk, m = self.k0, self.hk, self.m
        core = f"(k % {hk}) % {m}"
        if self.badc >= 0:
            bad = {1: "(-1)", 2: "2**64", 3: 'error("boom")'}[self.badkind]
            hbody = f"if(k % {k0} == {self.badc}, {bad}, {core})"
        else:
            hbody = core
        ebody = f"a % {k0} == b % {k0}"
        if self.eqerrc >= 0:
            ebody = f'if(a % {k0} == {self.eqerrc} || b % {k0} == {self.eqerrc}, error("eqboom"), {ebody})'
        return (f"let h = (k:int)->{{{hbody}}};\n"
                f"let e = (a:int,b:int)->{{{ebody}}};\n"
                'let oe = (k:int)->{if(k == 7, error("oe"), k*10+1)};\n'
                'let oc = (k:int, v:int)->{if(v % 10 == 3, error("oc"), (v+k+1) % 100)};\n'
                'let mf = (v:int)->{if(v == 13, error("mf"), (v*3+1) % 100)};\n'
                "fn mkm()->Mapping<int,int>{mapping(h, e)}\n"
                "fn mks()->Set<int>{set(h, e)}\n"
                # `clear` is typed Mapping<K,?>; give the result its value type back so that `hash` resolves
                "fn clrm(m: Mapping<int,int>)->Mapping<int,int>{m.clear()}\n")


def gen_cfg(rng):
    r = rng.random()
    if r < 0.72:
        k0 = rng.choice([1, 2, 3, 3, 4, 5, 8, 8])
        m = rng.choice([1, 1, 2, 2, 3, k0, 64])
        return Cfg(k0, k0, m)
    if r < 0.84:
        k0 = rng.choice([2, 3, 4, 8])
        return Cfg(k0, k0, rng.choice([1, 2, 64]), badc=rng.randrange(k0), badkind=rng.choice([1, 2, 3]))
    if r < 0.92:
        k0 = rng.choice([2, 3, 4, 8])
        return Cfg(k0, k0, rng.choice([1, 2, 64]), eqerrc=rng.randrange(k0))
    k0 = rng.choice([2, 3, 4])
    return Cfg(k0, rng.choice([5, 7, 8]), rng.choice([2, 3, 64]))


# ------------------------------------------------------------------------------------------------ oracle
class OErr(Exception):
    def __init__(self, kind):
        self.kind = kind


def on_empty(k):
    if k == 7:
        raise OErr("!user")
    return k * 10 + 1


def on_occ(k, v):
    if v % 10 == 3:
        raise OErr("!user")
    return (v + k + 1) % 100


def mv_fn(v):
    if v == 13:
        raise OErr("!user")
    return (v * 3 + 1) % 100


def al_find(al, c):
    for cc, v in al:
        if cc == c:
            return v
    return None


def al_put(al, c, v):
    out = [[cc, vv] for cc, vv in al]
    for e in out:
        if e[0] == c:
            e[1] = v
            return out
    out.append([c, v])
    return out


def al_del(al, c):
    return [[cc, vv] for cc, vv in al if cc != c]


def oracle_mapping_op(cfg, vers, op):
    """vers: list of association lists [[class, value]..] or OErr; returns ('v', new) | ('r', text)"""
    p = op.split(":")
    name = p[0]

    def src(i):
        s = vers[int(i)]
        if isinstance(s, OErr):
            raise s
        return s
    try:
        if name == "set":
            return "v", al_put(src(p[1]), cfg.cls(int(p[2])), int(p[3]))
        if name == "sd":
            a = src(p[1]); c = cfg.cls(int(p[2]))
            if al_find(a, c) is not None:
                return "v", a
            if p[3] == "E":
                raise OErr("!user")
            return "v", al_put(a, c, int(p[3]))
        if name == "pop":
            a = src(p[1]); c = cfg.cls(int(p[2]))
            if al_find(a, c) is None:
                raise OErr("!nf")
            return "v", al_del(a, c)
        if name == "dis":
            return "v", al_del(src(p[1]), cfg.cls(int(p[2])))
        if name == "upd":
            a = src(p[1])
            for kv in p[2].split(","):
                k, v = kv.split("=")
                a = al_put(a, cfg.cls(int(k)), int(v))
            return "v", a
        if name == "updm":
            a = src(p[1]); b = src(p[2])
            for c, v in b:
                a = al_put(a, c, v)
            return "v", a
        if name == "ufk":
            a = src(p[1])
            for k in map(int, p[2].split(",")):
                c = cfg.cls(k); cur = al_find(a, c)
                a = al_put(a, c, on_empty(k) if cur is None else on_occ(k, cur))
            return "v", a
        if name == "cnt":
            a = src(p[1])
            for k in map(int, p[2].split(",")):
                c = cfg.cls(k); cur = al_find(a, c)
                a = al_put(a, c, 1 if cur is None else cur + 1)
            return "v", a
        if name == "clr":
            src(p[1])
            return "v", []
        if name == "mv":
            return "v", [[c, mv_fn(v)] for c, v in src(p[1])]
        if name == "eq":
            a = src(p[1]); b = src(p[2])
            return "r", "t" if sorted(a) == sorted(b) else "f"
        if name == "g2":
            v = al_find(src(p[1]), cfg.cls(int(p[2])))
            if v is None:
                raise OErr("!nf")
            return "r", str(v)
        if name == "has":
            return "r", "t" if al_find(src(p[1]), cfg.cls(int(p[2]))) is not None else "f"
    except OErr as e:
        return ("r", e.kind) if name in ("eq", "g2", "has") else ("v", e)
    raise ValueError(op)


def oracle_set_op(cfg, vers, op):
    """vers: list of python sets of classes or OErr"""
    p = op.split(":")
    name = p[0]

    def src(i):
        s = vers[int(i)]
        if isinstance(s, OErr):
            raise s
        return s
    rels = {"eq": lambda a, b: a == b, "le": lambda a, b: a <= b, "lt": lambda a, b: a < b,
            "ge": lambda a, b: a >= b, "gt": lambda a, b: a > b, "disj": lambda a, b: not (a & b)}
    try:
        if name == "add":
            return "v", src(p[1]) | {cfg.cls(int(p[2]))}
        if name == "rem":
            a = src(p[1]); c = cfg.cls(int(p[2]))
            if c not in a:
                raise OErr("!nf")
            return "v", a - {c}
        if name == "dis":
            return "v", src(p[1]) - {cfg.cls(int(p[2]))}
        if name == "upd":
            return "v", src(p[1]) | {cfg.cls(int(k)) for k in p[2].split(",")}
        if name == "clr":
            src(p[1])
            return "v", set()
        if name in ("or", "and", "sub", "xor"):
            a = src(p[1]); b = src(p[2])
            return "v", {"or": a | b, "and": a & b, "sub": a - b, "xor": a ^ b}[name]
        if name in rels:
            a = src(p[1]); b = src(p[2])
            return "r", "t" if rels[name](a, b) else "f"
    except OErr as e:
        return ("r", e.kind) if name in rels else ("v", e)
    raise ValueError(op)


# ------------------------------------------------------------------------------------------------ generators
M_OPS = [("set", 30), ("sd", 10), ("pop", 12), ("dis", 10), ("upd", 8), ("updm", 5), ("ufk", 7), ("cnt", 5),
         ("clr", 2), ("mv", 3), ("eq", 4), ("g2", 4), ("has", 4)]
S_OPS = [("add", 28), ("rem", 12), ("dis", 10), ("upd", 8), ("clr", 2), ("or", 6), ("and", 6), ("sub", 6), ("xor", 5),
         ("eq", 4), ("le", 3), ("lt", 3), ("ge", 3), ("gt", 3), ("disj", 3)]


def weighted(rng, table):
    tot = sum(w for _, w in table)
    x = rng.randrange(tot)
    for n, w in table:
        if x < w:
            return n
        x -= w


def gen_history(rng, cfg, n, is_map):
    """returns (ops, oracle versions, oracle results, producer: version index -> op index)"""
    vers = [[] if is_map else set()]
    results = []
    ops = []
    producer = {0: None}
    orc = oracle_mapping_op if is_map else oracle_set_op

    def pick_src():
        good = [i for i, v in enumerate(vers) if not isinstance(v, OErr)]
        r = rng.random()
        if r < 0.7:
            return good[-1]
        if r < 0.95:
            return rng.choice(good)
        return rng.randrange(len(vers))

    def key_for(s, want_present=None):
        if want_present is None:
            want_present = rng.random() < 0.5
        v = vers[s]
        ks = U
        if not isinstance(v, OErr):
            present = {c for c, _ in v} if is_map else v
            cand = [k for k in U if (cfg.cls(k) in present) == want_present]
            if cand:
                ks = cand
        return rng.choice(ks)

    for _ in range(n):
        name = weighted(rng, M_OPS if is_map else S_OPS)
        s = pick_src()
        if is_map:
            if name == "set":
                op = f"set:{s}:{key_for(s)}:{rng.randrange(100)}"
            elif name == "sd":
                op = f"sd:{s}:{key_for(s)}:{'E' if rng.random() < 0.4 else rng.randrange(100)}"
            elif name in ("pop", "dis"):
                op = f"{name}:{s}:{key_for(s, rng.random() < 0.75)}"
            elif name == "upd":
                op = f"upd:{s}:" + ",".join(f"{rng.choice(U)}={rng.randrange(100)}" for _ in range(rng.randint(1, 5)))
            elif name in ("ufk", "cnt"):
                op = f"{name}:{s}:" + ",".join(str(rng.choice(U)) for _ in range(rng.randint(1, 6)))
            elif name in ("updm", "eq"):
                op = f"{name}:{s}:{pick_src()}"
            elif name in ("g2", "has"):
                op = f"{name}:{s}:{rng.choice(U)}"
            else:
                op = f"{name}:{s}"
        else:
            if name == "add":
                op = f"add:{s}:{key_for(s, rng.random() < 0.3)}"
            elif name in ("rem", "dis"):
                op = f"{name}:{s}:{key_for(s, rng.random() < 0.75)}"
            elif name == "upd":
                op = f"upd:{s}:" + ",".join(str(rng.choice(U)) for _ in range(rng.randint(1, 5)))
            elif name == "clr":
                op = f"clr:{s}"
            else:
                op = f"{name}:{s}:{pick_src()}"
        kind, val = orc(cfg, vers, op)
        if kind == "v":
            producer[len(vers)] = len(ops)
            vers.append(val)
        else:
            results.append(val)
        ops.append(op)
    return ops, vers, results, producer


# ------------------------------------------------------------------------------------------------ xray program
def m_expr(op):
    p = op.split(":")
    n = p[0]
    if n == "set":
        return f"v{p[1]}.set({p[2]}, {p[3]})"
    if n == "sd":
        return f"v{p[1]}.set_default({p[2]}, " + ('error("verr")' if p[3] == "E" else p[3]) + ")"
    if n == "pop":
        return f"v{p[1]}.pop({p[2]})"
    if n == "dis":
        return f"v{p[1]}.discard({p[2]})"
    if n == "upd":
        return f"v{p[1]}.update([" + ", ".join("(" + kv.replace("=", ", ") + ")" for kv in p[2].split(",")) + "])"
    if n == "updm":
        return f"v{p[1]}.update(v{p[2]})"
    if n == "ufk":
        return f"v{p[1]}.update_from_keys([{', '.join(p[2].split(','))}], oe, oc)"
    if n == "cnt":
        return f"v{p[1]}.update_counter([{', '.join(p[2].split(','))}].to_generator())"
    if n == "clr":
        return f"clrm(v{p[1]})"
    if n == "mv":
        return f"v{p[1]}.map_values(mf)"
    if n == "eq":
        return f"(v{p[1]} == v{p[2]})"
    if n == "g2":
        return f"v{p[1]}.get({p[2]})"
    if n == "has":
        return f"v{p[1]}.contains({p[2]})"
    raise ValueError(op)


S_BIN = {"or": "|", "and": "&", "sub": "-", "xor": "^", "eq": "==", "le": "<=", "lt": "<", "ge": ">=", "gt": ">"}


def s_expr(op):
    p = op.split(":")
    n = p[0]
    if n == "add":
        return f"v{p[1]}.add({p[2]})"
    if n == "rem":
        return f"v{p[1]}.remove({p[2]})"
    if n == "dis":
        return f"v{p[1]}.discard({p[2]})"
    if n == "upd":
        return f"v{p[1]}.update([{', '.join(p[2].split(','))}])"
    if n == "clr":
        return f"v{p[1]}.clear()"
    if n == "disj":
        return f"v{p[1]}.is_disjoint(v{p[2]})"
    return f"(v{p[1]} {S_BIN[n]} v{p[2]})"


M_QUERY = ("eq", "g2", "has")
S_QUERY = ("eq", "le", "lt", "ge", "gt", "disj")


def build_program(cfg, ops, is_map):
    """-> (src, names to dump, names to take the layout of)"""
    lines = [cfg.prelude(), f"let v0 = {'mkm' if is_map else 'mks'}();\n"]
    get, nv, nr = [], 1, 0

    def immediate(i):
        lines.append(f"let i{i}e = v{i}.to_generator().to_array();\nlet i{i}l = v{i}.len();\n")
        get.extend([f"i{i}e", f"i{i}l"])
    immediate(0)
    for op in ops:
        q = op.split(":")[0] in (M_QUERY if is_map else S_QUERY)
        ex = m_expr(op) if is_map else s_expr(op)
        if q:
            lines.append(f"let q{nr} = {ex};\n")
            get.append(f"q{nr}")
            nr += 1
        else:
            lines.append(f"let v{nv} = {ex};\n")
            immediate(nv)
            nv += 1
    # every version again, after the whole history has run
    for i in range(nv):
        lines.append(f"let f{i}e = v{i}.to_generator().to_array();\nlet f{i}l = v{i}.len();\nlet f{i}h = hash(v{i});\n")
        get.extend([f"f{i}e", f"f{i}l", f"f{i}h"])
        for u in U:
            if is_map:
                lines.append(f"let f{i}k{u} = v{i}.lookup({u});\nlet f{i}g{u} = v{i}.get({u}, -1);\n")
                get.extend([f"f{i}k{u}", f"f{i}g{u}"])
            else:
                lines.append(f"let f{i}c{u} = v{i}.contains({u});\n")
                get.append(f"f{i}c{u}")
    return "".join(lines), get, [f"v{i}" for i in range(nv)], nv, nr


# ------------------------------------------------------------------------------------------------ reading dumps
TOK = re.compile(r'\(|\)|"(?:[^"\\]|\\.)*"|[^\s()]+')


def parse_dump(s):
    """canonical dump text -> python: int | bool | None ('none') | ('some', x) | list | tuple (struct) | ('!', kind)"""
    if not s.startswith("("):
        return ("!", "!" + s.split(" ")[0])       # panic / viol / compile-err …
    toks = TOK.findall(s)
    pos = 0

    def rd():
        nonlocal pos
        assert toks[pos] == "("
        head = toks[pos + 1]
        pos += 2
        items = []
        while toks[pos] != ")":
            if toks[pos] == "(":
                items.append(rd())
            else:
                items.append(toks[pos])
                pos += 1
        pos += 1
        if head == "int":
            return int(items[1])
        if head == "bool":
            return items[0] == "true"
        if head == "none":
            return None
        if head == "some":
            return ("some", items[0])
        if head == "seq":
            return list(items)
        if head == "struct":
            return tuple(items)
        if head == "error":
            return ("!", err_kind(items[0].strip('"')))
        return ("?", head)
    return rd()


def err_kind(msg):
    if msg in ("hash is out of bounds", "hash out of bounds"):
        return "!oob"
    if msg in ("key not found", "item not found"):
        return "!nf"
    return "!user"


def cell(v):
    """query result -> the model's cell text"""
    if isinstance(v, tuple) and v and v[0] == "!":
        return v[1]
    if v is None:
        return "n"
    if isinstance(v, tuple) and v[0] == "some":
        return cell(v[1])
    if v is True:
        return "t"
    if v is False:
        return "f"
    return str(v)


LAY_BUCKET = re.compile(r"(\d+): \[(.*?)\](?=, \d+: \[|\}, len)")
LAY_INT = re.compile(r"Int\((-?\d+)\)")


def parse_layout(s, is_map):
    """Debug rendering of XMapping / XSet -> (sorted [(hash, [entry..])], len) or None"""
    m = re.search(r"inner: \{(.*)\}, len: (\d+), hash_func", s)
    if not m:
        return None
    body = m.group(1) + "}, len"
    buckets = []
    for b in LAY_BUCKET.finditer(body):
        ints = [int(x) for x in LAY_INT.findall(b.group(2))]
        ents = [f"{ints[j]}:{ints[j + 1]}" for j in range(0, len(ints), 2)] if is_map else [str(x) for x in ints]
        buckets.append((int(b.group(1)), ents))
    return sorted(buckets), int(m.group(2))


def canon_model_version(txt, is_map):
    """model's version dump -> dict"""
    txt = txt.strip()
    if not txt.startswith("ok"):
        return {"err": txt}
    f = dict(x.split("=", 1) for x in txt.split(" ")[1:])
    buckets = []
    if f["B"]:
        for b in f["B"].split(";"):
            h, rest = b.split("[", 1)
            rest = rest[:-1]
            buckets.append((int(h), rest.split("+") if rest else []))
    d = {"E": sorted(x for x in f["E"].split(",") if x), "L": int(f["L"]), "H": f["H"], "B": sorted(buckets)}
    if is_map:
        d["K"] = f["K"].split(",")
        d["G"] = f["G"].split(",")
    else:
        d["C"] = f["C"].split(",")
    return d


def entries_text(v, is_map):
    if is_map:
        return sorted(f"{k}:{x}" for k, x in v)
    return sorted(str(k) for k in v)


def canon_impl_version(vals, lay, i, is_map, pre="f"):
    e = parse_dump(vals[f"{pre}{i}e"])
    if isinstance(e, tuple) and e[0] == "!":
        return {"err": e[1]}
    d = {"E": entries_text(e, is_map), "L": parse_dump(vals[f"{pre}{i}l"])}
    if pre == "f":
        d["H"] = cell(parse_dump(vals[f"f{i}h"]))
        if is_map:
            d["K"] = [cell(parse_dump(vals[f"f{i}k{u}"])) for u in U]
            d["G"] = [cell(parse_dump(vals[f"f{i}g{u}"])) for u in U]
        else:
            d["C"] = [cell(parse_dump(vals[f"f{i}c{u}"])) for u in U]
        pl = parse_layout(lay.get(f"v{i}", ""), is_map)
        if pl is not None:
            d["B"] = pl[0]
            d["Lfield"] = pl[1]
    return d


def oracle_version_view(cfg, v, is_map):
    """what the association list demands of a version: class-level entries, len, per-key answers"""
    if isinstance(v, OErr):
        return {"err": v.kind}
    if is_map:
        d = {"E": sorted((c, x) for c, x in v), "L": len(v)}
        d["K"] = [cell(al_find(v, cfg.cls(u))) for u in U]
        d["G"] = [str(al_find(v, cfg.cls(u))) if al_find(v, cfg.cls(u)) is not None else "-1" for u in U]
    else:
        d = {"E": sorted(v), "L": len(v), "C": ["t" if cfg.cls(u) in v else "f" for u in U]}
    return d


def impl_class_view(cfg, d, is_map):
    if "err" in d:
        return d
    out = {k: d[k] for k in ("L", "K", "G", "C") if k in d}
    if is_map:
        out["E"] = sorted((cfg.cls(int(x.split(":")[0])), int(x.split(":")[1])) for x in d["E"])
    else:
        out["E"] = sorted(cfg.cls(int(x)) for x in d["E"])
    return out


# ------------------------------------------------------------------------------------------------ the check
def op_of_version(ops, producer, i):
    j = producer.get(i)
    return "new" if j is None else ops[j].split(":")[0]


def check_history(chk, cfg, is_map, ops, o_vers, o_results, producer, resp, model_line, model_out):
    what = "mapping" if is_map else "set"
    replay = {"kind": what, "cfg": cfg.args(), "ops": ops, "model_line": model_line}
    consistent = cfg.consistent()
    chk.evaluations += 1
    fail = None
    if "panic" in resp or "abort" in resp or "hang" in resp:
        fail = "panic " + str(resp.get("panic", resp))
    elif resp.get("compile") != "ok":
        fail = "compile " + json.dumps(resp.get("compile"))[:300]
    elif resp.get("inst") != "ok":
        fail = "violation " + json.dumps(resp.get("inst"))
    if fail:
        key = f"map:{what}:{'panic' if fail.startswith('panic') else 'not-run'}"
        chk.violation(key, f"{what} history under hash/eq config [{cfg.args()}] did not run to completion: {fail}", replay)
        return
    vals, lay = resp["vals"], resp.get("layout", {})
    nv = len(o_vers)
    mparts = model_out.split(" || ")
    mvers = [canon_model_version(x, is_map) for x in mparts[0].split(" | ")]
    mres = mparts[1].split(" ") if len(mparts) > 1 and mparts[1] else []
    if len(mvers) != nv:
        chk.violation(f"tie:map:{what}:shape", f"model produced {len(mvers)} versions for {nv}", replay, no_input=True)
        return
    # --- versions
    for i in range(nv):
        opn = op_of_version(ops, producer, i)
        imp = canon_impl_version(vals, lay, i, is_map)
        imm = canon_impl_version(vals, lay, i, is_map, pre="i")
        chk.count(f"{what}:op:{opn}")
        if "err" in imp:
            chk.count(f"{what}:outcome:{imp['err']}")
        # persistence: the dump taken right after creation equals the dump after the whole history
        if imm.get("err") != imp.get("err") or ("err" not in imp and (imm["E"] != imp["E"] or imm["L"] != imp["L"])):
            chk.violation(f"map:{what}:persistent", f"version {i} (made by {opn}) changed after later operations: then {imm}, at the end {imp}", replay)
            return
        if "err" not in imp and imp.get("Lfield") is not None and (imp["Lfield"] != imp["L"]):
            chk.violation(f"map:{what}:len-field", f"len() = {imp['L']} but the len field reads {imp['Lfield']}", replay)
            return
        if consistent:
            want = oracle_version_view(cfg, o_vers[i], is_map)
            got = impl_class_view(cfg, imp, is_map)
            if want != got:
                kind = "panic" if got.get("err") == "!panic" else ("error" if "err" in got else "wrong")
                chk.violation(f"map:{what}:{opn}:{kind}",
                              f"{what} version {i} made by `{ops[producer[i]] if producer.get(i) is not None else 'new'}` under hash/eq config [{cfg.args()}]: "
                              f"implementation {got}, association list over the classes {want}", replay)
                return
            if "err" not in imp and len(imp["E"]) != imp["L"]:
                chk.violation(f"map:{what}:{opn}:len", f"len {imp['L']} but {len(imp['E'])} stored entries", replay)
                return
        else:
            if imp.get("err") == "!panic":
                chk.violation(f"map:{what}:{opn}:panic", f"panic under config [{cfg.args()}]", replay)
                return
        # tie: the model agrees exactly (stored representatives, bucket table, hash)
        mv = mvers[i]
        same = (mv.get("err") == imp.get("err")) if ("err" in mv or "err" in imp) else all(
            mv[k] == imp[k] for k in (("E", "L", "H", "K", "G") if is_map else ("E", "L", "H", "C")))
        if same and "err" not in imp and "B" in imp:
            same = sorted(mv["B"]) == [(h, es) for h, es in imp["B"]]
            if not same:
                chk.count("tie:layout-differs")
        if not same:
            chk.violation(f"tie:map:{what}:{opn}", f"model and implementation disagree on {what} version {i} (made by {opn}) under [{cfg.args()}]: model {mv}, implementation {imp}",
                          replay, no_input=True)
            return
    # --- hash congruence among versions with the same abstract content (equal collections hash equally)
    if consistent:
        seen = {}
        for i in range(nv):
            if isinstance(o_vers[i], OErr):
                continue
            k = json.dumps(sorted(o_vers[i]) if not is_map else sorted(o_vers[i]))
            hv = cell(parse_dump(vals[f"f{i}h"]))
            if k in seen and seen[k][1] != hv:
                chk.violation(f"map:{what}:hash-congr", f"versions {seen[k][0]} and {i} hold the same {what} but hash to {seen[k][1]} and {hv}", replay)
                return
            seen.setdefault(k, (i, hv))
    # --- query ops
    qi = 0
    for op in ops:
        n = op.split(":")[0]
        if n not in (M_QUERY if is_map else S_QUERY):
            continue
        got = cell(parse_dump(vals[f"q{qi}"]))
        chk.count(f"{what}:op:{n}")
        if consistent and got != o_results[qi]:
            kind = "panic" if got == "!panic" else ("error" if got.startswith("!") else "wrong")
            chk.violation(f"map:{what}:{n}:{kind}", f"`{op}` under [{cfg.args()}] answered {got}; the association list answers {o_results[qi]}", replay)
            return
        if got == "!panic":
            chk.violation(f"map:{what}:{n}:panic", f"`{op}` panicked under [{cfg.args()}]", replay)
            return
        if (not consistent and n in ("eq", "le", "lt", "ge", "gt", "disj") and qi < len(mres)
                and {mres[qi], got} in ({"f", "!user"}, {"f", "!oob"})):
            # `all(..)` (and mapping `==`) stops at the first false element and yields the first error it meets before that; with an
            # erroring hash/eq the answer depends on HashMap's (random) iteration order, which the model fixes
            chk.count("tie:order-dependent-all-under-erroring-functions")
            qi += 1
            continue
        if qi >= len(mres) or mres[qi] != got:
            chk.violation(f"tie:map:{what}:{n}", f"model and implementation disagree on `{op}` under [{cfg.args()}]: model {mres[qi] if qi < len(mres) else '?'} implementation {got}",
                          replay, no_input=True)
            return
        qi += 1
    chk.nontrivial.add((what, cfg.args(), tuple(ops)))


# ------------------------------------------------------------------------------------------------ hash-keyed consumers
# `with_count(h, e)` is the one reader of the reference `try_put_located` returns; `distinct(h, e)` is built on it.
HASH_KEYED_EXPECTED = {"with_count", "distinct", "mapping", "set", "__std_json_deserialize"}
STREAM_BUILDERS_EXPECTED = {"update", "update_counter", "update_from_keys"}
HK_SIG = re.compile(r"\((\w+)\)->\(int\), \(\1, \1\)->\(bool\)")
SB_SIG = re.compile(r"(Generator|Sequence)<.*\)->(Mapping|Set)<")


def enumerate_hash_keyed(chk):
    """every library function that takes a hash `(T)->(int)` with an eq `(T,T)->(bool)`, or builds a Mapping/Set from
    a stream, read from the compiler's own signature table; a function this check does not know is reported"""
    import glob
    names = set(re.findall(r"^\s*fn (\w+)", open(os.path.join(REPO, "src/builtin/include.rs")).read(), re.M))
    for f in glob.glob(os.path.join(REPO, "book/src/std/*.md")):
        names |= set(re.findall(r"fn `(\w+)", open(f).read()))
    for f in glob.glob(os.path.join(REPO, "src/builtin/*.rs")):
        names |= set(re.findall(r'add_(?:dyn_)?func\(\s*"(\w+)"', open(f).read()))
    r = run_harness([{"op": "typing", "f": "sigs", "names": sorted(names)}])[0]
    sigs = r.get("sigs")
    if not isinstance(sigs, dict):
        chk.violation("tie:map:consumers:signature-table", f"the signature table could not be read: {str(r)[:300]}", {"resp": r}, no_input=True)
        return
    hk = {n for n, ss in sigs.items() if any(HK_SIG.search(x) for x in ss)}
    sb = {n for n, ss in sigs.items() if any(SB_SIG.search(x) for x in ss)}
    chk.coverage["hash_keyed_functions"] = sorted(hk)
    chk.coverage["stream_to_collection_functions"] = sorted(sb)
    if hk - HASH_KEYED_EXPECTED or sb - STREAM_BUILDERS_EXPECTED:
        new = sorted((hk - HASH_KEYED_EXPECTED) | (sb - STREAM_BUILDERS_EXPECTED))
        chk.violation("tie:map:consumers:uncovered", f"library functions keyed by a user hash/eq (or building a collection from a stream) that this check does not exercise: {new}",
                      {"functions": new, "sigs": {n: sigs[n] for n in new}}, no_input=True)


def gen_stream(rng, cfg, max_len):
    """streams in which colliding-but-unequal elements recur in every order"""
    by_hash = {}
    for k in U:
        hv = cfg.hash(k)
        by_hash.setdefault(hv, {}).setdefault(cfg.cls(k), []).append(k)
    # prefer a hash value shared by several classes
    shared = [list(d.values()) for d in by_hash.values() if len(d) >= 2]
    if shared and rng.random() < 0.8:
        classes = rng.choice(shared)
        rng.shuffle(classes)
        pool = [rng.choice(c) for c in classes[:rng.randint(2, min(4, len(classes)))]]
        if rng.random() < 0.4:
            pool += [rng.choice(U)]
    else:
        pool = rng.sample(U, rng.randint(1, 4))
    r = rng.random()
    if r < 0.35 and len(pool) >= 2:
        a, b = pool[0], pool[1]
        c = pool[2] if len(pool) > 2 else pool[0]
        base = rng.choice([[a, b, a], [a, b, b, a], [a, b, c, a, b], [a, b, a, b, a], [b, a, a, b], [a, b, c, c, b, a], [a, a, b, a]])
        extra = [rng.choice(pool) for _ in range(rng.randint(0, max(0, max_len - len(base))))] if rng.random() < 0.5 else []
        return base + extra
    return [rng.choice(pool) for _ in range(rng.randint(1, max_len))]


def oracle_consumer(cfg, kind, ks):
    """association-list semantics: running count of the element's class / first occurrence of each class"""
    counts = {}
    out = []
    for k in ks:
        c = cfg.cls(k)
        counts[c] = counts.get(c, 0) + 1
        if kind == "wc":
            out.append(f"{k}:{counts[c]}")
        elif counts[c] == 1:
            out.append(str(k))
    return ",".join(out)


def consumer_program(cfg, kind, ks, default_funcs, j=""):
    """the program text of one case; `j` suffixes every name so that several cases share one program"""
    fn = "with_count" if kind == "wc" else "distinct"
    lits = ", ".join(str(k) if k < 2 ** 63 else f"({k % 2**64} + {k >> 64} * 2**64)" for k in ks)
    pre = ""
    if not default_funcs:
        pre = re.sub(r"\b(h|e)\b", lambda m: m.group(1) + str(j), "".join(cfg.prelude().splitlines(True)[:2]))
    args = "" if default_funcs else f"h{j}, e{j}"
    return (pre + f"let g{j} = [{lits}].to_generator().{fn}({args});\n"
            f"let r1{j} = g{j}.to_array();\nlet r2{j} = g{j}.to_array();\nlet rl{j} = g{j}.len();\n")


def consumer_cell(v, kind):
    if isinstance(v, tuple) and v and v[0] == "!":
        return v[1]
    if not isinstance(v, list):
        return "?" + str(v)
    if kind == "wc":
        return ",".join(f"{x[0]}:{x[1]}" for x in v)
    return ",".join(str(x) for x in v)


def run_consumers(chk, n_cases, max_len):
    rng = chk.rng
    cases = []
    # corpus: the witnesses of the seeded change C16/seed6 (`try_put_located` returning `bucket.last()` for a found key)
    fixed = [(Cfg(8, 8, 3), "wc", [1, 4, 1], False), (Cfg(8, 8, 3), "ds", [1, 4, 1, 7, 4, 1], False),
             (Cfg(8, 8, 1), "wc", [0, 1, 2, 0, 1, 2, 2, 0], False),
             (Cfg(2 ** 70, 2 ** 64, 2 ** 64), "ds", [5, 5 + 2 ** 64, 5, 5 + 2 ** 64], True),
             (Cfg(2 ** 70, 2 ** 64, 2 ** 64), "wc", [5, 5 + 2 ** 64, 5 + 2 ** 65, 5, 5 + 2 ** 64, 5], True)]
    cases += fixed
    for _ in range(n_cases):
        if rng.random() < 0.08:
            pool = [5 + j * 2 ** 64 for j in range(3)] + [6, 7 + 2 ** 64]
            ks = [rng.choice(pool) for _ in range(rng.randint(1, max_len))]
            cases.append((Cfg(2 ** 70, 2 ** 64, 2 ** 64), rng.choice(["wc", "ds"]), ks, True))
        else:
            cfg = gen_cfg(rng)
            cases.append((cfg, rng.choice(["wc", "wc", "ds"]), gen_stream(rng, cfg, max_len), False))
    mlines = [f"map crun {cfg.args()} {kind} " + ",".join(map(str, ks)) for cfg, kind, ks, d in cases]
    # several cases per program (compiling the standard library dominates the cost of a request); a program that
    # does not run to completion is re-run one case at a time
    B = 8
    groups = [list(range(i, min(i + B, len(cases)))) for i in range(0, len(cases), B)]

    def req_of(idx):
        return {"op": "map", "src": "".join(consumer_program(*cases[i], j=f"_{i}") for i in idx),
                "get": [f"{n}_{i}" for i in idx for n in ("r1", "r2", "rl")]}

    def ran(r):
        return not ("panic" in r or "abort" in r or "hang" in r) and r.get("compile") == "ok" and r.get("inst") == "ok"
    gres = run_harness([req_of(g) for g in groups], per_req_timeout=30.0)
    resps = [None] * len(cases)
    singles = []
    for g, r in zip(groups, gres):
        if ran(r):
            for i in g:
                resps[i] = {"compile": "ok", "inst": "ok", "vals": {n: r["vals"][f"{n}_{i}"] for n in ("r1", "r2", "rl")}}
        else:
            singles += g
    for i, r in zip(singles, run_harness([req_of([i]) for i in singles], per_req_timeout=30.0)):
        if ran(r):
            r = {"compile": "ok", "inst": "ok", "vals": {n: r["vals"][f"{n}_{i}"] for n in ("r1", "r2", "rl")}}
        resps[i] = r
    mouts = run_model(mlines)
    for (cfg, kind, ks, dflt), resp, ml, mo in zip(cases, resps, mlines, mouts):
        chk.evaluations += 1
        fn = "with_count" if kind == "wc" else "distinct"
        colliding = len({cfg.hash(k) if dflt is False else k % 2 ** 64 for k in ks}) < len({cfg.cls(k) for k in ks})
        chk.count(f"consumer:{fn}:{'default-funcs' if dflt else cfg.kind()}" + (":colliding-stream" if colliding else ""))
        replay = {"kind": "consumer", "fn": fn, "cfg": cfg.args(), "stream": [str(k) for k in ks], "default_funcs": dflt, "model_line": ml,
                  "src": consumer_program(cfg, kind, ks, dflt)}
        if "panic" in resp or "abort" in resp or "hang" in resp or resp.get("compile") != "ok" or resp.get("inst") != "ok":
            chk.violation(f"map:{fn}:{'panic' if 'panic' in resp else 'not-run'}", f"{fn} over {ks} under [{cfg.args()}] did not run: {str(resp)[:300]}", replay)
            continue
        got = consumer_cell(parse_dump(resp["vals"]["r1"]), kind)
        again = consumer_cell(parse_dump(resp["vals"]["r2"]), kind)
        if got != again:
            chk.violation(f"map:{fn}:reconsumed", f"{fn} over {ks} under [{cfg.args()}] gave {got} and then {again} when consumed again", replay)
            continue
        if dflt or cfg.consistent():
            want = oracle_consumer(cfg, kind, ks)
            if got != want:
                chk.violation(f"map:{fn}:wrong", f"{fn}({'' if dflt else 'h, e'}) over {ks} under hash/eq config [{cfg.args()}] gives [{got}]; "
                              f"over the classes of the equality it must give [{want}]", replay)
                continue
            n = cell(parse_dump(resp["vals"]["rl"]))
            if n != str(len(want.split(",")) if want else 0):
                chk.violation(f"map:{fn}:len", f"len() of {fn} over {ks} is {n}, the stream has {len(want.split(','))} elements", replay)
                continue
        if mo != got:
            chk.violation(f"tie:map:{fn}", f"model and implementation disagree on {fn} over {ks} under [{cfg.args()}]: model [{mo}] implementation [{got}]",
                          replay, no_input=True)
            continue
        chk.nontrivial.add(("consumer", fn, cfg.args(), tuple(ks)))


CORPUS = [
    # (is_map, cfg args, ops): past failures / witnesses, always run first
    # equal collections must hash equally after a removal (fixed by 2e95929: the emptied bucket is dropped)
    (False, (8, 8, 64), ["add:0:1", "add:1:2", "rem:2:2", "eq:1:3"]),
    (True, (8, 8, 64), ["set:0:1:10", "set:1:2:20", "pop:2:2", "dis:2:2", "eq:1:3", "eq:1:4"]),
    # constant hash: everything collides
    (True, (8, 8, 1), ["set:0:1:1", "set:1:2:2", "set:2:3:3", "pop:3:2", "set:4:3:9", "sd:5:2:E", "sd:5:3:E", "g2:5:2"]),
    # equality coarser than identity: the second key of a class overwrites the first
    (True, (3, 3, 2), ["set:0:1:1", "set:1:4:2", "set:2:7:3", "pop:3:1", "has:4:4"]),
    (False, (3, 3, 1), ["upd:0:0,1,2,3,4,5", "rem:1:4", "and:1:2", "xor:1:2", "sub:1:2", "lt:2:1", "le:2:1", "disj:4:2"]),
]


def run(chk):
    rng = chk.rng
    quick = chk.tier == "quick"
    chk.trusted += [
        "std::collections::HashMap<u64, Vec<..>> is modelled as an association list with unique keys; its iteration order is not modelled (dumps are sorted)",
        "theorem hypothesis `Consistent hash eq`: eq is a total equivalence relation, equal keys hash equally, hashes lie in [0, 2^64)",
        "the Python association list over equivalence classes (checklib/c17.py) as the independent oracle for the verdict",
        "runtime limits (can_allocate pre-flights, violations) are outside the model; the tie runs without limits",
    ]
    ok = chk.prove()
    if not ok:
        handle_broken(chk)

    n_hist = 1200 if quick else 30000
    max_len = 15 if quick else 40
    cases = []
    for is_map, (k0, hk, m), ops in CORPUS:
        cfg = Cfg(k0, hk, m)
        vers = [[] if is_map else set()]
        results, producer = [], {0: None}
        for j, op in enumerate(ops):
            kind, val = (oracle_mapping_op if is_map else oracle_set_op)(cfg, vers, op)
            if kind == "v":
                producer[len(vers)] = j
                vers.append(val)
            else:
                results.append(val)
        cases.append((cfg, is_map, ops, vers, results, producer))
    for _ in range(n_hist):
        cfg = gen_cfg(rng)
        is_map = rng.random() < 0.55
        n = rng.randint(1, max_len)
        ops, vers, results, producer = gen_history(rng, cfg, n, is_map)
        cases.append((cfg, is_map, ops, vers, results, producer))

    reqs, mlines = [], []
    for cfg, is_map, ops, vers, results, producer in cases:
        src, get, layout, nv, nr = build_program(cfg, ops, is_map)
        reqs.append({"op": "map", "src": src, "get": get, "layout": layout})
        mlines.append(f"map {'mrun' if is_map else 'srun'} {cfg.args()} " + " ".join(ops))
        chk.count("config:" + cfg.kind())
        chk.count("history-length:" + ("1-5" if len(ops) <= 5 else "6-15" if len(ops) <= 15 else "16-40"))
    resps = run_harness(reqs, per_req_timeout=30.0)
    mouts = run_model(mlines)
    for (cfg, is_map, ops, vers, results, producer), resp, ml, mo in zip(cases, resps, mlines, mouts):
        check_history(chk, cfg, is_map, ops, vers, results, producer, resp, ml, mo)
    enumerate_hash_keyed(chk)
    run_consumers(chk, 700 if quick else 15000, 12 if quick else 30)
    chk.sample({"model_line": mlines[0], "model_out": mouts[0][:400]})
    chk.sample({"model_line": mlines[len(CORPUS)], "program": reqs[len(CORPUS)]["src"][:1500]})

    return chk.finish(rule="operation histories (length 1-15 quick / 1-40 thorough) over keys 0..7 on mappings and sets built with user hash "
                           "(k % hk) % m and equality a % k0 == b % k0 (injective … constant hash, identity … coarse equality, plus configurations "
                           "with out-of-range / erroring hash, erroring eq and hash inconsistent with eq, which are compared model-vs-implementation only); "
                           "every version dumped after creation and again at the end; plus streams (length 1-12 / 1-30) with colliding-but-unequal elements recurring in every order through the hash-keyed consumers with_count / distinct (user and default hash/eq); non-trivial = distinct (kind, config, history) that passed all comparisons")


def replay(path):
    """re-run one stored history and print what the implementation, the model and the oracle say"""
    d = json.load(open(path))
    r = d["replay"]
    if "ops" not in r:
        print(json.dumps(d, indent=1))
        return 1
    k0, hk, m, badc, badkind, eqerrc = map(int, r["cfg"].split())
    cfg = Cfg(k0, hk, m, badc, badkind, eqerrc)
    is_map = r["kind"] == "mapping"
    src, get, layout, nv, nr = build_program(cfg, r["ops"], is_map)
    resp = run_harness([{"op": "map", "src": src, "get": get, "layout": layout}])[0]
    line = f"map {'mrun' if is_map else 'srun'} {cfg.args()} " + " ".join(r["ops"])
    mo = run_model([line])[0]
    print(src)
    print("implementation:", json.dumps(resp.get("vals", resp), indent=1)[:6000])
    print("model:", mo)
    return 1
