"""Shared machinery of the /verif checks: builds, harness/model runners, audit, evidence, verdicts."""
import json, os, random, re, subprocess, sys, time, hashlib, shutil
from concurrent.futures import ThreadPoolExecutor

VERIF = os.path.dirname(os.path.dirname(os.path.abspath(__file__)))
REPO = os.environ.get("XRAY_REPO", "/repo")
LEAN = os.path.join(VERIF, "lean")
HARNESS_DIR = os.path.join(VERIF, "harness")
BUILD = os.path.join(VERIF, ".build")
HARNESS_BIN = os.path.join(BUILD, "target", "debug", "xharness")
XMODEL_BIN = os.path.join(LEAN, ".lake", "build", "bin", "xmodel")
ALLOWED_AXIOMS = {"propext", "Classical.choice", "Quot.sound"}
JOBS = int(os.environ.get("VERIF_JOBS", "16"))

TRUSTED_BASE_COMMON = [
    "Lean 4.33.0 kernel; axioms of every property theorem audited on each run against {propext, Classical.choice, Quot.sound}",
    "lake / Lean compiler and runtime for the xmodel executable (the executed definitions are the ones the theorems are about)",
    "the correspondence harness (/verif/harness, linked against /repo's working tree with --cfg xray_verif) and the canonicaliser in /verif/checklib",
    "num-bigint BigInt is modelled as mathematical Int; Rust std/libm/serde_json/regex/rand are not modelled",
]


class BuildError(Exception):
    pass


def sh(cmd, cwd=None, timeout=None, env=None, check=False):
    e = dict(os.environ)
    e["CARGO_NET_OFFLINE"] = "true"
    if env:
        e.update(env)
    p = subprocess.run(cmd, cwd=cwd, shell=isinstance(cmd, str), stdout=subprocess.PIPE,
                       stderr=subprocess.STDOUT, timeout=timeout, env=e, text=True, errors="replace")
    if check and p.returncode != 0:
        raise BuildError(f"command failed ({p.returncode}): {cmd}\n{p.stdout[-4000:]}")
    return p.returncode, p.stdout


def build_harness():
    """Rebuild the harness against /repo's current working tree (incremental)."""
    os.makedirs(BUILD, exist_ok=True)
    lock = os.path.join(BUILD, "cargo.lock")
    import fcntl
    with open(lock, "w") as lf:
        fcntl.flock(lf, fcntl.LOCK_EX)
        rc, out = sh(["cargo", "build", "--offline"], cwd=HARNESS_DIR, timeout=3600)
    if rc != 0:
        raise BuildError("cargo build of the harness against /repo failed:\n" + out[-6000:])
    return out


def lake_build(targets):
    import fcntl
    os.makedirs(BUILD, exist_ok=True)
    with open(os.path.join(BUILD, "lake.lock"), "w") as lf:
        fcntl.flock(lf, fcntl.LOCK_EX)
        rc, out = sh(["lake", "build"] + list(targets), cwd=LEAN, timeout=7200)
    return rc, out


def run_audit(prop):
    """Run Audit/<prop>.lean: lists every theorem declared in Props.<prop> with its axioms.
    Returns (theorems: {name: [axioms]}, raw_output, rc)."""
    rc, out = sh(["lake", "env", "lean", f"Audit/{prop}.lean"], cwd=LEAN, timeout=1800)
    thms = {}
    for m in re.finditer(r"THEOREM (\S+) AXIOMS \[(.*?)\]", out, re.S):
        axs = [a.strip() for a in m.group(2).replace("\n", " ").split(",") if a.strip()]
        thms[m.group(1)] = axs
    return thms, out, rc


FORBIDDEN_TOKENS = re.compile(r"\b(sorry|admit|native_decide|bv_decide|implemented_by|unsafe)\b|^\s*axiom\s|maxHeartbeats\s+0", re.M)


def strip_lean_comments(src):
    src = re.sub(r"/-.*?-/", "", src, flags=re.S)
    src = re.sub(r"--.*", "", src)
    return src


def local_imports(module):
    """files of this project that `module` imports, transitively (Props/XrayProofs/XrayModel/Generated/Driver)"""
    seen, todo, files = set(), [module], []
    while todo:
        m = todo.pop()
        if m in seen:
            continue
        seen.add(m)
        path = os.path.join(LEAN, *m.split(".")) + ".lean"
        if not os.path.exists(path):
            continue
        files.append(path)
        for mm in re.finditer(r"^\s*(?:public\s+)?import\s+([A-Za-z0-9_.]+)", open(path).read(), re.M):
            todo.append(mm.group(1))
    return files


def grep_forbidden(paths):
    hits = []
    for p in paths:
        if not os.path.exists(p):
            continue
        s = strip_lean_comments(open(p).read())
        for m in FORBIDDEN_TOKENS.finditer(s):
            hits.append((p, m.group(0).strip()))
    return hits


# ---------------------------------------------------------------- harness / model runners

def _run_harness_chunk(reqs, per_req_timeout):
    """Run one harness process over reqs; returns the list of responses (dicts). Responses are read as they come:
    a request that does not answer within per_req_timeout is answered {"hang": true}, a request on which the
    child dies {"abort": ...}; the child is then restarted on the remaining requests."""
    import select, threading
    out = []
    i = 0
    while i < len(reqs):
        chunk = reqs[i:]
        p = subprocess.Popen([HARNESS_BIN], stdin=subprocess.PIPE, stdout=subprocess.PIPE, stderr=subprocess.PIPE)
        data = "".join(json.dumps(r) + "\n" for r in chunk).encode()

        def feed(proc=p, payload=data):
            try:
                proc.stdin.write(payload)
                proc.stdin.close()
            except Exception:
                pass
        threading.Thread(target=feed, daemon=True).start()
        got = 0
        buf = b""
        status = "done"
        last = time.time()
        fd = p.stdout.fileno()
        while got < len(chunk):
            remaining = per_req_timeout - (time.time() - last)
            if remaining <= 0:
                status = "hang"
                break
            r, _, _ = select.select([fd], [], [], min(remaining, 1.0))
            if not r:
                if p.poll() is not None and not select.select([fd], [], [], 0)[0]:
                    status = "dead"
                    break
                continue
            piece = os.read(fd, 1 << 16)
            if not piece:
                status = "dead"
                break
            buf += piece
            while b"\n" in buf:
                line, buf = buf.split(b"\n", 1)
                if not line.strip():
                    continue
                try:
                    out.append(json.loads(line.decode("utf-8", "replace")))
                except Exception:
                    out.append({"abort": "unparsable response " + line[:200].decode("utf-8", "replace")})
                got += 1
                last = time.time()
        i += got
        if status == "done":
            try:
                p.wait(timeout=5)
            except Exception:
                p.kill()
            continue
        err = b""
        try:
            p.kill()
            err = p.stderr.read() or b""
            p.wait(timeout=5)
        except Exception:
            pass
        if i < len(reqs):
            if status == "hang":
                out.append(_confirm_hang(reqs[i], per_req_timeout))
            else:
                out.append({"abort": f"rc={p.returncode} {err[-300:].decode('utf-8', 'replace')}"})
            i += 1
    return out


_HANG_RETRIES = {"left": 6}


def _confirm_hang(req, per_req_timeout):
    """A request did not answer in time. On a loaded machine that is not yet a hang: run it once more, alone, with four times
    the budget (only for the first few suspected hangs of a process, so that a change that makes many inputs hang is still
    reported in reasonable time)."""
    if _HANG_RETRIES["left"] <= 0:
        return {"hang": True}
    _HANG_RETRIES["left"] -= 1
    try:
        p = subprocess.run([HARNESS_BIN], input=json.dumps(req) + "\n", stdout=subprocess.PIPE, stderr=subprocess.PIPE,
                           text=True, timeout=min(4 * per_req_timeout, 600), errors="replace")
        line = p.stdout.strip().split("\n")[0] if p.stdout.strip() else ""
        if line:
            return json.loads(line)
        return {"abort": f"rc={p.returncode} {p.stderr[-300:]}"}
    except subprocess.TimeoutExpired:
        return {"hang": True}
    except Exception as e:
        return {"abort": str(e)[:200]}


def run_harness(reqs, per_req_timeout=10.0, jobs=None):
    jobs = jobs or JOBS
    if not reqs:
        return []
    n = len(reqs)
    k = max(1, min(jobs, (n + 7) // 8))
    size = (n + k - 1) // k
    chunks = [reqs[j:j + size] for j in range(0, n, size)]
    with ThreadPoolExecutor(max_workers=k) as ex:
        res = list(ex.map(lambda c: _run_harness_chunk(c, per_req_timeout), chunks))
    flat = [r for c in res for r in c]
    assert len(flat) == n, (len(flat), n)
    return flat


def run_model(lines, timeout=600):
    if not lines:
        return []
    data = "".join(l + "\n" for l in lines)
    for _ in range(60):   # the binary is briefly absent while somebody relinks it
        if os.path.exists(XMODEL_BIN):
            break
        time.sleep(1)
    p = subprocess.run([XMODEL_BIN], input=data, stdout=subprocess.PIPE, stderr=subprocess.PIPE, text=True,
                       timeout=timeout, errors="replace")
    out = p.stdout.split("\n")
    if out and out[-1] == "":
        out.pop()
    if len(out) != len(lines):
        raise BuildError(f"xmodel answered {len(out)} lines for {len(lines)} requests (rc={p.returncode}): {p.stderr[-500:]}")
    return out


# ---------------------------------------------------------------- known findings

def load_known():
    p = os.path.join(VERIF, "known_findings.json")
    if not os.path.exists(p):
        return {"findings": [], "fixed": []}
    return json.load(open(p))


# ---------------------------------------------------------------- the check object

class Check:
    def __init__(self, prop, tier, seed, design_ref=""):
        self.prop = prop
        self.tier = tier
        self.seed = seed
        self.t0 = time.time()
        self.rng = random.Random(seed)
        self.violations = []      # dicts {key, what, replay}
        self.known_hits = []
        self.coverage = {}
        self.assumptions = []
        self.samples = []
        self.evaluations = 0
        self.nontrivial = set()
        self.notes = []
        self.obligations = 0
        self.discharged = 0
        self.theorems = {}
        self.checker_cmd = ""
        self.trusted = list(TRUSTED_BASE_COMMON)
        self.counters = {}
        self.broken = []          # broken proof obligations / correspondences (names)
        self.known = [f for f in load_known().get("findings", []) if f.get("property") == prop]

    # ---- proofs
    def prove(self, extra_targets=()):
        """Build Props.<prop>, audit its axioms. Records obligations/discharged; a failing build is a broken
        obligation (handled by the caller through self.broken)."""
        prop = self.prop
        targets = [f"Props.{prop}", "Audit.Tools", "xmodel"] + list(extra_targets)
        self.checker_cmd = f"cd /verif/lean && lake build {' '.join(targets)} && lake env lean Audit/{prop}.lean"
        rc, out = lake_build(targets)
        if rc != 0 and os.environ.get("VERIF_DEV") == "1" and os.path.exists(XMODEL_BIN):
            # development aid while several people edit drivers at once: if only the shared driver binary
            # fails to link, fall back to the last good binary (never in the registered commands)
            rc, out = lake_build([t for t in targets if t != "xmodel"])
            self.notes.append("VERIF_DEV: reused an older xmodel binary")
        if rc != 0:
            self.broken.append({"kind": "proof-build", "detail": out[-3000:]})
            # still try to build the model driver alone so that the search can run
            rc2, out2 = lake_build(["xmodel"])
            if rc2 != 0:
                raise BuildError("xmodel does not build:\n" + out2[-4000:])
            return False
        thms, aout, arc = run_audit(prop)
        if arc != 0 or not thms:
            self.broken.append({"kind": "audit", "detail": aout[-3000:]})
            return False
        self.theorems = thms
        self.obligations = len(thms)
        bad = {n: a for n, a in thms.items() if not set(a) <= ALLOWED_AXIOMS}
        self.discharged = len(thms) - len(bad)
        for n, a in bad.items():
            self.broken.append({"kind": "axioms", "theorem": n, "axioms": a})
        hits = grep_forbidden(local_imports(f"Props.{prop}"))
        if hits:
            self.broken.append({"kind": "forbidden-token", "hits": hits})
        if self.tier == "thorough":
            rc, out = sh(["lake", "env", "leanchecker", f"Props.{prop}"], cwd=LEAN, timeout=3600)
            self.coverage["leanchecker"] = "ok" if rc == 0 else out[-500:]
            if rc != 0:
                self.broken.append({"kind": "leanchecker", "detail": out[-1000:]})
        return not self.broken

    # ---- bookkeeping
    def count(self, key, n=1):
        self.counters[key] = self.counters.get(key, 0) + n

    def sample(self, s, limit=8):
        if len(self.samples) < limit:
            self.samples.append(s)

    def violation(self, key, what, replay_obj, no_input=False):
        """Report a violation unless listed in known_findings.json under the same key."""
        for f in self.known:
            if f.get("key") == key:
                if not any(k["key"] == key for k in self.known_hits):
                    self.known_hits.append({"key": key, "what": f.get("what", what)})
                return
        if any(v["key"] == key for v in self.violations):
            return
        d = os.path.join(VERIF, "replays", self.prop)
        os.makedirs(d, exist_ok=True)
        name = re.sub(r"[^A-Za-z0-9_.-]+", "_", key)[:80] + ".json"
        path = os.path.join(d, name)
        with open(path, "w") as fh:
            json.dump({"property": self.prop, "key": key, "what": what, "seed": self.seed, "tier": self.tier,
                       "replay": replay_obj, "no_failing_input_found": no_input}, fh, indent=1)
        self.violations.append({"key": key, "what": what, "replay": path, "no_input": no_input})

    def finish(self, level="proof", rule="", extra_cov=None):
        cov = dict(self.coverage)
        cov.update({
            "obligations": self.obligations,
            "discharged": self.discharged,
            "checker_cmd": self.checker_cmd,
            "trusted_base": self.trusted,
            "theorems": sorted(self.theorems.keys()),
            "evaluations": self.evaluations,
            "distinct_nontrivial": len(self.nontrivial),
            "rule": rule,
            "samples": self.samples or ["(none)"],
            "counters": self.counters,
            "known_findings_printed": [k["key"] for k in self.known_hits],
            "broken_obligations": [b.get("kind") + ":" + str(b.get("theorem", "")) for b in self.broken],
            "violation_keys": [v["key"] for v in self.violations],
        })
        if extra_cov:
            cov.update(extra_cov)
        # schema guard: `exhaustive` is a boolean in EVIDENCE.schema.json; a descriptive text goes to exhaustive_note
        if "exhaustive" in cov and not isinstance(cov["exhaustive"], bool):
            cov["exhaustive_note"] = cov.pop("exhaustive")
        for k in ("states", "transitions", "traces_validated_against_impl", "programs", "disagreements_checked"):
            if k in cov and (not isinstance(cov[k], int) or isinstance(cov[k], bool)):
                cov[k + "_note"] = cov.pop(k)
        if "explanation" in cov and not isinstance(cov["explanation"], str):
            cov["explanation"] = json.dumps(cov["explanation"])
        ev = {
            "property_id": self.prop, "tier": self.tier, "seed": self.seed, "level": level,
            "coverage": cov, "assumptions": self.assumptions, "wall_s": round(time.time() - self.t0, 2),
            "violations": len(self.violations),
        }
        os.makedirs(os.path.join(VERIF, "evidence"), exist_ok=True)
        with open(os.path.join(VERIF, "evidence", f"{self.prop}.json"), "w") as fh:
            json.dump(ev, fh, indent=1)
        for k in self.known_hits:
            print(f"KNOWN-FINDING: property={self.prop} {k['what']}")
        for v in self.violations:
            tail = " no-failing-input-found" if v["no_input"] else ""
            print(f"VIOLATION property={self.prop} replay={v['replay']}{tail}")
            print(f"  ({v['what']})")
        if self.violations:
            return 1
        print(f"OK property={self.prop} tier={self.tier} obligations={self.obligations} discharged={self.discharged} "
              f"evaluations={self.evaluations} wall={ev['wall_s']}s")
        return 0


def handle_broken(chk, search_fn=None):
    """A proof obligation no longer builds / audits. Run the counterexample search (if any) and report."""
    for b in chk.broken:
        name = b.get("theorem") or b.get("kind")
        found = False
        if search_fn is not None:
            found = search_fn(b)
        if not found:
            chk.violation(f"broken:{b.get('kind')}:{name}",
                          f"proof obligation no longer checks: {name}: {str(b.get('detail', b))[-600:]}",
                          {"obligation": name, "detail": b}, no_input=True)


# ---------------------------------------------------------------- language-level evaluation of many expressions

def _resp_fail(r):
    if "panic" in r:
        return "panic " + r["panic"]
    if "abort" in r:
        return "abort " + str(r["abort"])
    if "hang" in r:
        return "hang"
    if r.get("compile") != "ok":
        c = r.get("compile")
        return "compile-err " + (c.get("class", "?") if isinstance(c, dict) else str(c))
    if r.get("inst") != "ok":
        return "viol " + r["inst"]["viol"]
    return None


def eval_exprs(exprs, prelude="", limits=None, chunk=60, per_req_timeout=10.0):
    """Evaluate each xray expression as a top-level binding and return its canonical dump, or
    'panic <loc>', 'compile-err <class>', 'viol <kind>', 'abort', 'hang'.  Expressions are batched;
    a batch that fails as a whole is re-run one expression per program."""
    results = [None] * len(exprs)
    batches = [list(range(i, min(i + chunk, len(exprs)))) for i in range(0, len(exprs), chunk)]

    def mk(idx):
        src = prelude + "".join(f"let r{j} = {exprs[j]};\n" for j in idx)
        req = {"op": "run", "src": src, "get": [f"r{j}" for j in idx]}
        if limits:
            req["limits"] = limits
        return req

    resps = run_harness([mk(b) for b in batches], per_req_timeout=per_req_timeout)
    singles = []
    for b, r in zip(batches, resps):
        f = _resp_fail(r)
        if f is None:
            for j in b:
                results[j] = r["vals"][f"r{j}"]
        elif len(b) == 1:
            results[b[0]] = f
        else:
            singles.extend(b)
    if singles:
        resps = run_harness([mk([j]) for j in singles], per_req_timeout=per_req_timeout)
        for j, r in zip(singles, resps):
            f = _resp_fail(r)
            results[j] = f if f is not None else r["vals"][f"r{j}"]
    return results


def lit(n):
    """xray source text of an integer literal (negative numbers parenthesised)."""
    return str(n) if n >= 0 else f"(-{-n})"


def generic_replay(path, prop):
    """./check Cxx --replay <file> for checks without their own replay(): re-run the recorded input on the
    implementation (and the model, if a model request was recorded) and show it next to the expectation."""
    d = json.load(open(path))
    rp = d.get("replay", {})
    print("recorded violation:", d.get("key"), "-", d.get("what", "")[:500])
    shown = False
    if isinstance(rp, dict) and "harness" in rp:
        r = run_harness([rp["harness"]])[0]
        print("implementation now:", json.dumps(r)[:2000])
        shown = True
    elif isinstance(rp, dict) and "src" in rp:
        req = {"op": "run", "src": rp["src"], "get": rp.get("get", []), "limits": rp.get("limits", {})}
        r = run_harness([req])[0]
        print("implementation now:", json.dumps(r)[:2000])
        shown = True
    if isinstance(rp, dict) and rp.get("model"):
        try:
            print("model now         :", run_model([rp["model"]])[0][:2000])
        except Exception as e:
            print("model: ", e)
    if isinstance(rp, dict) and "expected" in rp:
        print("expected          :", json.dumps(rp["expected"])[:2000])
    if not shown:
        print("the replay file names a broken obligation / correspondence rather than an input:", json.dumps(rp)[:2000])
    print(f"(re-run `./check {prop}` for the verdict on the current tree)")
    return 0
