"""C04 — Static checking accepts exactly the assignable programs.
Proofs: lean/Props/C04.lean over lean/XrayModel/Types.lean.
Tie: (1) the hook wrappers evaluate bind_in_assignment / common_type / == / XFuncSpec::bind on type pairs
(real natives and compound specs from a compiled prelude) against the compiled Lean model; (2) whole programs
place a (required type, supplied expression) pair in each syntactic position and the accept/reject outcome and
the error class are compared.  Oracle: `Oracle` below, an independent Python implementation of the documented
assignability relation (unknown is the bottom type; generics bind to the join of what they are matched with;
everything else component-wise; callables by exact arity)."""
import itertools
from .common import *

# ---------------------------------------------------------------- types (plain tuples)
B, I, F, S, U = ("b",), ("i",), ("f",), ("s",), ("u",)


def G(n): return ("g", n)
def TUP(*ts): return ("t", tuple(ts))
def NAT(name, *ts): return ("n", name, tuple(ts))
def CMP(kind, name, *ts): return ("c", kind, name, tuple(ts))
def CALL(ps, r): return ("k", tuple(ps), r)
def FUNC(gens, ps, nreq, r): return ("x", None if gens is None else tuple(gens), tuple(ps), nreq, r)


PRELUDE = ("struct A(x: int)\nstruct B<T>(x: T)\nstruct C<T,U>(x: T, y: U)\nstruct D<T,U,V>(x: T, y: U, z: V)\n"
           "union E(a: int, b: str)\nunion F<T>(a: T, b: int)\nunion G<T,U>(a: T, b: U)\n")
COMPOUNDS = {"A": ("S", 0), "B": ("S", 1), "C": ("S", 2), "D": ("S", 3), "E": ("U", 0), "F": ("U", 1), "G": ("U", 2)}
NATIVES = {"Sequence": 1, "Optional": 1, "Generator": 1, "Set": 1, "Mapping": 2}


def toks(t):
    k = t[0]
    if k in "bifsu":
        return [k]
    if k == "g":
        return ["g:" + t[1]]
    if k == "t":
        return [f"t:{len(t[1])}"] + [x for c in t[1] for x in toks(c)]
    if k == "n":
        return [f"n:{t[1]}:{len(t[2])}"] + [x for c in t[2] for x in toks(c)]
    if k == "c":
        return [f"c:{t[1]}:{t[2]}:{len(t[3])}"] + [x for c in t[3] for x in toks(c)]
    if k == "k":
        return [f"k:{len(t[1])}"] + [x for c in t[1] for x in toks(c)] + toks(t[2])
    if k == "x":
        g = "-" if t[1] is None else ",".join(t[1])
        return [f"x:{g}:{len(t[2])}:{t[3]}"] + [x for c in t[2] for x in toks(c)] + toks(t[4])
    raise ValueError(t)


def tstr(t):
    return " ".join(toks(t))


def parse_toks(ts, i=0):
    """inverse of toks; returns (type, next index)"""
    p = ts[i].split(":")
    i += 1

    def many(n, i):
        out = []
        for _ in range(n):
            c, i = parse_toks(ts, i)
            out.append(c)
        return tuple(out), i
    if p[0] in "bifsu" and len(p) == 1:
        return (p[0],), i
    if p[0] == "g":
        return ("g", p[1]), i
    if p[0] == "t":
        cs, i = many(int(p[1]), i)
        return ("t", cs), i
    if p[0] == "n":
        cs, i = many(int(p[2]), i)
        return ("n", p[1], cs), i
    if p[0] == "c":
        cs, i = many(int(p[3]), i)
        return ("c", p[1], p[2], cs), i
    if p[0] == "k":
        cs, i = many(int(p[1]), i)
        r, i = parse_toks(ts, i)
        return ("k", cs, r), i
    if p[0] == "x":
        cs, i = many(int(p[2]), i)
        r, i = parse_toks(ts, i)
        return ("x", None if p[1] == "-" else tuple(p[1].split(",")), cs, int(p[3]), r), i
    raise ValueError(ts[i - 1])


def children(t):
    k = t[0]
    if k == "t":
        return list(t[1])
    if k == "n":
        return list(t[2])
    if k == "c":
        return list(t[3])
    if k == "k":
        return list(t[1]) + [t[2]]
    if k == "x":
        return list(t[2]) + [t[4]]
    return []


def has(t, pred):
    return pred(t) or any(has(c, pred) for c in children(t))


def has_unknown(t): return has(t, lambda x: x[0] == "u")
def has_func(t): return has(t, lambda x: x[0] == "x")
def generics_of(t):
    out = []

    def go(x):
        if x[0] == "g" and x[1] not in out:
            out.append(x[1])
        for c in children(x):
            go(c)
    go(t)
    return out


def declarable(t):
    """can be written as a type expression: no unknown, no XFunc"""
    return not has_unknown(t) and not has_func(t)


def src(t):
    """xray type expression of a declarable type"""
    k = t[0]
    if k == "b": return "bool"
    if k == "i": return "int"
    if k == "f": return "float"
    if k == "s": return "str"
    if k == "g": return t[1]
    if k == "t": return "(" + ", ".join(src(c) for c in t[1]) + ")"
    if k == "n": return t[1] + "<" + ", ".join(src(c) for c in t[2]) + ">"
    if k == "c": return t[2] + ("<" + ", ".join(src(c) for c in t[3]) + ">" if t[3] else "")
    if k == "k": return "(" + ", ".join(src(c) for c in t[1]) + ")->(" + src(t[2]) + ")"
    raise ValueError(t)


# ---------------------------------------------------------------- the oracle (documented relation)
class Oracle:
    """assignability of a supplied type to a required type.  `env` collects, for each generic parameter of
    the required side, the join of everything it was matched with."""

    @staticmethod
    def same_function_type(a, b):
        # a callable type and the type of a non-generic function whose parameters are all required denote
        # the same function type when parameter and return types are identical
        if a[0] == "k" and b[0] == "x":
            return b[1] is None and b[3] == len(b[2]) and len(a[1]) == len(b[2]) and \
                all(Oracle.identical(x, y) for x, y in zip(a[1], b[2])) and Oracle.identical(a[2], b[4])
        return False

    @staticmethod
    def identical(a, b):
        if a == b:
            return True
        if Oracle.same_function_type(a, b) or Oracle.same_function_type(b, a):
            return True
        if a[0] != b[0] or a[0] in "bifsug":
            return False
        ca, cb = children(a), children(b)
        if len(ca) != len(cb):
            return False
        if a[0] == "n" and a[1] != b[1]: return False
        if a[0] == "c" and (a[1], a[2]) != (b[1], b[2]): return False
        if a[0] == "x" and (a[1], a[3]) != (b[1], b[3]): return False
        return all(Oracle.identical(x, y) for x, y in zip(ca, cb))

    @staticmethod
    def join(a, b):
        """least common type (None if there is none): unknown is below everything; containers, tuples and
        compounds component-wise; function types only when identical"""
        if Oracle.identical(a, b):
            return a
        if b[0] == "u": return a
        if a[0] == "u": return b
        if a[0] != b[0]: return None
        if a[0] == "t":
            if len(a[1]) != len(b[1]): return None
            cs = [Oracle.join(x, y) for x, y in zip(a[1], b[1])]
            return None if any(c is None for c in cs) else ("t", tuple(cs))
        if a[0] == "n":
            if a[1] != b[1] or len(a[2]) != len(b[2]): return None
            cs = [Oracle.join(x, y) for x, y in zip(a[2], b[2])]
            return None if any(c is None for c in cs) else ("n", a[1], tuple(cs))
        if a[0] == "c":
            if (a[1], a[2]) != (b[1], b[2]) or len(a[3]) != len(b[3]): return None
            cs = [Oracle.join(x, y) for x, y in zip(a[3], b[3])]
            return None if any(c is None for c in cs) else ("c", a[1], a[2], tuple(cs))
        return None

    @staticmethod
    def assign(r, s, env):
        if s[0] == "u":
            return True
        k = r[0]
        if k == "g":
            if s == r:
                return True
            if r[1] in env:
                j = Oracle.join(env[r[1]], s)
                if j is None:
                    return False
                env[r[1]] = j
            else:
                env[r[1]] = s
            return True
        if k in "bifs":
            return s == r
        if k == "t":
            return s[0] == "t" and len(s[1]) == len(r[1]) and all(Oracle.assign(x, y, env) for x, y in zip(r[1], s[1]))
        if k == "n":
            return s[0] == "n" and s[1] == r[1] and len(s[2]) == len(r[2]) and \
                all(Oracle.assign(x, y, env) for x, y in zip(r[2], s[2]))
        if k == "c":
            return s[0] == "c" and (s[1], s[2]) == (r[1], r[2]) and len(s[3]) == len(r[3]) and \
                all(Oracle.assign(x, y, env) for x, y in zip(r[3], s[3]))
        if k == "k":
            if s[0] == "k":
                return len(s[1]) == len(r[1]) and all(Oracle.assign(x, y, env) for x, y in zip(r[1], s[1])) and \
                    Oracle.assign(r[2], s[2], env)
            if s[0] == "x":
                # a function with optional parameters can be used at every arity of its window
                return s[3] <= len(r[1]) <= len(s[2]) and \
                    all(Oracle.assign(x, y, env) for x, y in zip(r[1], s[2])) and Oracle.assign(r[2], s[4], env)
            return False
        if k == "u":
            return False   # nothing but the bottom type itself (handled above) is assignable to the bottom type
        return False

    @staticmethod
    def assign_all(pairs):
        env = {}
        for r, s in pairs:
            if not Oracle.assign(r, s, env):
                return None
        return env


def env_str(env):
    if env is None:
        return "none"
    return "some {" + " | ".join(f"{k}={tstr(v)}" for k, v in sorted(env.items())) + "}"


# ---------------------------------------------------------------- generators
R_ATOMS = [I, S, G("T"), CMP("S", "A")]
S_ATOMS = [I, S, U, CMP("S", "A"), G("X")]
R_ATOMS_WIDE = [B, I, F, S, G("T"), G("U"), CMP("S", "A"), CMP("U", "E")]
S_ATOMS_WIDE = [B, I, F, S, U, G("X"), G("T"), CMP("S", "A"), CMP("U", "E")]


def depth1(atoms, with_func):
    out = list(atoms)
    for n in ("Sequence", "Optional", "Generator"):
        out += [NAT(n, a) for a in atoms]
    out += [NAT("Mapping", a, b) for a in atoms for b in atoms]
    out += [TUP()] + [TUP(a) for a in atoms] + [TUP(a, b) for a in atoms for b in atoms]
    out += [TUP(a, b, c) for a in atoms for b in atoms for c in atoms]      # arities 0-3 against each other
    out += [CMP("S", "B", a) for a in atoms] + [CMP("U", "F", a) for a in atoms]
    out += [CMP("S", "C", a, b) for a in atoms for b in atoms] + [CMP("U", "G", a, b) for a in atoms for b in atoms]
    out += [CMP("S", "D", a, b, c) for a in atoms for b in atoms for c in atoms]
    out += [CALL([], a) for a in atoms] + [CALL([a], b) for a in atoms for b in atoms]
    out += [CALL([a, b], c) for a in atoms for b in atoms for c in atoms]
    if with_func:
        out += [FUNC(None, [], 0, a) for a in atoms]
        out += [FUNC(None, [a], q, b) for a in atoms for b in atoms for q in (0, 1)]
        out += [FUNC(None, [a, b], q, c) for a in atoms[:3] for b in atoms[:3] for c in atoms[:3] for q in (0, 1, 2)]
    return out


def rand_type(rng, depth, atoms, allow_unknown, allow_func, generic_names):
    """random type of nesting depth <= depth"""
    if depth == 0 or rng.random() < 0.25:
        pool = list(atoms) + [G(n) for n in generic_names] + ([U] if allow_unknown else [])
        return rng.choice(pool)
    sub = lambda: rand_type(rng, depth - 1, atoms, allow_unknown, allow_func, generic_names)
    c = rng.choice(["Sequence", "Optional", "Generator", "Mapping", "Set", "tuple", "B", "C", "D", "F", "G", "call", "call"]
                   + (["func"] if allow_func else []))
    if c in ("Sequence", "Optional", "Generator", "Set"):
        return NAT(c, sub())
    if c == "Mapping":
        return NAT(c, sub(), sub())
    if c == "tuple":
        return TUP(*[sub() for _ in range(rng.choice([0, 1, 2, 2, 3]))])
    if c in "BCDFG":
        kind, n = COMPOUNDS[c]
        return CMP(kind, c, *[sub() for _ in range(n)])
    n = rng.choice([0, 1, 1, 2, 2, 3])
    ps = [sub() for _ in range(n)]
    if c == "call":
        return CALL(ps, sub())
    return FUNC(None, ps, rng.randint(0, n), sub())


def mutate(rng, t, atoms, allow_func):
    """a supplied type derived from a required one: generics instantiated, parts replaced by unknown or by
    something else, arities of function types changed"""
    inst = {}

    def go(x, p_unknown):
        r = rng.random()
        if r < p_unknown:
            return U
        if r < p_unknown + 0.04:
            return rand_type(rng, 1, atoms, True, allow_func, ["X"])
        k = x[0]
        if k == "g":
            if x[1] not in inst or rng.random() < 0.15:
                inst[x[1]] = rand_type(rng, 1, atoms, True, False, ["X"])
            return inst[x[1]]
        if k == "t":
            cs = [go(c, p_unknown) for c in x[1]]
            if rng.random() < 0.05 and cs: cs.pop()
            return ("t", tuple(cs))
        if k == "n":
            return ("n", x[1], tuple(go(c, p_unknown) for c in x[2]))
        if k == "c":
            return ("c", x[1], x[2], tuple(go(c, p_unknown) for c in x[3]))
        if k == "k":
            # function types do not contain unknown when written in a program
            ps = [go(c, 0.0) for c in x[1]]
            ret = go(x[2], 0.0)
            r2 = rng.random()
            if r2 < 0.12 and ps: ps.pop()
            elif r2 < 0.24: ps.append(rng.choice(atoms))
            if allow_func and rng.random() < 0.5:
                extra = [rng.choice(atoms) for _ in range(rng.choice([0, 0, 1]))]
                return FUNC(None, ps + extra, rng.choice([len(ps), len(ps), max(0, len(ps) - 1), len(ps) + len(extra)]), ret)
            return CALL(ps, ret)
        return x
    return go(t, 0.12)


# ---------------------------------------------------------------- supplied expressions for the language route
class NoExpr(Exception):
    pass


class Wrapper:
    """collects what a test program needs so that an expression of a given (possibly unknown-bearing) type exists:
    parameters of the wrapper function for declarable parts, helper functions for XFunc types"""

    def __init__(self):
        self.params = []     # (name, type)
        self.helpers = []    # source text of helper functions
        self.n = 0

    def param(self, t):
        for n, ty in self.params:
            if ty == t:
                return n
        n = f"p{len(self.params)}"
        self.params.append((n, t))
        return n

    def expr(self, t):
        k = t[0]
        if k == "x":
            if t[1] is not None or not all(declarable(c) for c in children(t)) or generics_of(t):
                raise NoExpr()
            self.n += 1
            name = f"h{self.n}"
            ps = [f"a{i}: {src(p)}" + ("" if i < t[3] else ' ?= error("d")') for i, p in enumerate(t[2])]
            self.helpers.append(f"fn {name}({', '.join(ps)})->{src(t[4])}{{error(\"b\")}}\n")
            return name
        if declarable(t):
            return self.param(t)
        if k == "u":
            return 'error("u")'
        if k == "t":
            cs = [self.expr(c) for c in t[1]]
            return "(" + ", ".join(cs) + ("," if len(cs) == 1 else "") + ")"
        if k == "n" and t[1] == "Sequence":
            return "[]" if t[2][0] == U else "[" + self.expr(t[2][0]) + "]"
        if k == "n" and t[1] == "Optional":
            return "none()" if t[2][0] == U else "some(" + self.expr(t[2][0]) + ")"
        if k == "n" and t[1] == "Generator":
            return ("[]" if t[2][0] == U else "[" + self.expr(t[2][0]) + "]") + ".to_generator()"
        if k == "c" and t[1] == "S" and t[2] in "BCD":
            return t[2] + "(" + ", ".join(self.expr(c) for c in t[3]) + ")"
        if k == "c" and t[2] == "F":
            return "F::b(1)" if t[3][0] == U else "F::a(" + self.expr(t[3][0]) + ")"
        if k == "c" and t[2] == "G":
            if t[3][1] == U: return "G::a(" + self.expr(t[3][0]) + ")"
            if t[3][0] == U: return "G::b(" + self.expr(t[3][1]) + ")"
        raise NoExpr()


POSITIONS = ["let", "ret", "default", "arg", "field", "variant"]
REJECT_CLASS = {"let": "VariableTypeMismatch", "ret": "FunctionOutputTypeMismatch", "default": "VariableTypeMismatch",
                "arg": "NoOverload", "field": "StructFieldTypeMismatch", "variant": "VariantConstructorTypeArgMismatch"}


def program(pos, r, s, prepared=None):
    """source of a program that places supplied type s where r is required, or None if s has no expression.
    Generic names: T,U,V belong to the receiving declaration (bindable in arg/field/variant), X,Y to the wrapper.
    `prepared` = (Wrapper, expression text): an expression of type s built elsewhere (e.g. a generic call)."""
    if prepared is not None:
        w, e = prepared
    else:
        w = Wrapper()
        try:
            e = w.expr(s)
        except NoExpr:
            return None
    rg = generics_of(r)
    sg = [g for t in [t for _, t in w.params] for g in generics_of(t)]
    if pos in ("let", "ret", "default"):
        wg = sorted(set(rg) | set(sg))
    else:
        wg = sorted(set(sg))
        if set(wg) & set(rg):
            return None
    gsig = ("<" + ", ".join(wg) + ">") if wg else ""
    rgsig = ("<" + ", ".join(rg) + ">") if rg else ""
    params = ", ".join(f"{n}: {src(t)}" for n, t in w.params)
    pre = PRELUDE + "".join(w.helpers)
    if pos == "let":
        return pre + f"fn w{gsig}({params})->int{{ let v: {src(r)} = {e}; 0 }}\n"
    if pos == "ret":
        return pre + f"fn w{gsig}({params})->{src(r)}{{ {e} }}\n"
    if pos == "default":
        return pre + f"fn w{gsig}({params})->int{{ fn inner(q: {src(r)} ?= {e})->int{{0}} 0 }}\n"
    if pos == "arg":
        return pre + f"fn callee{rgsig}(q: {src(r)})->int{{0}}\nfn w{gsig}({params})->int{{ callee({e}) }}\n"
    if pos == "field":
        return pre + f"struct Z{rgsig}(q: {src(r)})\nfn w{gsig}({params})->int{{ let v = Z({e}); 0 }}\n"
    if pos == "variant":
        return pre + f"union Z{rgsig}(q: {src(r)}, o: int)\nfn w{gsig}({params})->int{{ let v = Z::q({e}); 0 }}\n"
    raise ValueError(pos)


def oracle_accepts(pos, r, s):
    env = Oracle.assign_all([(r, s)])
    if env is None:
        return False
    if pos in ("let", "ret", "default"):
        return not env
    return True


# ---------------------------------------------------------------- results of generic calls
CALL_GENS = ["Ga", "Gb", "Gc"]
CONCRETE = [I, S, F, NAT("Sequence", I), TUP(I, S), CMP("S", "A")]


def gen_generic_call(rng):
    """a generic function with 2-3 generic parameters, and arguments that bind a random subset of them while the others
    meet only bottom-typed arguments: (gens, params, ret, argument types)"""
    gens = CALL_GENS[:rng.choice([2, 2, 3])]
    pats = []
    for g in gens:
        pats += [G(g), NAT("Sequence", G(g)), NAT("Optional", G(g)), NAT("Generator", G(g))]
    for g in gens:
        for h in gens:
            if g != h:
                pats += [TUP(G(g), G(h)), NAT("Sequence", TUP(G(g), G(h)))]
    n = rng.choice([1, 2, 2, 3, 3])
    params = [rng.choice(pats) for _ in range(n)]
    rets = [TUP(*[NAT("Sequence", G(g)) for g in gens]), TUP(*[G(g) for g in gens]), NAT("Mapping", G(gens[0]), G(gens[1])),
            NAT("Sequence", TUP(*[G(g) for g in gens])), CMP("S", "C", G(gens[0]), G(gens[-1])), NAT("Optional", G(gens[-1])),
            CALL([G(gens[0])], G(gens[1]))]
    ret = rng.choice(rets)
    inst = {g: rng.choice(CONCRETE) for g in gens}
    bottom = {g for g in gens if rng.random() < 0.45}

    def arg_of(p_):
        k = p_[0]
        if k == "g":
            return U if p_[1] in bottom else inst[p_[1]]
        if k == "t":
            return ("t", tuple(arg_of(c) for c in p_[1]))
        if k == "n":
            inner = tuple(arg_of(c) for c in p_[2])
            if p_[1] in ("Sequence", "Optional", "Generator") and rng.random() < 0.25:
                return NAT(p_[1], U)        # `[]`, `none()`, `[].to_generator()`
            return ("n", p_[1], inner)
        return p_
    args = [arg_of(p_) if rng.random() < 0.9 else U for p_ in params]
    return gens, params, ret, args


def call_result(gens, params, ret, args):
    """the documented result type of the call: the return type with every generic parameter replaced by what the
    arguments bind it to - the bottom type when it met nothing but the bottom type"""
    env = Oracle.assign_all(list(zip(params, args)))
    if env is None:
        return None
    return substitute(ret, {g: env.get(g, U) for g in gens})


# calls of library functions with two generic parameters: (expression, signature, argument types)
LIB_GENERIC_CALLS = [
    ('mapping<int>().set(1, error("x"))',
     FUNC(["K", "V"], [NAT("Mapping", G("K"), G("V")), G("K"), G("V")], 3, NAT("Mapping", G("K"), G("V"))),
     [NAT("Mapping", I, U), I, U]),
    ('mapping<str>().set("a", none())',
     FUNC(["K", "V"], [NAT("Mapping", G("K"), G("V")), G("K"), G("V")], 3, NAT("Mapping", G("K"), G("V"))),
     [NAT("Mapping", S, U), S, NAT("Optional", U)]),
    ('mapping<int>().update([])',
     FUNC(["K", "V"], [NAT("Mapping", G("K"), G("V")), NAT("Sequence", TUP(G("K"), G("V")))], 2, NAT("Mapping", G("K"), G("V"))),
     [NAT("Mapping", I, U), NAT("Sequence", U)]),
    ('mapping<int>().set(2, [])',
     FUNC(["K", "V"], [NAT("Mapping", G("K"), G("V")), G("K"), G("V")], 3, NAT("Mapping", G("K"), G("V"))),
     [NAT("Mapping", I, U), I, NAT("Sequence", U)]),
]


def concretise(rng, t):
    """t with every unknown replaced by some concrete type"""
    k = t[0]
    if k == "u": return rng.choice(CONCRETE)
    if k == "t": return ("t", tuple(concretise(rng, c) for c in t[1]))
    if k == "n": return ("n", t[1], tuple(concretise(rng, c) for c in t[2]))
    if k == "c": return ("c", t[1], t[2], tuple(concretise(rng, c) for c in t[3]))
    if k == "k": return ("k", tuple(concretise(rng, c) for c in t[1]), concretise(rng, t[2]))
    return t


def run_generic_calls(chk, rng, quick):
    n = 260 if quick else 6000
    cases = []   # (label, wrapper, expression, result type S, model line or None)
    for _ in range(n):
        gens, params, ret, args = gen_generic_call(rng)
        res = call_result(gens, params, ret, args)
        w = Wrapper()
        try:
            aes = [w.expr(a) for a in args]
        except NoExpr:
            continue
        w.n += 1
        fname = f"gf{w.n}"
        w.helpers.append(f"fn {fname}<{', '.join(gens)}>({', '.join(f'a{i}: {src(p_)}' for i, p_ in enumerate(params))})"
                         f"->{src(ret)}{{error(\"b\")}}\n")
        expr = f"{fname}({', '.join(aes)})"
        mline = "ty call " + tstr(FUNC(gens, params, len(params), ret)) + (" " + " ".join(tstr(a) for a in args) if args else "")
        cases.append(("user", w, expr, res, mline, (gens, params, ret, args)))
    for expr, sig, args in LIB_GENERIC_CALLS:
        res = call_result(list(sig[1]), list(sig[2]), sig[4], args)
        for _ in range(3 if quick else 12):
            cases.append(("library", Wrapper(), expr, res, "ty call " + tstr(sig) + " " + " ".join(tstr(a) for a in args), None))
    # model: the inferred result type
    mres = run_model([c[4] for c in cases])
    progs = []
    for (label, w, expr, res, mline, info), gm in zip(cases, mres):
        chk.evaluations += 1
        chk.count("gcall:" + label)
        want_m = "err" if res is None else "ok " + tstr(res)
        if (gm.startswith("err") and want_m != "err") or (gm.startswith("ok") and gm != want_m):
            chk.violation("unit:call-rtype:model", f"model result type of the call {mline!r} is {gm}; the documented rules give {want_m}",
                          {"model": mline, "expected": want_m}, no_input=True)
        if res is None:
            chk.count("gcall:no-binding")
            continue
        if has_unknown(res): chk.count("gcall:result-has-bottom-completed-generic")
        if info and any(a != U and not has_unknown(a) for a in info[3]) and has_unknown(res): chk.count("gcall:partly-bound")
        # required types: the result with every bottom replaced by something concrete (must be accepted), and a spoiled one
        rs = [concretise(rng, res)]
        if declarable(res): rs.append(res)
        bad = mutate(rng, rs[0], S_ATOMS_WIDE[:4] + S_ATOMS_WIDE[7:], False)
        if declarable(bad): rs.append(bad)
        for r in rs:
            if not declarable(r) or generics_of(r):
                continue
            for pos in POSITIONS:
                w2 = Wrapper(); w2.params = list(w.params); w2.helpers = list(w.helpers); w2.n = w.n
                p = program(pos, r, res, prepared=(w2, expr))
                if p is None:
                    continue
                progs.append((pos, r, res, p, oracle_accepts(pos, r, res)))
            # a container element next to a concrete value: the common type of the call's result and r
            w2 = Wrapper(); w2.params = list(w.params); w2.helpers = list(w.helpers); w2.n = w.n
            pr = w2.param(r)
            params_s = ", ".join(f"{nm}: {src(t)}" for nm, t in w2.params)
            p = PRELUDE + "".join(w2.helpers) + f"fn w({params_s})->int{{ let v: {src(NAT('Sequence', r))} = [{expr}, {pr}]; 0 }}\n"
            j = Oracle.join(res, r)
            progs.append(("element", r, res, p, j is not None and Oracle.assign_all([(r, j)]) == {}))
    resps = run_harness([{"op": "run", "src": x[3], "compile_only": True} for x in progs], per_req_timeout=20.0)
    for (pos, r, res, p, want), resp in zip(progs, resps):
        chk.evaluations += 1
        replay = {"op": "run", "src": p, "compile_only": True, "position": pos, "required": tstr(r), "call_result": tstr(res)}
        c = resp.get("compile")
        if c is None:
            chk.violation("gcall:compiler-panic", f"the compiler panicked on {p!r}: {json.dumps(resp)[:300]}", replay)
            continue
        got = c == "ok"
        chk.count(f"gcall:{pos}:" + ("accept" if got else "reject"))
        chk.nontrivial.add(("gcall", pos, tstr(r), tstr(res)))
        if got != want:
            chk.violation(f"gcall:{pos}:{'unsound-accept' if got else 'spurious-reject'}",
                          f"result of a generic call (documented type {tstr(res)}) used in position {pos} where {tstr(r)} is required: "
                          f"compiler {'accepts' if got else 'rejects with ' + str(c.get('class')) + ' ' + c.get('msg', '')[:120]}, the documented "
                          f"rules say {'accept' if want else 'reject'}; program: {p!r}", dict(replay, expected="accept" if want else "reject"))
    for x in progs[:2]:
        chk.sample({"generic-call": x[3]})


# ---------------------------------------------------------------- the check
def run_unit(chk, cases):
    """cases: list of (op, [types]) -> (impl outputs, model outputs)"""
    reqs = []
    CH = 4000
    for i in range(0, len(cases), CH):
        reqs.append({"op": "ty", "prelude": PRELUDE,
                     "cases": [[op, " ".join(tstr(t) for t in ts)] for op, ts in cases[i:i + CH]]})
    resps = run_harness(reqs, per_req_timeout=120.0)
    impl = []
    for r in resps:
        if "rs" not in r:
            raise BuildError("harness op ty failed: " + json.dumps(r)[:500])
        impl += r["rs"]
    model = run_model([f"ty {op} " + " ".join(tstr(t) for t in ts) for op, ts in cases])
    return impl, model


def run(chk):
    rng = chk.rng
    quick = chk.tier == "quick"
    chk.trusted += [
        "compound types are identified by name and carry one argument per generic parameter (the model's reading of "
        "Compound(kind, spec, bind)); XTail is resolved before the modelled functions run",
        "the Python oracle `checklib.c04.Oracle` as the independent statement of the documented assignability rules",
    ]
    # findings of this property that are recorded in design/C04.findings.json (merged into known_findings.json by
    # the coordinator) are known here as well, so that the check does not depend on the merge having happened
    try:
        own = json.load(open(os.path.join(VERIF, "design", "C04.findings.json"))).get("findings", [])
        chk.known += [f for f in own if f.get("property") == "C04" and not any(k.get("key") == f.get("key") for k in chk.known)]
    except FileNotFoundError:
        pass
    ok = chk.prove()
    if not ok:
        handle_broken(chk)

    # ------------------------------------------------------------------ route 1: the functions, directly
    r_types = depth1(R_ATOMS, with_func=False)
    s_types = depth1(S_ATOMS, with_func=True)
    pairs = [(r, s) for r in r_types for s in s_types]
    exhaustive = len(pairs)
    if quick:
        # every pair whose heads could match, and a sample of the rest
        same = [(r, s) for r, s in pairs if r[0] == s[0] or r[0] == "g" or s[0] == "u" or (r[0], s[0]) == ("k", "x")]
        rest = [p for p in pairs if not (p[0][0] == p[1][0] or p[0][0] == "g" or p[1][0] == "u" or (p[0][0], p[1][0]) == ("k", "x"))]
        pairs = same if len(same) <= 60000 else rng.sample(same, 60000)
        pairs += rng.sample(rest, min(len(rest), 5000))
    n_deep = 6000 if quick else 100000
    for _ in range(n_deep):
        d = rng.choice([2, 2, 3])
        r = rand_type(rng, d, R_ATOMS_WIDE[:4] + R_ATOMS_WIDE[6:], False, False, ["T", "U"])
        s = mutate(rng, r, S_ATOMS_WIDE[:4] + S_ATOMS_WIDE[7:], True) if rng.random() < 0.8 else \
            rand_type(rng, d, S_ATOMS_WIDE[:4] + S_ATOMS_WIDE[7:], True, True, ["X", "T"])
        pairs.append((r, s))
    cases = [("bind", [r, s]) for r, s in pairs]
    # common_type / ==: symmetric pairs over supplied-side types (these are the types expressions have)
    cpairs = []
    pool = depth1(S_ATOMS, with_func=True)
    small = [t for t in pool if len(tstr(t)) < 40]
    for _ in range(4000 if quick else 30000):
        a = rng.choice(small)
        b = mutate(rng, a, S_ATOMS, True) if rng.random() < 0.7 else rng.choice(small)
        cpairs.append((a, b))
    for _ in range(3000 if quick else 30000):
        a = rand_type(rng, rng.choice([2, 3]), S_ATOMS, True, True, ["X"])
        b = mutate(rng, a, S_ATOMS, True)
        cpairs.append((a, b))
    cases += [("common", [a, b]) for a, b in cpairs] + [("common", [b, a]) for a, b in cpairs]
    cases += [("eq", [a, b]) for a, b in cpairs] + [("eq", [b, a]) for a, b in cpairs]
    # XFuncSpec::bind with several arguments (consistent binding of generics, arity window)
    scases = []
    for _ in range(4000 if quick else 60000):
        n = rng.choice([1, 2, 2, 3])
        ps = [rand_type(rng, rng.choice([0, 1, 2]), R_ATOMS_WIDE[:4], False, False, ["T", "U"]) for _ in range(n)]
        nreq = rng.randint(0, n)
        f = FUNC(["T", "U"], ps, nreq, I)
        inst = {"T": rand_type(rng, 1, S_ATOMS, True, False, []), "U": rand_type(rng, 1, S_ATOMS, True, False, [])}

        def subst(x):
            if x[0] == "g": return inst[x[1]] if rng.random() < 0.85 else rand_type(rng, 1, S_ATOMS, True, False, [])
            if x[0] == "t": return ("t", tuple(subst(c) for c in x[1]))
            if x[0] == "n": return ("n", x[1], tuple(subst(c) for c in x[2]))
            if x[0] == "c": return ("c", x[1], x[2], tuple(subst(c) for c in x[3]))
            if x[0] == "k": return ("k", tuple(subst(c) for c in x[1]), subst(x[2]))
            return x
        args = [subst(p) if rng.random() < 0.9 else U for p in ps]
        m = rng.random()
        if m < 0.15 and args: args.pop()
        elif m < 0.25: args.append(I)
        scases.append((f, args))
    cases += [("specbind", [f] + a) for f, a in scases]
    # resolve_bind: substitution of a binding (also inside function types)
    rcases = []
    for _ in range(1500 if quick else 20000):
        t = rand_type(rng, rng.choice([1, 2, 3]), R_ATOMS_WIDE[:4], False, False, ["T", "U"])
        kv = []
        for gname in rng.sample(["T", "U"], rng.choice([0, 1, 2])):
            kv += [G(gname), rand_type(rng, 1, S_ATOMS, True, False, [])]
        rcases.append(("resolve", [t] + kv))
    cases += rcases

    impl, model = run_unit(chk, cases)
    for (op, ts), gi, gm in zip(cases, impl, model):
        chk.evaluations += 1
        chk.count("unit:" + op)
        replay = {"harness": {"op": "ty", "prelude": PRELUDE, "cases": [[op, " ".join(tstr(t) for t in ts)]]},
                  "model": f"ty {op} " + " ".join(tstr(t) for t in ts)}
        want = None
        if op == "bind":
            r, s = ts
            if declarable(r):
                want = env_str(Oracle.assign_all([(r, s)]))
            if any(has_unknown(t) or has(t, lambda x: x[0] == "g") for t in ts):
                chk.nontrivial.add((op, tstr(r), tstr(s)))
            chk.count("unit:bind:" + ("accept" if gi != "none" else "reject"))
        elif op == "specbind":
            f, args = ts[0], ts[1:]
            if f[3] <= len(args) <= len(f[2]):
                want = env_str(Oracle.assign_all(list(zip(f[2], args))))
            else:
                want = "none"
            chk.nontrivial.add((op,) + tuple(tstr(t) for t in ts))
            chk.count("unit:specbind:" + ("accept" if gi != "none" else "reject"))
        elif op == "common":
            a, b = ts
            j = Oracle.join(a, b)
            want = "none" if j is None else "some " + tstr(j)
            chk.count("unit:common:" + ("some" if gi != "none" else "none"))
        elif op == "eq":
            want = str(Oracle.identical(ts[0], ts[1])).lower()
        elif op == "resolve":
            want = tstr(substitute(ts[0], {ts[i][1]: ts[i + 1] for i in range(1, len(ts), 2)}))
        if gi.startswith("panic") or gi.startswith("bad"):
            chk.violation(f"unit:{op}:panic", f"{op} on {[tstr(t) for t in ts]} -> {gi}", replay)
            continue
        if want is not None and gi != want:
            kind = "unsound-accept" if (want == "none" and gi != "none") else ("spurious-reject" if gi == "none" else "wrong-result")
            chk.violation(f"unit:{op}:{kind}",
                          f"{op}({', '.join(tstr(t) for t in ts)}) = {gi}; the documented rules give {want}", dict(replay, expected=want, got=gi))
        elif gm != gi:
            chk.violation(f"tie:unit:{op}", f"model disagrees with the implementation on {op}({', '.join(tstr(t) for t in ts)}): "
                          f"model={gm} impl={gi}", dict(replay, impl=gi, model_out=gm), no_input=True)
    chk.sample({"unit": cases[0][0], "types": [tstr(t) for t in cases[0][1]], "impl": impl[0]})
    chk.coverage["unit_depth1_pairs_total"] = exhaustive
    chk.coverage["unit_depth1_exhaustive"] = not quick

    # ------------------------------------------------------------------ route 2: through the language
    lp = []
    base_r = [t for t in depth1(R_ATOMS, with_func=False)]
    n_lang = 2600 if quick else 12000
    while len(lp) < n_lang:
        m = rng.random()
        if m < 0.35:
            r = rng.choice(base_r)
        else:
            r = rand_type(rng, rng.choice([1, 2, 2, 3]), R_ATOMS_WIDE[:4] + R_ATOMS_WIDE[6:], False, False, ["T", "U"])
        s = mutate(rng, r, S_ATOMS_WIDE[:4] + S_ATOMS_WIDE[7:], True) if rng.random() < 0.85 else \
            rand_type(rng, 2, S_ATOMS_WIDE[:4] + S_ATOMS_WIDE[7:], True, True, ["X"])
        lp.append((r, s))
    progs = []
    for r, s in lp:
        for pos in POSITIONS:
            # in let/ret/default the generics of r are the wrapper's (opaque); rename so that both sides share them
            if pos in ("let", "ret", "default"):
                ren = {"T": "X", "U": "Y"}
                rr = rename(r, ren)
                ss = s
            else:
                rr, ss = r, s
            p = program(pos, rr, ss)
            if p is None:
                chk.count("lang:skipped-no-expression")
                continue
            progs.append((pos, rr, ss, p))
    resps = run_harness([{"op": "run", "src": p, "compile_only": True} for _, _, _, p in progs], per_req_timeout=20.0)
    mlines = [f"ty accept {pos} {tstr(r)} {tstr(s)}" for pos, r, s, _ in progs]
    mres = run_model(mlines)
    for (pos, r, s, p), resp, gm in zip(progs, resps, mres):
        chk.evaluations += 1
        want = oracle_accepts(pos, r, s)
        replay = {"op": "run", "src": p, "compile_only": True, "position": pos, "required": tstr(r), "supplied": tstr(s)}
        if "panic" in resp or "abort" in resp or "hang" in resp:
            chk.violation(f"lang:{pos}:compiler-panic", f"the compiler panicked on {p!r}: {json.dumps(resp)[:300]}", replay)
            continue
        c = resp.get("compile")
        got = c == "ok"
        cls = None if got else c.get("class")
        chk.count(f"lang:{pos}:" + ("accept" if got else "reject"))
        if has_unknown(s) or generics_of(r):
            chk.nontrivial.add((pos, tstr(r), tstr(s)))
        if got != want:
            kind = "unsound-accept" if got else "spurious-reject"
            chk.violation(f"lang:{pos}:{kind}", f"position {pos}: required {tstr(r)}, supplied {tstr(s)}: compiler "
                          f"{'accepts' if got else 'rejects with ' + str(cls)}, the documented rules say {'accept' if want else 'reject'}; program: {p!r}",
                          dict(replay, expected="accept" if want else "reject", got=c))
            continue
        if not got and cls != REJECT_CLASS[pos]:
            chk.violation(f"lang:{pos}:error-class", f"position {pos}: rejected with [{cls}], expected [{REJECT_CLASS[pos]}]; program: {p!r}",
                          dict(replay, got=c))
            continue
        if gm != str(got).lower():
            chk.violation(f"tie:lang:{pos}", f"model says accepts={gm}, implementation {'accepts' if got else 'rejects'}: {p!r}",
                          dict(replay, model=gm), no_input=True)
    for pos, r, s, p in progs[:3]:
        chk.sample({"lang": p})

    # ------------------------------------------------------------------ calls through function-typed values (fixed defects)
    call_cases = []
    for _ in range(500 if quick else 8000):
        n = rng.choice([0, 1, 1, 2, 2, 3])
        as_func = rng.random() < 0.5
        gn = [] if as_func else ["X", "Y"]
        ps = [rand_type(rng, rng.choice([0, 1]), R_ATOMS_WIDE[:4], False, False, gn) for _ in range(n)]
        ret = rand_type(rng, 1, R_ATOMS_WIDE[:4], False, False, [])
        nreq = rng.randint(0, n) if as_func else n
        callee = FUNC(None, ps, nreq, ret) if as_func else CALL(ps, ret)
        args = [p if rng.random() < 0.8 else rand_type(rng, 1, S_ATOMS, True, False, gn[:1]) for p in ps]
        m = rng.random()
        if m < 0.2 and args: args.pop()
        elif m < 0.35: args.append(rng.choice([I, S]))
        call_cases.append((callee, args))
    cprogs = []
    for callee, args in call_cases:
        w = Wrapper()
        try:
            ce = w.expr(callee)
            aes = [w.expr(a) for a in args]
        except NoExpr:
            continue
        params = ", ".join(f"{n}: {src(t)}" for n, t in w.params)
        if callee[0] == "x":
            body = f"let fv = {ce}; let v = fv({', '.join(aes)}); 0"
        else:
            body = f"let v = {ce}({', '.join(aes)}); 0"
        wg = sorted({g for _, t in w.params for g in generics_of(t)})
        gsig = ("<" + ", ".join(wg) + ">") if wg else ""
        cprogs.append((callee, args, PRELUDE + "".join(w.helpers) + f"fn w{gsig}({params})->int{{ {body} }}\n"))
    resps = run_harness([{"op": "run", "src": p, "compile_only": True} for _, _, p in cprogs], per_req_timeout=20.0)
    mres = run_model([(f"ty call {tstr(c)} " + " ".join(tstr(a) for a in args)).strip() for c, args, _ in cprogs])
    for (callee, args, p), resp, gm in zip(cprogs, resps, mres):
        chk.evaluations += 1
        ps = callee[1] if callee[0] == "k" else callee[2]
        lo = len(ps) if callee[0] == "k" else callee[3]
        env = Oracle.assign_all(list(zip(ps, args)))
        # the parameter types of a function-typed value are fixed: nothing may be bound (generics there are rigid)
        want = lo <= len(args) <= len(ps) and env is not None and (callee[0] == "x" or not env)
        c = resp.get("compile")
        if c is None:
            chk.violation("lang:call:compiler-panic", f"compiler panicked on {p!r}: {json.dumps(resp)[:300]}", {"op": "run", "src": p, "compile_only": True})
            continue
        got = c == "ok"
        chk.count("lang:call:" + ("accept" if got else "reject"))
        replay = {"op": "run", "src": p, "compile_only": True}
        if got != want:
            chk.violation(f"lang:call:{'unsound-accept' if got else 'spurious-reject'}",
                          f"call of a {tstr(callee)} value with arguments {[tstr(a) for a in args]}: compiler "
                          f"{'accepts' if got else 'rejects [' + c.get('class', '?') + ']'}, exact arity and assignable arguments say "
                          f"{'accept' if want else 'reject'}: {p!r}", replay)
        elif gm.startswith("ok") != got or (not got and gm != "err " + c.get("class", "?")):
            chk.violation("tie:lang:call", f"model {gm} vs implementation {c}: {p!r}", dict(replay, model=gm), no_input=True)

    # ------------------------------------------------------------------ results of generic calls used in every position
    run_generic_calls(chk, rng, quick)

    # ------------------------------------------------------------------ witnesses of the repaired defects (regression replay)
    for key, srcp, want_ok in WITNESSES:
        resp = run_harness([{"op": "run", "src": srcp, "compile_only": True}])[0]
        got = resp.get("compile") == "ok"
        chk.evaluations += 1
        if got != want_ok:
            chk.violation(f"witness:{key}", f"witness program {srcp!r}: compiler {'accepts' if got else 'rejects'}, "
                          f"expected {'accept' if want_ok else 'reject'} ({json.dumps(resp)[:200]})", {"op": "run", "src": srcp, "compile_only": True})

    return chk.finish(rule="(required, supplied) type pairs over the universe closed under Sequence/Optional/Generator/Mapping/Set/tuple/"
                           "function types/structs and unions with 0-3 generic parameters/unknown/generic variables; "
                           "non-trivial = distinct (operation or position, required, supplied) where the supplied type contains unknown "
                           "or the required type contains a generic parameter",
                      extra_cov={"positions": POSITIONS})


def substitute(t, env):
    k = t[0]
    if k == "g": return env.get(t[1], t)
    if k == "t": return ("t", tuple(substitute(c, env) for c in t[1]))
    if k == "n": return ("n", t[1], tuple(substitute(c, env) for c in t[2]))
    if k == "c": return ("c", t[1], t[2], tuple(substitute(c, env) for c in t[3]))
    if k == "k": return ("k", tuple(substitute(c, env) for c in t[1]), substitute(t[2], env))
    return t


def rename(t, ren):
    k = t[0]
    if k == "g": return ("g", ren.get(t[1], t[1]))
    if k == "t": return ("t", tuple(rename(c, ren) for c in t[1]))
    if k == "n": return ("n", t[1], tuple(rename(c, ren) for c in t[2]))
    if k == "c": return ("c", t[1], t[2], tuple(rename(c, ren) for c in t[3]))
    if k == "k": return ("k", tuple(rename(c, ren) for c in t[1]), rename(t[2], ren))
    if k == "x": return ("x", t[1], tuple(rename(c, ren) for c in t[2]), t[3], rename(t[4], ren))
    return t


WITNESSES = [
    ("callable-arg-type", 'fn ap(f:(int)->(int))->int{f("a")}', False),
    ("callable-arg-count", 'fn ap(f:(int)->(int))->int{f(1,2)}', False),
    ("callable-callable-arity", 'fn ap(f:(int)->(int))->int{f(1)} fn ap2(g:(int,int)->(int))->int{ap(g)}', False),
    ("func-value-arity", 'let f = (x:int)->{x}; let r = f();', False),
    ("default-type", 'fn f(x:int ?= "a")->int{x}', False),
    ("func-eq-ret", 'fn f(x:int)->int{x} fn g(x:int)->str{"a"} let r = [f,g];', False),
    ("func-eq-optional", 'fn g(x:int, y:int ?= 2)->int{x} fn h(cb:(int,int)->(int))->int{[g,cb][1](1)}', False),
    ("variant-unbound-generic", 'union Label<T>(named: str, id: T)  let l: Label<int> = Label::named("hello");', True),
    ("struct-field-join-bad", 'struct P<T>(x:T, y:T) let q: P<Optional<str>> = P(none(), some(1));', False),
    ("struct-field-join-good", 'struct P<T>(x:T, y:T) let q: P<Optional<int>> = P(none(), some(1));', True),
    ("compound-common-order", 'struct P<T,U>(x:T,y:U) let a = [P(none(), [1]), P(some(1), [])]; '
     'let r: Sequence<P<Optional<int>,Sequence<int>>> = a;', True),
    # (repaired) a generic parameter matched only against the bottom type is unknown in the inferred return type
    ("generic-call-unknown-arg", 'let g: Generator<int> = [].to_generator();', True),
    ("generic-call-unknown-arg-2", 'let o: Optional<Sequence<str>> = some(error("x"));', True),
    ("generic-call-recursive", 'fn f<T>(x: T, n: int)->Sequence<T>{ (n == 0).if([x], f(x, n-1)) } let r: Sequence<int> = f(1, 2);', True),
    ("callable-rigid-generic", 'fn ap<T,U>(x:T, f:(U)->(int))->int{f(x)}', False),
    ("callable-rigid-generic-ok", 'fn ap<T>(x:T, f:(T)->(int))->int{f(x)} let r = ap("s", (a: str)->{1});', True),
    ("resolve-inside-function-type", 'fn mk<T>(x:T)->(T)->(T){ (y:T)->{y} } let f: (int)->(int) = mk(1);', True),
    ("book-apply-twice", 'fn apply_twice(f: (int) -> (int), x: int) -> int { f(f(x)) } fn add_one(x: int) -> int { x + 1 } '
     'let x = apply_twice(add_one, 10);', True),
]


def replay(path):
    d = json.load(open(path))
    r = d["replay"]
    req = r.get("harness") or {k: v for k, v in r.items() if k in ("op", "src", "compile_only", "prelude", "cases")}
    resp = run_harness([req])[0]
    print(json.dumps({"request": req, "response": resp, "expected": r.get("expected")}, indent=1))
    return 0
