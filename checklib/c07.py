"""C07 — Tail-call optimisation is semantically transparent.
Proofs: lean/Props/C07.lean over lean/XrayModel/Core.lean.
Tie: recursive functions with the self-call in every syntactic position (tail through if / if_error / and / or,
argument position, under an operator, inside a lambda, via an alias), iteration counts 0 … 10^5, with and
without depth / recursion limits, on the implementation, the Lean model and the Python reference evaluator; the
tail variants are additionally compared with the *non-optimised* reference (oracle with tco off)."""
from .common import *
from . import coregen as cg
from .corecheck import Case, three_way, replay_file

I = lambda n: ('i', n)
V = lambda x: ('v', x)
C = lambda f, *a: ('c', f, list(a))



# the documented carriers of the tail slot outside the core model: (name, function text, closed form of t(n, 0))
CARRIERS = [
    ("cast", "fn t(n: int, acc: int)->int{ if(n == 0, acc, cast<int>(t(n - 1, acc + n))) }", lambda n: f"(int S {n * (n + 1) // 2})"),
    ("tuple-and", "fn t(n: int, acc: int)->int{ if(n == 0, acc, ().and(t(n - 1, acc + n))) }", lambda n: f"(int S {n * (n + 1) // 2})"),
    ("optional-or", "fn t(n: int, acc: int)->int{ if(n == 0, acc, none().or(t(n - 1, acc + n))) }", lambda n: f"(int S {n * (n + 1) // 2})"),
    ("optional-map_or", "fn t(n: int, acc: int)->int{ if(n == 0, acc, none().map_or((x: int)->{x}, t(n - 1, acc + n))) }", lambda n: f"(int S {n * (n + 1) // 2})"),
    ("optional-and", "fn t(n: int, acc: int)->Optional<int>{ if(n == 0, some(acc), some(0).and(t(n - 1, acc + n))) }", lambda n: f"(some (int S {n * (n + 1) // 2}))"),
    ("optional-or-operator", "fn t(n: int, acc: int)->int{ if(n == 0, acc, none() || t(n - 1, acc + n)) }", lambda n: f"(int S {n * (n + 1) // 2})"),
    ("optional-and-operator", "fn t(n: int, acc: int)->Optional<int>{ if(n == 0, some(acc), some(0) && t(n - 1, acc + n)) }", lambda n: f"(some (int S {n * (n + 1) // 2}))"),
    ("if_error-specific", 'fn t(n: int, acc: int)->int{ if(n == 0, acc, if_error(error("boom"), "boo", t(n - 1, acc + n))) }', lambda n: f"(int S {n * (n + 1) // 2})"),
]

def templates():
    """(name, is_tail, decls builder taking n) — f(n, acc) counts n down accumulating acc+n"""
    base = C('eq', V('n'), I(0))
    step = lambda call: call
    rec = C('f', C('sub', V('n'), I(1)), C('add', V('acc'), V('n')))
    P = [('n', 'int', None), ('acc', 'int', None)]
    t = []
    t.append(("if-else", True, ('fn', 'f', P, 'int', [], C('if', base, V('acc'), rec))))
    t.append(("if-then", True, ('fn', 'f', P, 'int', [], C('if', C('ne', V('n'), I(0)), rec, V('acc')))))
    t.append(("nested-if", True, ('fn', 'f', P, 'int', [], C('if', base, V('acc'), C('if', C('lt', V('n'), I(0)), I(-1), rec)))))
    t.append(("if_error-alt", True, ('fn', 'f', P, 'int', [], C('if', base, V('acc'), C('if_error', C('err_int', ('s', 'x')), rec)))))
    # bool-valued: and / or
    Pb = [('n', 'int', None)]
    recb = C('g', C('sub', V('n'), I(1)))
    t.append(("or", True, ('fn', 'g', Pb, 'bool', [], C('or', C('eq', V('n'), I(0)), recb)), 'g'))
    t.append(("and", True, ('fn', 'g', Pb, 'bool', [], C('and', C('ne', V('n'), I(0)), recb)), 'g'))
    # non-tail positions
    t.append(("under-operator-right", False, ('fn', 'f', P, 'int', [], C('if', base, V('acc'), C('add', I(0), rec)))))
    t.append(("under-operator-left", False, ('fn', 'f', P, 'int', [], C('if', base, V('acc'), C('add', rec, I(0))))))
    t.append(("argument-of-user-fn", False, ('fn', 'f', P, 'int', [], C('if', base, V('acc'), C('idf', rec)))))
    t.append(("if-condition", False, ('fn', 'f', P, 'int', [], C('if', base, V('acc'), C('if', C('ge', rec, I(0)), C('add', V('acc'), C('mul', V('n'), C('add', V('n'), I(1)))), I(-1))))))
    t.append(("inside-lambda", False, ('fn', 'f', P, 'int', [], C('if', base, V('acc'), ('ce', ('lam', [], [], rec, 'int'), [])))))
    t.append(("via-alias", False, ('fn', 'f', P, 'int', [('let', 'h', V('f'), None)], C('if', base, V('acc'), C('h', C('sub', V('n'), I(1)), C('add', V('acc'), V('n')))))))
    t.append(("if_error-first", False, ('fn', 'f', P, 'int', [], C('if', base, V('acc'), C('if_error', rec, I(-1))))))
    t.append(("display-of", False, ('fn', 'f', P, 'int', [], C('if', base, V('acc'), C('neg', C('neg', rec))))))
    # optional parameters: a tail self-call that omits a defaulted parameter gets the DEFAULT again in the next
    # iteration (as an ordinary call would), whatever the outer caller or an earlier iteration passed
    Pd = [('n', 'int', None), ('acc', 'int', None), ('bonus', 'int', I(100))]
    recd = C('tdd', C('sub', V('n'), I(1)), C('add', V('acc'), V('n')))
    t.append(("default-omitted", True, ('fn', 'tdd', Pd, 'int', [], C('if', base, C('add', V('acc'), V('bonus')), recd)), 'tdd',
              lambda n: C('tdd', I(n), I(0), I(7))))
    t.append(("default-omitted-nontail", False, ('fn', 'tdd', Pd, 'int', [], C('if', base, C('add', V('acc'), V('bonus')), C('add', I(0), recd))), 'tdd',
              lambda n: C('tdd', I(n), I(0), I(7))))
    # the defaulted parameter is passed explicitly by every second iteration only
    rece = C('tde', C('sub', V('n'), I(1)), C('add', V('acc'), V('bonus')), C('add', V('bonus'), I(1)))
    recf = C('tde', C('sub', V('n'), I(1)), C('add', V('acc'), V('bonus')))
    Pe = [('n', 'int', None), ('acc', 'int', None), ('bonus', 'int', I(1000))]
    t.append(("default-alternating", True, ('fn', 'tde', Pe, 'int', [], C('if', base, V('acc'), C('if', C('eq', C('mod', V('n'), I(2)), I(0)), rece, recf))), 'tde',
              lambda n: C('tde', I(n), I(0))))
    # error-valued arguments of a tail self-call: an ordinary call with an erroring argument IS that error (leftmost
    # first), also when the next iteration would return without ever touching that parameter
    E = lambda m: C('err_int', ('s', m))
    t.append(("error-arg-unused", True, ('fn', 'f', P, 'int', [], C('if', base, I(7), C('f', C('sub', V('n'), I(1)), E('boom'))))))
    t.append(("error-arg-unused-nontail", False, ('fn', 'f', P, 'int', [], C('if', base, I(7), C('add', I(0), C('f', C('sub', V('n'), I(1)), E('boom')))))))
    t.append(("error-arg-first", True, ('fn', 'f', P, 'int', [], C('if', C('eq', V('acc'), I(99)), I(7), C('f', E('e1'), I(99))))))
    t.append(("error-arg-at-iteration-3", True, ('fn', 'f', P, 'int', [],
              C('if', base, I(7), C('f', C('sub', V('n'), I(1)), C('if', C('eq', V('n'), I(3)), E('at3'), C('add', V('acc'), V('n'))))))))
    P3 = [('n', 'int', None), ('acc', 'int', None), ('k', 'int', None)]
    t.append(("error-args-leftmost", True, ('fn', 'te', P3, 'int', [],
              C('if', C('eq', V('k'), I(0)), I(7), C('te', E('L'), E('R'), C('sub', V('k'), I(1))))), 'te',
              lambda n: C('te', I(1), I(2), I(n))))
    t.append(("error-arg-defaulted", True, ('fn', 'tdx', Pd, 'int', [],
              C('if', base, I(7), C('tdx', C('sub', V('n'), I(1)), V('acc'), E('dflt')))), 'tdx',
              lambda n: C('tdx', I(n), I(0))))
    return t


def build(tmpl, n):
    name, is_tail, fn = tmpl[0], tmpl[1], tmpl[2]
    gname = tmpl[3] if len(tmpl) > 3 else 'f'
    idf = ('fn', 'idf', [('x', 'int', None)], 'int', [], V('x'))
    if len(tmpl) > 4:
        call = tmpl[4](n)
    else:
        call = C('g', I(n)) if gname == 'g' else C('f', I(n), I(0))
    return cg.ERR_PRELUDE + [idf, fn, ('let', 'r', call, None)]


def run(chk):
    rng = chk.rng
    quick = chk.tier == "quick"
    chk.trusted += [
        "checklib/coregen.py RefEval: independent Python evaluator of the documented semantics (oracle); with tco off it is the non-optimised reference",
        "theorems are about the named-level core model (XrayModel/Core.lean)",
    ]
    if not chk.prove():
        handle_broken(chk)
    cases = []
    counts_tail = [0, 1, 2, 3, 10, 100, 1000, 20000] + ([] if quick else [100000])
    counts_non = [0, 1, 2, 3, 10, 100, 1000] + ([] if quick else [3000])
    for tmpl in templates():
        name, is_tail = tmpl[0], tmpl[1]
        for n in (counts_tail if is_tail else counts_non):
            ds = build(tmpl, n)
            src = cg.Printer(None, sugar=False).program(ds)
            fuel = 40 * n + 100000
            # no limits: must equal the non-optimised reference semantics
            cases.append(Case(ds, f"{name}:nolimit", src=src, oracle_tco=is_tail, fuel=fuel))
            # a depth limit far smaller than the count: tail variants succeed, non-tail ones violate when n >= limit
            cases.append(Case(ds, f"{name}:depth8", depth=8, src=src, fuel=fuel))
            # recursion limit: only tail calls are bounded by it
            for rl in ([5, n, max(n - 1, 0)] if n <= 1000 else [n]):
                cases.append(Case(ds, f"{name}:rec", rec=rl, src=src, fuel=fuel))
            if n <= 100:
                cases.append(Case(ds, f"{name}:calls", calls=3, src=src, fuel=fuel))
    res = three_way(chk, cases, "c07", nontrivial=lambda c, ev: ev.max_rec > 0 or ev.max_depth > 2, per_req_timeout=60.0)
    # tco-vs-reference: for tail templates without limits the optimised result must equal the non-optimised oracle
    for tmpl in templates():
        if not tmpl[1]:
            continue
        for n in [0, 1, 5, 50, 500]:
            ds = build(tmpl, n)
            a = cg.RefEval(tco=True).run(ds)
            b = cg.RefEval(tco=False).run(ds)
            chk.evaluations += 1
            if a['vals'] != b['vals'] or a['out'] != b['out']:
                chk.violation(f"c07:oracle-self-check:{tmpl[0]}", "reference evaluator: tco on/off differ (oracle bug)", {"n": n})
    for c, ci, cm, co, ev in res[:2] + res[-1:]:
        chk.sample({"program": c.src, "limits": {"depth": c.depth, "rec": c.rec, "calls": c.calls}, "impl": ci})
    # ---- the other documented carriers of the tail slot (cast, tuple `and`, optional or / map_or / and, to_str of a str):
    #      outside the core model; implementation vs closed form, under a depth limit far below the iteration count
    carriers = CARRIERS
    creqs, cmeta = [], []
    for name, fn, want in carriers:
        for n in [0, 1, 2, 10, 1000] + ([] if quick else [50000]):
            for lim in ({}, {"depth": 8}, {"depth": 8, "recursion": n}, {"recursion": max(n - 1, 0)}):
                creqs.append({"op": "run", "src": fn + f"\nlet r = t({n}, 0);\n", "get": ["r"], "limits": lim})
                cmeta.append((name, n, lim, want(n)))
    for (name, n, lim, want), r in zip(cmeta, run_harness(creqs, per_req_timeout=60.0)):
        chk.evaluations += 1
        chk.count("c07:carrier:" + name)
        chk.nontrivial.add(("carrier", name, n, json.dumps(lim)))
        ci = cg.canon_impl(r, ["r"])
        expect_viol = "recursion" in lim and n > lim["recursion"]
        if expect_viol:
            ok = ci["outcome"] == "viol:MaximumRecursion"
        else:
            ok = ci["outcome"] == "ok" and r["vals"]["r"] == want
        if not ok:
            kind = ci["outcome"].split(" ")[0].replace(":", "-")
            chk.violation(f"c07:carrier:{name}:{kind if ci['outcome'] != 'ok' else 'wrong-value'}",
                          f"tail self-call through the documented carrier `{name}`, {n} iterations under limits {lim}: implementation {json.dumps(ci)[:300]}; "
                          f"expected {'MaximumRecursion' if expect_viol else want} (a tail call consumes no depth and is bounded by the recursion limit only)",
                          {"src": creqs[0]["src"] if False else fn + f"\nlet r = t({n}, 0);\n", "get": ["r"], "limits": lim, "expected": {"outcome": "viol:MaximumRecursion"} if expect_viol else {"outcome": "ok", "vals": {"r": cg.strip_tags(want)}, "out": []}})
    # random programs with tail-recursive helpers mixed in
    extra = []
    for i in range(60 if quick else 1500):
        g = cg.Gen(rng, max_depth=4)
        tm = rng.choice(templates())
        n = rng.choice([0, 1, 7, 40])
        ds = build(tm, n)[:-1] + g.program(rng.choice([2, 4]))
        extra.append(Case(ds + [build(tm, n)[-1]], "mixed", printer_rng=rng,
                          depth=rng.choice([None, None, 6, 30]), rec=rng.choice([None, None, 3, 50])))
    three_way(chk, extra, "c07", nontrivial=lambda c, ev: ev.max_rec > 0)
    return chk.finish(rule="recursive templates with the self-call in 23 syntactic positions / parameter shapes (13 tail, 10 non-tail, incl. defaulted parameters omitted by the tail call and error-valued arguments the next iteration never reads) x iteration counts 0..20000 (thorough 100000) "
                           "x {no limit, depth limit 8, recursion limits 5/n/n-1, call limit 3}, plus random programs with such helpers mixed in; "
                           "non-trivial = at least one tail iteration or call depth > 2; distinct by source text + limits")


def replay(path):
    return replay_file(path, "C07")
