"""Core-language program generator, printers (xray source, S-expression for the Lean model) and an
independent Python reference evaluator of the documented semantics (the oracle of C01-C03, C06-C08).

AST (python tuples):
  expr  : ('i', n) ('b', bool) ('s', word) ('v', name) ('c', fname, [args]) ('ce', fexpr, [args])
          ('lam', params, decls, body, ret_ty) ('tup', [es]) ('item', e, idx) ('arr', [es], elem_ty)
  param : (name, ty, default_expr_or_None)
  decl  : ('let', name, e, ty) | ('fn', name, params, ret_ty, decls, body)
  type  : 'int' | 'bool' | 'str' | ('tup', [tys]) | ('fn', [param tys], ret) | ('arr', ty)
"""
import sys

# ------------------------------------------------------------------------------------------------ printing

BINOPS = {  # fname -> (symbol, precedence level, right-assoc)
    'or': ('||', 1, False), 'and': ('&&', 1, False),
    'lt': ('<', 2, False), 'gt': ('>', 2, False), 'eq': ('==', 2, False), 'ne': ('!=', 2, False),
    'le': ('<=', 2, False), 'ge': ('>=', 2, False),
    'add': ('+', 4, False), 'sub': ('-', 4, False),
    'mul': ('*', 5, False), 'mod': ('%', 5, False),
}
UNOPS = {'neg': '-', 'not': '!'}


def ty_str(t):
    if isinstance(t, str):
        return t
    if t[0] == 'tup':
        return '(' + ', '.join(ty_str(x) for x in t[1]) + ')'
    if t[0] == 'fn':
        return '(' + ', '.join(ty_str(x) for x in t[1]) + ')->(' + ty_str(t[2]) + ')'
    if t[0] == 'arr':
        return 'Sequence<' + ty_str(t[1]) + '>'
    raise ValueError(t)


class Printer:
    """xray source text. `style(rng)` picks between infix / call / method sugar and minimal / redundant
    parentheses, so that the precedence table and the sugar are exercised (all spellings denote one AST)."""

    def __init__(self, rng=None, sugar=True):
        self.rng = rng
        self.sugar = sugar

    def pick(self, n):
        return self.rng.randrange(n) if (self.rng and self.sugar) else 0

    def expr(self, e, prec=0):
        k = e[0]
        if k == 'i':
            return str(e[1]) if e[1] >= 0 else f'(-{-e[1]})'
        if k == 'b':
            return 'true' if e[1] else 'false'
        if k == 's':
            return '"' + e[1].replace('_', ' ') + '"'
        if k == 'v':
            return e[1]
        if k == 'tup':
            return '(' + ', '.join(self.expr(x) for x in e[1]) + (',' if len(e[1]) == 1 else '') + ')'
        if k == 'arr':
            return '[' + ', '.join(self.expr(x) for x in e[1]) + ']'
        if k == 'item':
            return self.expr(e[1], 9) + f'::item{e[2]}'
        if k == 'lam':
            return '(' + self.params(e[1]) + ')->{' + self.decls(e[2]) + self.expr(e[3]) + '}'
        if k == 'ce':
            return self.expr(e[1], 9) + '(' + ', '.join(self.expr(a) for a in e[2]) + ')'
        if k == 'c':
            f, args = e[1], e[2]
            shown = f.split('@')[0]
            if shown in BINOPS and len(args) == 2:
                sym, lvl, right = BINOPS[shown]
                style = self.pick(6)
                if style <= 3:
                    lp, rp = (lvl + 1, lvl) if right else (lvl, lvl + 1)
                    s = self.expr(args[0], lp) + ' ' + sym + ' ' + self.expr(args[1], rp)
                    return '(' + s + ')' if (prec > lvl or style == 3) else s
                if style == 4:
                    return shown + '(' + self.expr(args[0]) + ', ' + self.expr(args[1]) + ')'
                return self.expr(args[0], 9) + '.' + shown + '(' + self.expr(args[1]) + ')'
            if shown in UNOPS and len(args) == 1:
                style = self.pick(3)
                if style <= 1:
                    s = UNOPS[shown] + self.expr(args[0], 8)
                    return '(' + s + ')' if prec > 7 else s
                return shown + '(' + self.expr(args[0]) + ')'
            if args and self.pick(4) == 3 and shown not in ('error',):
                return self.expr(args[0], 9) + '.' + shown + '(' + ', '.join(self.expr(a) for a in args[1:]) + ')'
            return shown + '(' + ', '.join(self.expr(a) for a in args) + ')'
        raise ValueError(e)

    def params(self, ps):
        out = []
        for (n, t, d) in ps:
            out.append(f'{n}: {ty_str(t)}' + (f' ?= {self.expr(d)}' if d is not None else ''))
        return ', '.join(out)

    def decls(self, ds):
        return ''.join(self.decl(d) for d in ds)

    def decl(self, d):
        if d[0] == 'let':
            ann = f': {ty_str(d[3])}' if (d[3] is not None and self.pick(3) == 1) else ''
            return f'let {d[1]}{ann} = {self.expr(d[2])};\n'
        if d[0] == 'fn':
            return f'fn {d[1].split("@")[0]}({self.params(d[2])})->{ty_str(d[3])}{{\n{self.decls(d[4])}{self.expr(d[5])}\n}}\n'
        if d[0] == 'raw':
            return d[1] + '\n'
        raise ValueError(d)

    def program(self, ds):
        return self.decls(ds)


def sexp_expr(e):
    k = e[0]
    if k == 'i':
        return f'(i {e[1]})'
    if k == 'b':
        return '(b true)' if e[1] else '(b false)'
    if k == 's':
        return f'(s {e[1]})' if e[1] else '(s)'
    if k == 'v':
        return f'(v {e[1]})'
    if k == 'c':
        return '(c ' + e[1] + ''.join(' ' + sexp_expr(a) for a in e[2]) + ')'
    if k == 'ce':
        return '(ce ' + sexp_expr(e[1]) + ''.join(' ' + sexp_expr(a) for a in e[2]) + ')'
    if k == 'lam':
        return '(lam (' + ' '.join(sexp_param(p) for p in e[1]) + ') (' + ' '.join(sexp_decl(d) for d in e[2]) + ') ' + sexp_expr(e[3]) + ')'
    if k == 'tup':
        return '(tup' + ''.join(' ' + sexp_expr(a) for a in e[1]) + ')'
    if k == 'arr':
        return '(arr' + ''.join(' ' + sexp_expr(a) for a in e[1]) + ')'
    if k == 'item':
        return f'(item {sexp_expr(e[1])} {e[2]})'
    raise ValueError(e)


def sexp_param(p):
    return f'(p {p[0]})' if p[2] is None else f'(pd {p[0]} {sexp_expr(p[2])})'


def sexp_decl(d):
    if d[0] == 'let':
        return f'(let {d[1]} {sexp_expr(d[2])})'
    if d[0] == 'fn':
        return f'(fn {d[1]} (' + ' '.join(sexp_param(p) for p in d[2]) + ') (' + ' '.join(sexp_decl(x) for x in d[4]) + ') ' + sexp_expr(d[5]) + ')'
    raise ValueError(d)


def sexp_program(ds):
    return '(prog ' + ' '.join(sexp_decl(d) for d in ds if d[0] != 'raw') + ')'


def model_line(ds, depth=None, calls=None, rec=None, tco=True, fuel=2000000):
    f = lambda x: '-' if x is None else str(x)
    return f'core run {f(depth)} {f(calls)} {f(rec)} {1 if tco else 0} {fuel} {sexp_program(ds)}'


# ------------------------------------------------------------------------------------------------ reference evaluator

class Violation(Exception):
    def __init__(self, kind):
        self.kind = kind


class XErr:
    """an error value of the language"""
    def __init__(self, msg):
        self.msg = msg


class Closure:
    def __init__(self, name, params, decls, body, env, dflts):
        self.name, self.params, self.decls, self.body, self.env, self.dflts = name, params, decls, body, env, dflts


class TailCall:
    def __init__(self, args):
        self.args = args


class Stuck(Exception):
    pass


STRICT = {'add', 'sub', 'mul', 'neg', 'mod', 'div_floor', 'lt', 'le', 'gt', 'ge', 'eq', 'ne', 'not', 'to_str', 'len', 'error'}


def py_to_str(v):
    if isinstance(v, bool):
        return 'true' if v else 'false'
    if isinstance(v, int):
        return str(v)
    if isinstance(v, str):
        return v
    raise Stuck('to_str')


def prim(f, a):
    f = f.split('@')[0]
    if f == 'add':
        return a[0] + a[1]
    if f == 'sub':
        return a[0] - a[1]
    if f == 'mul':
        return a[0] * a[1]
    if f == 'neg':
        return -a[0]
    if f == 'mod':
        return XErr('Modulo by zero') if a[1] == 0 else a[0] % a[1]
    if f == 'div_floor':
        return XErr('Division by zero') if a[1] == 0 else a[0] // a[1]
    if f == 'lt':
        return a[0] < a[1]
    if f == 'le':
        return a[0] <= a[1]
    if f == 'gt':
        return a[0] > a[1]
    if f == 'ge':
        return a[0] >= a[1]
    if f == 'eq':
        return a[0] == a[1]
    if f == 'ne':
        return a[0] != a[1]
    if f == 'not':
        return not a[0]
    if f == 'to_str':
        return py_to_str(a[0])
    if f == 'len':
        return len(a[0][1])
    if f == 'error':
        return XErr(a[0])
    raise Stuck('prim ' + f)


class RefEval:
    """Documented semantics: strict left-to-right evaluation, errors are values that propagate through every
    call / construction that does not handle them, violations abort; limits as the property C08 states them;
    a self-call in tail position (directly, or as the selected branch of if / and / or / if_error) is a tail call."""

    def __init__(self, depth=None, calls=None, rec=None, tco=True):
        self.depth_limit, self.call_limit, self.rec_limit, self.tco = depth, calls, rec, tco
        self.out = []
        self.calls = 0
        self.all_calls = 0
        self.max_depth = 0
        self.max_rec = 0
        self.evals = 0

    # env: dict chain as python list of (name, value) newest first
    def lookup(self, env, x):
        for (n, v) in env:
            if n == x:
                return v
        return None

    def eval_list(self, es, env, selfc, height):
        vs = []
        for e in es:
            v = self.eval(e, env, selfc, height, False)
            if isinstance(v, XErr):
                return v
            vs.append(v)
        return vs

    def mk_clos(self, name, params, decls, body, env, selfc, height):
        dflts = []
        for (n, t, d) in params:
            if d is not None:
                dflts.append(self.eval(d, env, selfc, height, False))
        cenv = list(env)
        if selfc is not None:
            cenv = cenv + [(selfc.name, selfc)]
        return Closure(name, params, decls, body, cenv, dflts)

    def eval(self, e, env, selfc, height, tail):
        self.evals += 1
        k = e[0]
        if k == 'i' or k == 'b':
            return e[1]
        if k == 's':
            return e[1].replace('_', ' ')
        if k == 'v':
            v = self.lookup(env, e[1])
            if v is None and selfc is not None and selfc.name == e[1]:
                v = selfc
            if v is None:
                raise Stuck('unbound ' + e[1])
            return v
        if k == 'tup':
            vs = self.eval_list(e[1], env, selfc, height)
            return vs if isinstance(vs, XErr) else ('tup', vs)
        if k == 'arr':
            vs = self.eval_list(e[1], env, selfc, height)
            return vs if isinstance(vs, XErr) else ('arr', vs)
        if k == 'item':
            v = self.eval(e[1], env, selfc, height, False)
            if isinstance(v, XErr):
                return v
            return v[1][e[2]]
        if k == 'lam':
            return self.mk_clos(None, e[1], e[2], e[3], env, selfc, height)
        if k == 'ce':
            c = self.eval(e[1], env, selfc, height, False)
            if isinstance(c, XErr):
                return c
            return self.call_val(c, e[2], env, selfc, height)
        if k == 'c':
            f, args = e[1], e[2]
            if selfc is not None and f == selfc.name and self.lookup(env, f) is None:
                if tail and self.tco:
                    vs = self.eval_list(args, env, selfc, height)
                    return vs if isinstance(vs, XErr) else TailCall(vs)
                return self.call_val(selfc, args, env, selfc, height)
            c = self.lookup(env, f)
            if c is not None:
                return self.call_val(c, args, env, selfc, height)
            return self.builtin(f, args, env, selfc, height, tail)
        raise Stuck('expr')

    def call_val(self, c, args, env, selfc, height):
        if not isinstance(c, Closure):
            raise Stuck('call of non-function')
        vs = self.eval_list(args, env, selfc, height)
        if isinstance(vs, XErr):
            return vs
        return self.call_user(c, vs, height)

    def call_user(self, c, args, height):
        self.all_calls += 1
        if self.call_limit is not None:
            self.calls += 1
            if self.calls >= self.call_limit:
                raise Violation('MaximumUDCall')
        rec = 0
        while True:
            h = height + 1
            self.max_depth = max(self.max_depth, h)
            if self.depth_limit is not None and h >= self.depth_limit:
                raise Violation('MaximumStackDepth')
            env = list(c.env)
            di = 0
            ai = 0
            ndef = sum(1 for p in c.params if p[2] is not None)
            nreq = len(c.params) - ndef
            for idx, (n, t, d) in enumerate(c.params):
                if idx < len(args):
                    env.insert(0, (n, args[idx]))
                else:
                    env.insert(0, (n, c.dflts[idx - nreq]))
            env = self.eval_decls(c.decls, env, c, h)
            r = self.eval(c.body, env, c, h, True)
            if isinstance(r, TailCall):
                rec += 1
                self.max_rec = max(self.max_rec, rec)
                if self.rec_limit is not None and rec > self.rec_limit:
                    raise Violation('MaximumRecursion')
                args = r.args
                continue
            return r

    def eval_decls(self, decls, env, selfc, height):
        for d in decls:
            if d[0] == 'let':
                v = self.eval(d[2], env, selfc, height, False)
                env = [(d[1], v)] + env
            elif d[0] == 'fn':
                c = self.mk_clos(d[1], d[2], d[4], d[5], env, selfc, height)
                env = [(d[1], c)] + env
        return env

    def builtin(self, f, args, env, selfc, height, tail):
        ev = lambda e, t=False: self.eval(e, env, selfc, height, t)
        if f == 'if':
            c = ev(args[0])
            if isinstance(c, XErr):
                return c
            return ev(args[1] if c else args[2], tail)
        if f == 'and':
            a = ev(args[0])
            if isinstance(a, XErr):
                return a
            return ev(args[1], tail) if a else False
        if f == 'or':
            a = ev(args[0])
            if isinstance(a, XErr):
                return a
            return True if a else ev(args[1], tail)
        if f == 'if_error':
            a = ev(args[0])
            return ev(args[1], tail) if isinstance(a, XErr) else a
        if f == 'is_error':
            return isinstance(ev(args[0]), XErr)
        if f == 'display':
            a = ev(args[0])
            if isinstance(a, XErr):
                return a
            self.out.append(py_to_str(a))
            return a
        if f.split('@')[0] in STRICT:
            vs = self.eval_list(args, env, selfc, height)
            if isinstance(vs, XErr):
                return vs
            return prim(f, vs)
        raise Stuck('unknown function ' + f)

    def run_host(self, decls, host_calls):
        """instantiate, then a history of host actions on the same runtime: ('call', fname) | ('reset',).
        Returns (instantiation result dict, [per-call dump or 'viol:K'])"""
        sys.setrecursionlimit(100000)
        try:
            env = self.eval_decls([d for d in decls if d[0] != 'raw'], [], None, 0)
        except Violation as v:
            return {'outcome': 'viol:' + v.kind}, []
        outs = []
        for h in host_calls:
            if h[0] == 'reset':
                self.calls = 0
                continue
            c = self.lookup(env, h[1])
            try:
                outs.append(dump(self.call_user(c, [], 0)))
            except Violation as v:
                outs.append('!viol ' + v.kind)
        return {'outcome': 'ok'}, outs

    def run(self, decls):
        """returns dict(outcome, vals{name: dump}, out[list], calls, max_depth, max_rec)"""
        sys.setrecursionlimit(100000)
        env = []
        res = {'outcome': 'ok'}
        try:
            env = self.eval_decls([d for d in decls if d[0] != 'raw'], [], None, 0)
        except Violation as v:
            res['outcome'] = 'viol:' + v.kind
        res['vals'] = {n: dump(v) for (n, v) in reversed(env)}
        res['out'] = list(self.out)
        res['calls'] = self.calls
        res['all_calls'] = self.all_calls
        res['max_depth'] = self.max_depth
        res['max_rec'] = self.max_rec
        return res


def dump(v):
    if isinstance(v, bool):
        return '(bool true)' if v else '(bool false)'
    if isinstance(v, int):
        return f'(int {v})'
    if isinstance(v, str):
        return '(str "' + v + '")'
    if isinstance(v, XErr):
        return '(error "' + v.msg + '")'
    if isinstance(v, Closure):
        return '(fn)'
    if isinstance(v, tuple) and v[0] == 'tup':
        return '(struct' + ''.join(' ' + dump(x) for x in v[1]) + ')'
    if isinstance(v, tuple) and v[0] == 'arr':
        return '(seq' + ''.join(' ' + dump(x) for x in v[1]) + ')'
    raise ValueError(v)


# ------------------------------------------------------------------------------------------------ generator

class Gen:
    """Type-directed generator of well-typed core programs. All randomness from `rng`."""

    def __init__(self, rng, max_depth=4, allow_display=True, allow_errors=True, allow_lambdas=True, err_rate=0.0):
        self.rng = rng
        self.err_rate = err_rate
        self.max_depth = max_depth
        self.n = 0
        self.allow_display = allow_display
        self.allow_errors = allow_errors
        self.allow_lambdas = allow_lambdas
        self.err_n = 0

    def fresh(self, prefix):
        self.n += 1
        return f'{prefix}{self.n}'

    def rand_type(self, depth=0, allow_fn=True):
        r = self.rng.random()
        if r < 0.45:
            return 'int'
        if r < 0.65:
            return 'bool'
        if r < 0.78:
            return 'str'
        if r < 0.9 and depth < 2:
            return ('tup', [self.rand_type(depth + 1, False) for _ in range(self.rng.choice([1, 2, 2, 3]))])
        if allow_fn and depth < 1:
            return ('fn', [self.rand_type(depth + 1, False) for _ in range(self.rng.choice([0, 1, 1, 2]))], self.rand_type(depth + 1, False))
        return 'int'

    def lit(self, ty):
        rng = self.rng
        if ty == 'int':
            return ('i', rng.choice([0, 1, 2, 3, 5, 7, 10, -1, -4, 100, 2**31, 2**63 - 1, 2**63, -2**63, 2**64 + 3, 12345678901234567890123]))
        if ty == 'bool':
            return ('b', rng.random() < 0.5)
        if ty == 'str':
            return ('s', rng.choice(['', 'a', 'ab', 'x_y', 'hello', 'q1']))
        if ty[0] == 'tup':
            return ('tup', [self.lit(t) for t in ty[1]])
        if ty[0] == 'arr':
            return ('arr', [self.lit(ty[1]) for _ in range(rng.choice([0, 1, 2, 3]))], ty[1])
        if ty[0] == 'fn':
            ps = [(self.fresh('p'), t, None) for t in ty[1]]
            return ('lam', ps, [], self.lit(ty[2]), ty[2])
        raise ValueError(ty)

    def vars_of(self, env, ty):
        return [n for (n, t) in env if t == ty]

    def fns_returning(self, env, ty):
        return [(n, t) for (n, t) in env if isinstance(t, tuple) and t[0] == 'fn' and t[2] == ty]

    def expr(self, ty, env, depth):
        rng = self.rng
        if self.err_rate and ty in ('int', 'bool', 'str') and depth > 0 and rng.random() < self.err_rate:
            # an error value of a known type with a unique message (helper functions of ERR_PRELUDE)
            self.err_n += 1
            return ('c', 'err_' + ty, [('s', f'e{self.err_n}')])
        if depth >= self.max_depth or rng.random() < 0.12:
            vs = self.vars_of(env, ty)
            if vs and rng.random() < 0.7:
                return ('v', rng.choice(vs))
            return self.lit(ty)
        choices = []
        vs = self.vars_of(env, ty)
        if vs:
            choices += ['var'] * 3
        fs = self.fns_returning(env, ty)
        if fs:
            choices += ['callfn'] * 4
        choices += ['if', 'if']
        if self.allow_errors:
            choices += ['if_error']
        if self.allow_display and ty in ('int', 'bool', 'str'):
            choices += ['display']
        tups = [(n, t) for (n, t) in env if isinstance(t, tuple) and t[0] == 'tup' and ty in t[1]]
        if tups:
            choices += ['item'] * 2
        if depth < self.max_depth - 1:
            choices += ['item-expr']
        if ty == 'int':
            choices += ['arith'] * 5 + ['neg', 'len']
        elif ty == 'bool':
            choices += ['cmp'] * 3 + ['logic'] * 3 + ['not', 'beq']
            if self.allow_errors:
                choices += ['is_error']
        elif ty == 'str':
            choices += ['concat'] * 2 + ['to_str'] * 2
        elif ty[0] == 'tup':
            choices += ['tup'] * 4
        elif ty[0] == 'fn':
            choices += ['lam'] * 4
        if self.allow_lambdas and depth < self.max_depth - 1:
            choices += ['iife']
        c = rng.choice(choices)
        d = depth + 1
        if c == 'var':
            return ('v', rng.choice(vs))
        if c == 'callfn':
            n, t = rng.choice(fs)
            return ('c', n, [self.expr(pt, env, d) for pt in t[1]])
        if c == 'if':
            return ('c', 'if', [self.expr('bool', env, d), self.expr(ty, env, d), self.expr(ty, env, d)])
        if c == 'if_error':
            return ('c', 'if_error', [self.maybe_err(ty, env, d), self.expr(ty, env, d)])
        if c == 'display':
            return ('c', 'display', [self.expr(ty, env, d)])
        if c == 'item':
            n, t = rng.choice(tups)
            idx = rng.choice([i for i, x in enumerate(t[1]) if x == ty])
            return ('item', ('v', n), idx)
        if c == 'item-expr':
            # member access on an arbitrary tuple-valued expression (a literal aggregate, a call, an if …)
            k = rng.choice([1, 2, 3])
            idx = rng.randrange(k)
            tys = [ty if i == idx else self.rand_type(2, False) for i in range(k)]
            tt = ('tup', tys)
            te = ('tup', [self.expr(t, env, d) for t in tys]) if rng.random() < 0.7 else self.expr(tt, env, d)
            return ('item', te, idx)
        if c == 'arith':
            op = rng.choice(['add', 'sub', 'mul', 'mod', 'add', 'sub'])
            return ('c', op, [self.expr('int', env, d), self.expr('int', env, d)])
        if c == 'neg':
            return ('c', 'neg', [self.expr('int', env, d)])
        if c == 'len':
            et = rng.choice(['int', 'bool'])
            return ('c', 'len', [('arr', [self.expr(et, env, d + 1) for _ in range(rng.choice([1, 2, 3]))], et)])
        if c == 'cmp':
            return ('c', rng.choice(['lt', 'le', 'gt', 'ge', 'eq', 'ne']), [self.expr('int', env, d), self.expr('int', env, d)])
        if c == 'logic':
            return ('c', rng.choice(['and', 'or']), [self.expr('bool', env, d), self.expr('bool', env, d)])
        if c == 'not':
            return ('c', 'not', [self.expr('bool', env, d)])
        if c == 'beq':
            t = rng.choice(['bool', 'str'])
            return ('c', 'eq', [self.expr(t, env, d), self.expr(t, env, d)])
        if c == 'is_error':
            t = rng.choice(['int', 'bool', 'str'])
            return ('c', 'is_error', [self.maybe_err(t, env, d)])
        if c == 'concat':
            return ('c', 'add', [self.expr('str', env, d), self.expr('str', env, d)])
        if c == 'to_str':
            return ('c', 'to_str', [self.expr(rng.choice(['int', 'bool']), env, d)])
        if c == 'tup':
            return ('tup', [self.expr(t, env, d) for t in ty[1]])
        if c == 'lam':
            return self.lam(ty, env, d)
        if c == 'iife':
            pts = [self.rand_type(1, False) for _ in range(rng.choice([0, 1, 2]))]
            l = self.lam(('fn', pts, ty), env, d)
            return ('ce', l, [self.expr(t, env, d) for t in pts])
        raise ValueError(c)

    def maybe_err(self, ty, env, d):
        """an expression of type ty that may evaluate to an error value"""
        r = self.rng.random()
        if r < 0.35:
            self.err_n += 1
            return ('c', 'error', [('s', f'e{self.err_n}')])
        if r < 0.55 and ty == 'int':
            return ('c', 'mod', [self.expr('int', env, d), ('i', 0)])
        return self.expr(ty, env, d)

    def lam(self, fty, env, d, with_defaults=False):
        ps = []
        inner = list(env)
        for t in fty[1]:
            n = self.fresh('p')
            ps.append((n, t, None))
            inner.insert(0, (n, t))
        decls = []
        if self.rng.random() < 0.3:
            t = self.rand_type(1, False)
            n = self.fresh('l')
            decls.append(('let', n, self.expr(t, inner, d + 1), t))
            inner.insert(0, (n, t))
        return ('lam', ps, decls, self.expr(fty[2], inner, d + 1), fty[2])

    def fn_decl(self, env, depth, name=None, nested=True):
        rng = self.rng
        name = name or self.fresh('f')
        nreq = rng.choice([0, 1, 1, 2])
        nopt = rng.choice([0, 0, 0, 1])
        ps = []
        inner = list(env)
        for _ in range(nreq):
            t = self.rand_type(1, True)
            n = self.fresh('p')
            ps.append((n, t, None))
            inner.insert(0, (n, t))
        for _ in range(nopt):
            t = rng.choice(['int', 'bool', 'str'])
            n = self.fresh('p')
            # default evaluated once, in the defining scope
            dflt = self.expr(t, env, self.max_depth - 1)
            if self.allow_display and rng.random() < 0.5:
                dflt = ('c', 'display', [dflt])
            ps.append((n, t, dflt))
            inner.insert(0, (n, t))
        ret = self.rand_type(1, False)
        decls = []
        for _ in range(rng.choice([0, 0, 1, 2])):
            if nested and depth < 2 and rng.random() < 0.35:
                fd = self.fn_decl(inner, depth + 1)
                decls.append(fd)
                if all(p[2] is None for p in fd[2]):
                    inner.insert(0, (fd[1], ('fn', [p[1] for p in fd[2]], fd[3])))
                else:
                    inner.insert(0, (fd[1], ('fn', [p[1] for p in fd[2]], fd[3], 'named')))
            else:
                t = self.rand_type(1, True)
                n = self.fresh('l')
                decls.append(('let', n, self.expr(t, inner, 1), t))
                inner.insert(0, (n, t))
        body = self.expr(ret, inner, 1)
        return ('fn', name, ps, ret, decls, body)

    def program(self, n_decls=8):
        env = []
        ds = []
        for _ in range(n_decls):
            if self.rng.random() < 0.35:
                fd = self.fn_decl(env, 0)
                ds.append(fd)
                # callers may omit trailing optional params: register the required-only signature
                req = [p[1] for p in fd[2] if p[2] is None]
                if len(req) == len(fd[2]):
                    env.insert(0, (fd[1], ('fn', req, fd[3])))
                else:
                    # a function with optional parameters is only ever *called* by name (its function type
                    # with optional parameters is not a type the generator asks for): 4-tuple marks it
                    env.insert(0, (fd[1], ('fn', req if self.rng.random() < 0.5 else [p[1] for p in fd[2]], fd[3], 'named')))
            else:
                t = self.rand_type(0, True)
                n = self.fresh('x')
                e = self.expr(t, env, 0)
                ds.append(('let', n, e, t))
                env.insert(0, (n, t))
        return ds


ERR_PRELUDE = [
    ('fn', 'err_int', [('m', 'str', None)], 'int', [], ('c', 'error', [('v', 'm')])),
    ('fn', 'err_bool', [('m', 'str', None)], 'bool', [], ('c', 'error', [('v', 'm')])),
    ('fn', 'err_str', [('m', 'str', None)], 'str', [], ('c', 'error', [('v', 'm')])),
]


def strip_tags(d):
    """harness dump -> denotation-level dump: (int S 5) / (int L 5) -> (int 5)"""
    import re
    return re.sub(r'\(int [SL] ', '(int ', d)


# ------------------------------------------------------------------------------------------------ running a program three ways

def let_names(ds):
    return [d[1] for d in ds if d[0] == 'let']


def harness_req(ds, src, limits=None, extra=None):
    req = {"op": "run", "src": src, "get": let_names(ds)}
    if limits:
        req["limits"] = limits
    if extra:
        req.update(extra)
    return req


def canon_impl(r, names):
    """harness response -> canonical dict"""
    if "panic" in r:
        return {"outcome": "panic " + r["panic"]}
    if "abort" in r:
        return {"outcome": "abort " + str(r["abort"])}
    if "hang" in r:
        return {"outcome": "hang"}
    if r.get("compile") != "ok":
        c = r.get("compile")
        return {"outcome": "compile-err " + (c.get("class", "?") + ": " + c.get("msg", "")[:300] if isinstance(c, dict) else str(c))}
    out = [l for l in r.get("out", "").split("\n")]
    if out and out[-1] == "":
        out.pop()
    if r.get("inst") != "ok":
        return {"outcome": "viol:" + r["inst"]["viol"], "out": out}
    return {"outcome": "ok", "vals": {n: strip_tags(r["vals"][n]) for n in names}, "out": out, "calls": r.get("ud_calls1")}


def canon_model(line, names):
    parts = line.split(" ; ")
    res = {"outcome": parts[0]}
    vals = {}
    for p in parts[1:]:
        if p.startswith("out="):
            res["out"] = p[4:].split("|")[1:]
        elif p.startswith("calls="):
            res["calls"] = int(p[6:])
        elif "=" in p:
            k, v = p.split("=", 1)
            vals[k] = v
    if res["outcome"] == "ok":
        res["vals"] = {n: vals.get(n) for n in names}
    return res


def canon_oracle(r, names):
    res = {"outcome": r["outcome"], "out": r["out"]}
    if r["outcome"] == "ok":
        res["vals"] = {n: r["vals"].get(n) for n in names}
        res["calls"] = r["calls"]
    return res


def same(a, b, with_calls=False):
    if a.get("outcome") != b.get("outcome"):
        return False
    if a.get("out") != b.get("out"):
        return False
    if a["outcome"] == "ok" and a.get("vals") != b.get("vals"):
        return False
    if with_calls and a["outcome"] == "ok" and a.get("calls") != b.get("calls"):
        return False
    return True
