"""C13 — Floats are always finite.
Proofs: lean/Props/C13.lean over lean/XrayModel/FloatSites.lean and the table lean/Generated/FloatSites.lean that
translate/float_sites.py regenerates from /repo/src on every run (every expression that builds an XValue::Float).
Tie: (i) the compiled model (engine `fl`, Lean's IEEE `Float`) against the implementation on literals, negation and
+ - * / over the whole double range, with Python's float as independent oracle; (ii) every documented library function
that takes or returns floats (signatures read from /repo/book/src/std/*.md on every run) applied to arguments over the
whole double range and huge integers: every float in the recursive dump must be finite (or the value an error)."""
import math
import os
import re
import struct
import subprocess
import sys
from concurrent.futures import ThreadPoolExecutor
from .common import *
from .common import _resp_fail

TRANSLATOR = os.path.join(VERIF, "translate", "float_sites.py")
BOOK_STD = os.path.join(REPO, "book", "src", "std")


def translate():
    rc, out = sh([sys.executable, TRANSLATOR])
    if rc != 0:
        raise BuildError("float_sites.py failed:\n" + out[-3000:])


# --------------------------------------------------------------------------- floats <-> text / bits
def bits(x):
    return struct.unpack(">Q", struct.pack(">d", x))[0]


def hex16(x):
    return f"{bits(x):016x}"


def from_hex(h):
    return struct.unpack(">d", struct.pack(">Q", int(h, 16)))[0]


def flit(x):
    """xray source text of a finite double (exact: repr round-trips)"""
    s = repr(abs(x)).replace("e+", "e")
    if "." not in s and "e" not in s:
        s += ".0"
    if "e" in s and "." not in s.split("e")[0]:
        s = s.replace("e", ".0e")
    return f"(-{s})" if (x < 0 or (x == 0 and math.copysign(1, x) < 0)) else s


MAXF = 1.7976931348623157e308
FLOAT_EDGE = [0.0, -0.0, 5e-324, -5e-324, 2.2250738585072014e-308, 2.225073858507201e-308, 1e-320, 1e-300, 1e-17, 1e-8,
              0.5, 1.0, -1.0, 0.9999999999999999, 1.0000000000000002, -0.9999999999999999, 2.0, -2.0, 3.0, 10.0, 100.0, 0.1,
              1.5707963267948966, 3.141592653589793, -3.141592653589793, 6.283185307179586, 1e16, 9007199254740992.0, 1e22,
              170.0, 171.0, 171.7, 172.0, -170.5, -171.5, 709.0, 709.782712893384, 710.0, -745.0, -746.0, 1e100, 1e154, 1.4e154,
              1e155, 1e300, -1e300, 1e308, -1e308, MAXF, -MAXF, 8.98846567431158e307, 0.3, 1e-310, 36.0, 37.0, 1e5, -1e5,
              0.99, 0.01, 1e-5, 50.0, 1000.0]
INT_EDGE = ["0", "1", "(-1)", "2", "3", "10", "(-10)", "53", "170", "171", "1000", "1024", "100000", "2**53", "2**53+1", "2**63", "(-(2**63))", "2**64",
            "2**1023", "2**1024", "(-(2**1024))", "10**308", "10**309", "10**400", "(-(10**400))", "2**1024-1", "7"]


def rand_float(rng):
    r = rng.random()
    if r < 0.55:
        return rng.choice(FLOAT_EDGE)
    if r < 0.8:
        # uniformly random finite bit pattern
        while True:
            x = from_hex(f"{rng.getrandbits(64):016x}")
            if math.isfinite(x):
                return x
    if r < 0.9:
        x = rng.choice(FLOAT_EDGE) * rng.choice([1.0000000000000002, 0.9999999999999999, 2.0, 0.5, -1.0])
        return x if math.isfinite(x) else MAXF
    return rng.uniform(-10, 10)


# --------------------------------------------------------------------------- the documented signatures
SIG_RE = re.compile(r"^## (?:dyn )?fn `([A-Za-z_0-9]+)\s*(<[^>(]*>)?\s*\((.*)\)\s*->\s*(.+?)`")


def split_top(s, sep=","):
    out, depth, cur = [], 0, ""
    for ch in s:
        if ch in "(<[":
            depth += 1
        elif ch in ")>]":
            depth -= 1
        if ch == sep and depth == 0:
            out.append(cur)
            cur = ""
        else:
            cur += ch
    if cur.strip():
        out.append(cur)
    return [x.strip() for x in out]


def norm_type(t):
    t = t.strip().replace("Seqeunce", "Sequence")
    t = re.sub(r"\s+", "", t)
    return t


def read_signatures():
    sigs = []
    for f in sorted(os.listdir(BOOK_STD)):
        if not f.endswith(".md"):
            continue
        for line in open(os.path.join(BOOK_STD, f), errors="replace"):
            m = SIG_RE.match(line.strip())
            if not m:
                continue
            name, gen, params, ret = m.groups()
            ps = []
            ok = True
            for p in split_top(params):
                if ":" not in p:
                    ok = False
                    break
                pn, pt = p.split(":", 1)
                pt = pt.strip()
                opt = pt.endswith("?")
                ps.append((norm_type(pt.rstrip("?")), opt))
            if ok:
                sigs.append({"name": name, "generic": bool(gen), "params": ps, "ret": norm_type(ret), "doc": f})
    # the functions of the standard library that are written in xray itself, with their real signatures
    inc = open(os.path.join(REPO, "src", "builtin", "include.rs"), errors="replace").read()
    seen = {(s["name"], tuple(s["params"])) for s in sigs}
    for m in re.finditer(r"^fn ([A-Za-z_0-9]+)\s*(<[^>(]*>)?\s*\(([^{]*?)\)\s*->\s*([^{]+?)\s*\{", inc, re.M):
        name, gen, params, ret = m.groups()
        if name.startswith("__"):
            continue
        ps, ok = [], True
        for p in split_top(params):
            if ":" not in p:
                ok = False
                break
            pt = p.split(":", 1)[1]
            opt = "?=" in pt
            ps.append((norm_type(pt.split("?=")[0]), opt))
        if ok and (name, tuple(ps)) not in seen:
            seen.add((name, tuple(ps)))
            sigs.append({"name": name, "generic": bool(gen), "params": ps, "ret": norm_type(ret), "doc": "include.rs"})
    return sigs


FLOATISH = ("float", "Complex", "Duration", "Datetime", "JSON", "LinearRegression", "ContinuousDistribution", "DiscreteDistribution", "Matrix")


def mentions_float(t):
    return any(k in t for k in FLOATISH)


class ExprGen:
    def __init__(self, sigs, rng):
        self.rng = rng
        self.by_ret = {}
        for s in sigs:
            if not s["generic"]:
                self.by_ret.setdefault(s["ret"], []).append(s)

    def gen(self, t, depth=0):
        """an expression of type t, or None"""
        rng = self.rng
        if t == "float":
            return flit(rand_float(rng))
        if t == "int":
            return rng.choice(INT_EDGE) if rng.random() < 0.7 else str(rng.randint(-20, 200))
        if t == "bool":
            return rng.choice(["true", "false"])
        if t == "str":
            return rng.choice(["'e'", "'.3'", "''", "'10.2e'", "'x'", "'1e400'", "'[1e308, -1.5]'", "'{\"a\": 1e-400}'", "'1.7976931348623157e308'", "'NaN'", "'-Infinity'", "'1e999'"])
        if t == "()":
            return "()"
        m = re.fullmatch(r"(Sequence|Generator)<(.+)>", t)
        if m:
            n = rng.choice([1, 1, 2, 3, 5])
            items = [self.gen(m.group(2), depth + 1) for _ in range(n)]
            if any(i is None for i in items):
                return None
            if rng.random() < 0.3:
                items = [items[0]] * n
            s = "[" + ", ".join(items) + "]"
            return s + ".to_generator()" if m.group(1) == "Generator" else s
        if t.startswith("(") and t.endswith(")"):
            parts = [self.gen(p, depth + 1) for p in split_top(t[1:-1])]
            if any(p is None for p in parts):
                return None
            return "(" + ", ".join(parts) + ")"
        m = re.fullmatch(r"Optional<(.+)>", t)
        if m:
            inner = self.gen(m.group(1), depth + 1)
            return None if inner is None else f"some({inner})"
        # a documented function returning t
        if depth >= 2:
            cands = [s for s in self.by_ret.get(t, []) if all(p[0] in ("float", "int", "bool", "str") for p in s["params"])]
        else:
            cands = [s for s in self.by_ret.get(t, []) if not any(p[0] == t for p in s["params"])]
        if not cands:
            return None
        for _ in range(4):
            c = self.call(rng.choice(cands), depth + 1)
            if c is not None:
                return c
        return None

    def call(self, sig, depth=0):
        args = []
        for (pt, opt) in sig["params"]:
            if opt and self.rng.random() < 0.5:
                break
            a = self.gen(pt, depth)
            if a is None:
                return None
            args.append(a)
        e = f"{sig['name']}({', '.join(args)})"
        if sig["ret"].startswith("Generator<"):
            e += ".to_array()"
        return e



# --------------------------------------------------------------------------- evaluation with tight time bounds
def _one_proc(reqs, timeout):
    """run reqs in one harness process; -> list of responses (shorter than reqs if the child died / timed out)"""
    data = "".join(json.dumps(r) + "\n" for r in reqs)
    try:
        p = subprocess.run([HARNESS_BIN], input=data, stdout=subprocess.PIPE, stderr=subprocess.PIPE, text=True,
                           timeout=timeout, errors="replace")
        so = p.stdout
    except subprocess.TimeoutExpired as e:
        so = e.stdout or ""
        if isinstance(so, bytes):
            so = so.decode("utf-8", "replace")
    out = []
    for l in so.split("\n"):
        if not l.strip():
            continue
        try:
            out.append(json.loads(l))
        except Exception:
            break
    return out


def safe_eval(exprs, batch=40, batch_timeout=60.0, single_timeout=20.0, limits=None):
    """like common.eval_exprs, but a batch that hangs / dies / fails as a whole is re-run one expression per process
    with a short timeout, so that a non-terminating builtin costs seconds, not minutes.  -> dump | 'panic …' | 'hang' | …"""
    results = [None] * len(exprs)

    def mk(idx):
        req = {"op": "run", "src": "".join(f"let r{j} = {exprs[j]};\n" for j in idx), "get": [f"r{j}" for j in idx]}
        if limits:
            req["limits"] = limits
        return req

    batches = [list(range(i, min(i + batch, len(exprs)))) for i in range(0, len(exprs), batch)]

    def do_batch(b):
        r = _one_proc([mk(b)], batch_timeout)
        if r and _resp_fail(r[0]) is None:
            return {j: r[0]["vals"][f"r{j}"] for j in b}
        return None

    with ThreadPoolExecutor(max_workers=JOBS) as ex:
        done = list(ex.map(do_batch, batches))
    singles = []
    for b, d in zip(batches, done):
        if d is None:
            singles.extend(b)
        else:
            for j, v in d.items():
                results[j] = v

    def do_single(j):
        r = _one_proc([mk([j])], single_timeout)
        if not r:
            return "hang"
        f = _resp_fail(r[0])
        return f if f is not None else r[0]["vals"][f"r{j}"]

    with ThreadPoolExecutor(max_workers=JOBS) as ex:
        for j, v in zip(singles, ex.map(do_single, singles)):
            results[j] = v
    # a timeout may be the machine's load, not the builtin: once more, alone and with a generous limit
    for j in [j for j in singles if results[j] == "hang"][:3]:
        r = _one_proc([mk([j])], 60.0)
        if r:
            f = _resp_fail(r[0])
            results[j] = f if f is not None else r[0]["vals"][f"r{j}"]
    return results


FLOAT_TOK = re.compile(r"\(float ([0-9a-f]{16})\)")
STR_TOK = re.compile(r'\(str "((?:[^"\\]|\\.)*)"\)')


def nonfinite_in(dump):
    bad = []
    for m in FLOAT_TOK.finditer(dump):
        b = int(m.group(1), 16)
        if (b >> 52) & 0x7ff == 0x7ff:
            bad.append(m.group(1))
    return bad


def sig_key(s):
    return f"{s['name']}({','.join(p[0] + ('?' if p[1] else '') for p in s['params'])})"


def run(chk):
    rng = chk.rng
    quick = chk.tier == "quick"
    chk.trusted += [
        "translate/float_sites.py reads the Rust sources faithfully (every textual mention of the constructor `Float` of XValue; "
        "fails closed: an unrecognised construction is tagged `unguarded` and `sites_ok` stops elaborating); Rust's type system "
        "is trusted for 'an XValue::Float can only be built by the enum constructor' (no unsafe transmute is searched for)",
        "closure hypotheses (parameters of floats_finite, FloatDom.Laws): fin x -> fin (-x) for IEEE negation; "
        "serde_json::Number::as_f64 of a parsed JSON number is finite (serde_json rejects out-of-range numbers; feature "
        "arbitrary_precision off) - both sampled by the tie",
        "Lean's Float is opaque to the kernel: no theorem mentions a float value; numeric behaviour of libm / statrs / Rust's "
        "f64 parsing is sampled only (finite-or-error observation over the double range)",
        "Python's float (IEEE binary64) as the independent oracle for + - * / and negation",
    ]
    ok = chk.prove()
    if not ok:
        handle_broken(chk)

    # ---- the generated table as the model sees it
    (table,) = run_model(["fl sites"])
    rows = [r.split("|") for r in table.split(";") if r]
    chk.coverage["generated_sites"] = [f"{r[1]}:{r[2]}:{r[3]}:{'ok' if r[4] == 'true' else 'UNGUARDED'}" for r in rows]
    unguarded = [r for r in rows if r[4] != "true"]

    # ------------------------------------------------------------------ (i) model / implementation / Python on the core
    cases = []   # (op, operands, expr, model line, oracle)
    n_core = 1000 if quick else 20000

    def orc(f):
        try:
            v = f()
        except (ZeroDivisionError, OverflowError):
            return "ERR"
        return f"(float {hex16(v)})" if math.isfinite(v) else "ERR"

    pool = list(FLOAT_EDGE)
    for _ in range(n_core):
        a, b = rand_float(rng), rand_float(rng)
        op = rng.choice(["lit", "neg", "negneg", "add", "sub", "mul", "div", "add", "mul", "div"])
        if op == "lit":
            cases.append((op, (a,), flit(a), f"fl op lit {hex16(a)}", orc(lambda: a)))
            # the same number read from JSON text (the `serde_json` site of the table)
            jtxt = repr(a)
            cases.append(("json", (a,), f"json_deserialize('{jtxt}')", f"fl op json {hex16(a)}", f"(union 0 (float {hex16(a)}))"))
        elif op == "neg":
            cases.append((op, (a,), f"-{flit(a)}", f"fl op neg {hex16(a)}", orc(lambda: -a)))
        elif op == "negneg":
            cases.append((op, (a,), f"-(-{flit(a)})", f"fl op negneg {hex16(a)}", orc(lambda: a)))
        else:
            sym = {"add": "+", "sub": "-", "mul": "*", "div": "/"}[op]
            f = {"add": lambda: a + b, "sub": lambda: a - b, "mul": lambda: a * b, "div": lambda: a / b}[op]
            cases.append((op, (a, b), f"{flit(a)} {sym} {flit(b)}", f"fl op {op} {hex16(a)} {hex16(b)}", orc(f)))
    # literal spellings beyond the double range / at its edge
    spell = ["1e308", "1e309", "1e999", "1.7976931348623157e308", "1.7976931348623159e308", "1.797693134862316e308", "179769313486231570" + "0" * 291 + ".0",
             "1" + "0" * 400 + ".0", "0.0", "5e-324", "2e-324", "1e-999", "123456789012345678901234567890123456789012345.5",
             "1e308 * 10.0", "1e308 + 1e308", "(-1e308) - 1e308", "1e-320 / 1e10", "1.0 / 1e-320", "1e308 / 0.1", "2.0 ** 5000", "2.0 ** 1023", "2.0 ** 1024", "(-2.0) ** 1025",
             "10.0 ** 308", "10.0 ** 309", "0.0 ** (-1.0)", "0.0 ** 0.0", "(-8.0) ** (1.0/3.0)", "1e200 * 1e200", "(-1e200) * 1e200", "0.0 / 0.0", "1.0 / 0.0", "(-1.0) / 0.0",
             "1e308 % 3.0", "5.0 % 0.0", "(10**400).to_float()", "(10**308).to_float()", "(10**309).to_float()", "(-(10**400)).to_float()", "(2**1024).to_float()",
             "(2**1024-1).to_float()", "(2**1024-1) / 1", "(2**1024 - 2**970) / 1", "(2**1024 - 2**970 - 1) / 1", "(-(2**1024-1)) / 1", "(2**1024-1) / (-1)", "(2**1025-1) / 2", "(2**1024-1) / 3", "10**400 / 3", "10**400 / 10**399", "1 / 10**400", "(10**400) / 1.5", "1.5 * 10**400", "1.5 + 10**400", "10**400 - 1.5",
             "2 ** (-1)", "2 ** (-1075)", "2 ** (-2000)", "sqrt(-1.0)", "ln(0.0)", "ln(-1.0)", "log(0.0, 10.0)", "log(10.0, 1.0)", "log(10.0, 0.0)",
             "gamma(172.0)", "gamma(171.0)", "gamma(0.0)", "gamma(-1.0)", "gamma(-170.5)", "gammaln(0.0)", "gammaln(1e308)", "gammaln(-1.0)", "expm1(710.0)", "expm1(709.0)", "e ** 710.0", "e ** 709.0",
             "cosh(711.0)", "tan(1.5707963267948966)", "atanh(1.0)", "atanh(-1.0)", "atanh(1.5)", "acosh(0.5)", "acos(2.0)", "asin(-2.0)",
             "log1p(-1.0)", "log1p(-2.0)", "cbrt(-1e308)", "erf(1e308)", "erfc(-1e308)", "atan(1.0, 0.0)", "atan(0.0, 0.0)", "harmonic_mean(0.0, 0.0)", "harmonic_mean(1e308, 1e308)",
             "harmonic_mean(1.0, -1.0)", "[1e308, 1e308].sum()", "[1e308, 1e308].to_generator().sum()", "[1e200, 1e200].product()", "[1e308, 1e308].mean()", "[1.0].to_generator().mean()",
             "[1e308, -1e308].geo_mean()", "[1.0, 1.0].pearson_correlation([1.0, 1.0])", "sign(-0.0)", "abs(-1e308) * 2.0", "floor(1e308)", "ceil(-1e308)", "trunc(1e308)",
             "complex(1e308) * complex(1e308)", "complex(1e308) + complex(1e308)", "complex(0.0) / complex(0.0)", "complex(1.0) / complex(0.0)", "abs(Complex(1e308, 1e308))", "ln(complex(0.0))",
             "complex(0.0) ** complex(-1.0)", "complex_from_polar(1e308, 1e308)", "Complex(1e308, 1e308) * Complex(1e308, 1e308)", "arg(complex(0.0))", "complex(2.0) ** 5000",
             "seconds(1e308) * 10.0", "seconds(1e308) + seconds(1e308)", "seconds(1.0) / seconds(0.0)", "seconds(1e308) / 1e-10", "days(1e308)", "years(1e308)", "seconds(1e308).years()",
             "datetime(1e308)", "datetime(-1e308)", "datetime(1e308).unix()", "datetime(1e18) + seconds(1e308)",
             "normal_distribution(0.0, 1.0).quantile(1.0)", "normal_distribution(0.0, 1.0).quantile(0.0)", "normal_distribution(0.0, 1e308).variance()", "normal_distribution(1e308, 1e308).pdf(0.0)",
             "normal_distribution(0.0, 1e-320).pdf(0.0)", "normal_distribution(0.0, 0.0)", "exponential_distribution(1e-320).mean()", "exponential_distribution(5e-324).variance()",
             "students_t_distribution(1.0).mean()", "students_t_distribution(1.0).variance()", "students_t_distribution(2.0).variance()", "students_t_distribution(3.0).skewness()",
             "lognormal_distribution(700.0, 100.0).mean()", "lognormal_distribution(0.0, 40.0).variance()", "weibull_distribution(1e-320, 1.0).mean()", "gamma_distribution(1e308, 1e-308).variance()",
             "beta_distribution(1e-320, 1e-320).pdf(0.0)", "beta_distribution(0.5, 0.5).pdf(0.0)", "beta_distribution(0.5, 0.5).pdf(1.0)", 
             "fisher_snedecor_distribution(1.0, 1.0).mean()", "fisher_snedecor_distribution(1.0, 2.0).variance()", "gamma_distribution(0.5, 1.0).pdf(0.0)", "weibull_distribution(0.5, 1.0).pdf(0.0)",
             "rectangular_distribution(0.0, 0.0)", "rectangular_distribution(-1e308, 1e308).variance()", "rectangular_distribution(-1e308, 1e308).mean()", "triangular_distribution(-1e308, 1e308).mean()",
             "standard_uniform_distribution().z_score(1e308)", "normal_distribution(0.0, 1e-320).z_score(1e308)", "normal_distribution(0.0, 1.0).sample(3)",
             "poisson_distribution(1e308).mean()", "poisson_distribution(1e-320).skewness()", "geometric_distribution(1e-320).mean()", "geometric_distribution(1e-320).variance()",
             "binomial_distribution(10**400, 0.5)", "binomial_distribution(2**62, 0.5).variance()", "negative_binomial_distribution(1e308, 1e-320).mean()", "negative_binomial_distribution(1.0, 1e-320).variance()",
             "uniform_distribution(-(2**62), 2**62).variance()", "uniform_distribution(0, 0).skewness()", "hypergeometric_distribution(10, 5, 5).skewness()",
             "custom_distribution([(1, 1e308), (2, 1e308)]).mean()", "custom_distribution([(10**18, 1.0)]).variance()", "custom_distribution([(1, 0.0)]).mean()", "sample_distribution([1]).variance()",
             "[1].sample_variance()", "[1, 1].sample_standard_deviation()", "json_deserialize('1e400')", "json_deserialize('[1e308, -1e999]')", "json_deserialize('1.7976931348623157e308')",
             "json_deserialize('NaN')", "json_deserialize('Infinity')", "json_deserialize('-1e-400')", "json_deserialize('123456789012345678901234567890')", "json_deserialize('{\"a\": [1e309]}')",
             "json(1e308).serialize()", 
             
             "LinearRegression(1e308, 1e308).predict(1e308)", "linear_regression_least_squares([1.0, 1.0].to_generator(), [1.0, 2.0].to_generator())", "linear_regression_least_squares([1e308, -1e308].to_generator(), [1e308, -1e308].to_generator())", "chisq_distribution(1).pdf(0.0)", "chisq_distribution(10**9).skewness()", "[(1.0, 1.0), (1.0, 1.0)].to_generator().covariance()", "[(1e308, 1e308), (-1e308, -1e308)].to_generator().covariance()",
             "[(1.0, 1.0), (1.0, 1.0)].pearson_correlation()", 
             "pi * 1e308", "e ** 1e308", "format(1e308, '.3')", "(1e308).to_str()", "1e308.to_str()"]
    dumps = eval_exprs([c[2] for c in cases])
    mouts = run_model([c[3] for c in cases])
    for (op, operands, expr, mline, want), d, mo in zip(cases, dumps, mouts):
        chk.evaluations += 1
        chk.count("core:" + op)
        got = "ERR" if d.startswith("(error ") else d
        replay = {"src": f"let r = {expr};", "get": ["r"], "expected": want, "got": d}
        if any(abs(x) > 1e300 or (x != 0 and abs(x) < 1e-300) for x in operands):
            chk.nontrivial.add((op,) + tuple(hex16(x) for x in operands))
        if nonfinite_in(d):
            chk.violation(f"nonfinite:core:{op}", f"{expr} evaluates to the non-finite float {d}", replay)
            continue
        if got != want:
            kind = "panic" if d.startswith("panic") else "wrong"
            chk.violation(f"core:{op}:{kind}", f"{expr} evaluates to {d}; IEEE arithmetic with the finiteness check gives {want}", replay)
            continue
        gm = "ERR" if mo == "err" else mo
        if op == "json" and gm.startswith("(float"):
            gm = f"(union 0 {gm})"
        if gm != got:
            chk.violation(f"tie:fl:{op}", f"model disagrees with the implementation (which matches the oracle) on {expr}: model={mo} impl={d}",
                          dict(replay, model=mline, model_out=mo), no_input=True)
    chk.sample({"core": cases[0][2], "expected": cases[0][4]})

    # ------------------------------------------------------------------ (ii) literal spellings and hand-picked edge points
    other_failures = []
    sd = safe_eval(spell, batch=20)
    outcomes = {"finite": 0, "error": 0, "other": 0, "compile-err": 0}
    for expr, d in zip(spell, sd):
        chk.evaluations += 1
        chk.nontrivial.add(("spell", expr))
        replay = {"src": f"let r = {expr};", "get": ["r"], "got": d}
        name = re.sub(r"[^A-Za-z_]+", "_", expr)[:40]
        if nonfinite_in(d):
            chk.violation(f"nonfinite:edge:{name}", f"{expr} evaluates to a non-finite float: {d}", replay)
        elif d.startswith("panic") or d.startswith("abort") or d == "hang":
            # a crash or a non-terminating builtin is not a float at all: recorded, reported under C01 / C10
            other_failures.append({"expr": expr, "outcome": d[:200]})
            chk.count("other-failure:" + d.split()[0])
        if d.startswith("compile-err"):
            outcomes["compile-err"] += 1
            chk.count("edge:compile-err:" + expr[:50])
        elif d.startswith("(error"):
            outcomes["error"] += 1
        elif FLOAT_TOK.search(d):
            outcomes["finite"] += 1
        else:
            outcomes["other"] += 1
    chk.coverage["edge_points"] = outcomes

    # ------------------------------------------------------------------ (iii) every documented function taking/returning floats
    sigs = read_signatures()
    eg = ExprGen(sigs, rng)
    targets = [s for s in sigs if mentions_float(s["ret"]) or any(mentions_float(p[0]) for p in s["params"])]
    targets = [s for s in targets if not s["generic"]]
    # effectful ones are C11's business and would make the run depend on the clock / sleep
    targets = [s for s in targets if s["name"] not in ("sleep", "now", "debug", "display", "sample", "random", "random_choices", "shuffle")]
    usable, unusable = [], []
    probe = []
    for s in targets:
        e = None
        for _ in range(6):
            e = eg.call(s)
            if e is not None:
                break
        if e is None:
            unusable.append(sig_key(s) + " (no generator for a parameter type)")
        else:
            probe.append((s, e))
    pd = safe_eval([e for _, e in probe], batch=1, batch_timeout=4.0)
    for (s, e), d in zip(probe, pd):
        if d.startswith("compile-err"):
            # try once more with other arguments (an overload may not exist for that argument shape)
            unusable.append(sig_key(s) + " (" + d[:60] + ")")
        else:
            usable.append(s)
    per = 20 if quick else 300
    fcases = []
    for s in usable:
        for _ in range(per):
            e = eg.call(s)
            if e is not None:
                fcases.append((s, e))
    # `per` is a multiple of the batch size, so a batch holds calls of one function only: a call that does not
    # compile or panics makes only that function's batch fall back to one process per expression
    fd = safe_eval([e for _, e in fcases], batch=20 if quick else 40)
    stats = {}
    for (s, e), d in zip(fcases, fd):
        chk.evaluations += 1
        k = sig_key(s)
        st = stats.setdefault(k, {"finite": 0, "error": 0, "other": 0, "compile-err": 0, "fail": 0})
        replay = {"src": f"let r = {e};", "get": ["r"], "got": d}
        if nonfinite_in(d):
            chk.violation(f"nonfinite:{k}", f"{e} evaluates to a non-finite float: {d[:300]}", replay)
            st["fail"] += 1
        elif d.startswith("panic") or d.startswith("abort") or d == "hang":
            if len(other_failures) < 60:
                other_failures.append({"expr": e, "outcome": d[:200]})
            chk.count("other-failure:" + d.split()[0])
            st["fail"] += 1
        elif s["name"] == "to_str" and [p[0] for p in s["params"]] == ["float"] and any(re.fullmatch(r"-?(inf|nan|infinity)", x, re.I) for x in STR_TOK.findall(d)):
            chk.violation(f"nonfinite:text:{k}", f"{e} renders a non-finite float: {d[:200]}", replay)
            st["fail"] += 1
        elif d.startswith("compile-err"):
            st["compile-err"] += 1
        elif d.startswith("(error"):
            st["error"] += 1
        elif FLOAT_TOK.search(d):
            st["finite"] += 1
            chk.nontrivial.add((k, e))
        else:
            st["other"] += 1
    chk.coverage["other_failures_not_decided_here"] = other_failures
    chk.coverage["functions_covered"] = len(usable)
    chk.coverage["functions_not_covered"] = sorted(set(unusable))
    chk.coverage["per_function"] = {k: v for k, v in sorted(stats.items())}
    never_finite = sorted(k for k, v in stats.items() if v["finite"] == 0 and v["other"] == 0)
    chk.coverage["functions_never_returning_a_value"] = never_finite
    for s, e in fcases[:3]:
        chk.sample({"fn": e})

    if unguarded:
        for r in unguarded:
            chk.violation(f"table:unguarded:{r[1]}:{r[3]}", f"the translator finds a construction of XValue::Float outside the checked constructor and the "
                          f"recognised closed forms at {r[1]}:{r[2]} (fn {r[3]})", {"site": r, "table": table}, no_input=not chk.violations)

    return chk.finish(rule="(function or operator, argument tuple) pairs; non-trivial = distinct pairs that produced a float value "
                           "(library functions), distinct operand tuples with an operand beyond 1e±300 (core operators), each edge expression")


def replay(path):
    """./check C13 --replay FILE: re-evaluate the recorded expression on the current tree"""
    d = json.load(open(path))
    r = d["replay"]
    if "src" not in r:
        print(f"replay {d.get('key')}: nothing executable recorded ({d.get('what', '')[:200]})")
        return 1
    out = run_harness([{"op": "run", "src": r["src"], "get": r.get("get", ["r"])}])[0]
    f = _resp_fail(out)
    dump = f if f is not None else out["vals"][r.get("get", ["r"])[0]]
    ok = not nonfinite_in(dump) and f is None
    if ok and "expected" in r:
        ok = ("ERR" if dump.startswith("(error ") else dump) == r["expected"]
    print(f"replay {d.get('key')}: {r['src']}  ->  {dump[:300]}" + (f"   (expected {r['expected']})" if "expected" in r else ""))
    if ok:
        print("OK property=C13 replay passes on the current tree")
        return 0
    print(f"VIOLATION property=C13 replay={path}")
    return 1
