"""Library-wide metamorphic probes shared by C06 and C08 (implementation vs the property itself; no model).

They extend the ties of the core-language checks to the whole standard-library surface, using the signature
listing hook and the typed value pool built for C01 (checklib/c01.py):

* error_propagation: for every exported function and every argument position i, a call whose i-th argument is an
  error value (and whose earlier arguments are error-free) must yield exactly that error — the leftmost one —
  unless the function is a documented handler / short-circuits that position (book: std/errors.md, bool.md,
  optional.md, general.md, mapping.md).
* limit_transparency: for calls that run user callbacks (lambdas) inside library functions, the outcome under any
  call / depth / search limit L is either the violation of that limit or exactly the unlimited outcome (no third
  possibility: a swallowed violation, an error value instead of a violation, a changed value), and once a limit
  value passes every larger one passes too.
"""
import json, re
from .common import run_harness

HANDLERS = {"is_error", "if_error", "get_error"}            # inspect an error in their first argument
# documented short-circuit functions: only the always-evaluated first argument is probed
SHORT = {"if", "and", "or", "then", "map", "map_or", "or_unwrap", "unwrap_or", "value_or", "get", "set_default"}
NONDET = re.compile(r"random|sample|shuffle|choice|now|sleep")
BASE_LIMITS = {"search": 20000, "time_ms": 15000, "depth": 300, "allow": ["regex"], "forbid": ["sleep"]}


def lib_calls(rng, per_overload, want_lambda=False, full_arity=False):
    """[(name, signature text, [argument expressions], [argument types])] over the whole exported library surface"""
    from . import c01 as L
    sigs = L.library_signatures()
    pool = L.Pool(rng, L.build_producers(sigs))
    out = []
    for name in sorted(sigs):
        if name.startswith("__") or NONDET.search(name):
            continue
        for s in sigs[name]:
            if s.startswith("dyn:"):
                continue
            try:
                gs, ps, ret = L.parse_sig(s)
            except ValueError:
                continue
            if want_lambda and not any((not isinstance(t, str)) and t[0] == 'F' for t, _ in ps):
                continue
            made = 0
            for _ in range(per_overload * 4):
                if made >= per_overload:
                    break
                b = {g: rng.choice(L.INST_TYPES) for g in gs}
                nopt = sum(1 for _, r in ps if not r)
                k = len(ps) if (full_arity and _ % 2 == 0) else len(ps) - nopt + rng.randint(0, nopt)   # optional positions too
                tys = [L.subst(t, b) for t, _ in ps[:k]]
                args = [pool._pick(t, 0, True, False) for t in tys]
                if k == 0 or any(a is None for a in args):
                    continue
                made += 1
                out.append((name, s, args, tys, L.subst(ret, b)))
    return out


def _parse(s, i=0):
    """tiny S-expression reader for canonical dumps: returns (tree, next index)"""
    while i < len(s) and s[i] == ' ':
        i += 1
    if i < len(s) and s[i] == '(':
        items = []
        i += 1
        while i < len(s) and s[i] != ')':
            if s[i] == ' ':
                i += 1
                continue
            t, i = _parse(s, i)
            items.append(t)
        return items, i + 1
    if i < len(s) and s[i] == '"':
        j = i + 1
        while j < len(s) and s[j] != '"':
            j += 2 if s[j] == '\\' else 1
        return s[i:j + 1], j + 1
    j = i
    while j < len(s) and s[j] not in ' ()':
        j += 1
    return s[i:j], j


def _canon(t):
    if isinstance(t, list):
        items = [_canon(x) for x in t]
        if items and items[0] == 'seq':
            return ['seq'] + sorted(items[1:], key=json.dumps)   # iteration order of hash-based collections is not fixed
        return items
    return t


def order_free(dump):
    """dump with the elements of every sequence sorted: collections iterate in an unspecified order (HashMap), and the
    limit probe is about *which* outcome is reached, not about element order (C15-C17 check order)"""
    try:
        return json.dumps(_canon(_parse(dump)[0]))
    except Exception:
        return dump


def _run_cases(progs, limits, per_req_timeout=20.0):
    """progs: [(src, names)] -> list of dict(outcome, vals)"""
    reqs = [{"op": "run", "src": src, "get": names, "limits": limits} for src, names in progs]
    res = []
    for r in run_harness(reqs, per_req_timeout=per_req_timeout):
        if "panic" in r:
            res.append({"outcome": "panic", "detail": r["panic"]})
        elif "abort" in r or "hang" in r:
            res.append({"outcome": "abort" if "abort" in r else "hang"})
        elif r.get("compile") != "ok":
            c = r.get("compile")
            res.append({"outcome": "compile", "detail": c.get("class") if isinstance(c, dict) else str(c)})
        elif r.get("inst") != "ok":
            res.append({"outcome": "viol", "detail": r["inst"]["viol"]})
        else:
            res.append({"outcome": "ok", "vals": r["vals"]})
    return res


def error_propagation(chk, rng, per_overload, prefix="c06"):
    calls = lib_calls(rng, per_overload, full_arity=True)
    progs, meta = [], []
    n = 0
    for name, sig, args, tys, ret in calls:
        if name in HANDLERS:
            continue
        positions = [0] if name in SHORT else list(range(len(args)))
        for i in positions:
            two = len(args) >= 2 and i + 1 < len(args) and name not in SHORT and rng.random() < 0.4
            n += 1
            lines, names = [], []
            call_args = []
            for j, a in enumerate(args):
                if j == i:
                    lines.append(f'let x{n} = error("E{n}");')
                    call_args.append(f"x{n}")
                elif two and j == i + 1:
                    lines.append(f'let y{n} = error("F{n}");')
                    call_args.append(f"y{n}")
                else:
                    lines.append(f"let a{n}_{j} = {a};")
                    names.append(f"a{n}_{j}")
                    call_args.append(f"a{n}_{j}")
            lines.append(f"let r{n} = {name}({', '.join(call_args)});")
            names.append(f"r{n}")
            progs.append(("\n".join(lines) + "\n", names))
            meta.append((name, sig, i, n, len(args)))
    res = _run_cases(progs, BASE_LIMITS)
    skipped = {}
    for (name, sig, i, n, k), (src, names), r in zip(meta, progs, res):
        chk.evaluations += 1
        chk.count(f"{prefix}:lib-propagate")
        if r["outcome"] != "ok":
            skipped[r["outcome"]] = skipped.get(r["outcome"], 0) + 1
            continue
        vals = r["vals"]
        expected = f'(error "E{n}")'
        for j in range(i):
            d = vals.get(f"a{n}_{j}", "")
            if d.startswith("(error "):
                expected = d
                break
        got = vals.get(f"r{n}")
        chk.nontrivial.add(f"{name}/{k}@{i}")
        if got != expected:
            kind = "dropped" if not str(got).startswith("(error ") else "not-leftmost"
            chk.violation(f"{prefix}:lib-propagate:{name}:{kind}",
                          f"library function `{name}` ({sig}) called with an error value as argument {i}: result {got}; the leftmost error {expected} must be the result "
                          f"(the function is not a documented handler / short-circuit for that position)",
                          {"src": src, "get": names, "limits": BASE_LIMITS, "expected": {f"r{n}": expected}, "got": {f"r{n}": got}})
    chk.coverage[f"{prefix}_lib_propagate_skipped"] = skipped
    if progs:
        chk.sample({"lib-propagate": progs[0][0]})
    dyn_error_propagation(chk, rng, per_overload, prefix)


def dyn_error_propagation(chk, rng, per_overload, prefix="c06"):
    """the same probe for the overloads whose signature is computed from the call (`dyn fn`: partial, zip, sort,
    eq/hash/to_str/cmp of containers, …).  Their factories look at the static argument types, so the error argument
    is a *typed* error: `[v][7]` (index out of bounds) where `v` is a good argument of that type; the error value
    itself is bound and dumped, and the call's result must be exactly that dump."""
    from . import c01 as L
    sigs = L.library_signatures()
    pool = L.Pool(rng, L.build_producers(sigs))
    progs, meta = [], []
    n = 0
    for name in sorted(L.DYN_CALLS):
        if name not in sigs or name in HANDLERS or NONDET.search(name):
            continue
        for tys in L.DYN_CALLS[name]:
            for _ in range(max(1, per_overload)):
                args = [pool._pick(t, 0, True, False) for t in tys]
                if not args or any(a is None for a in args):
                    continue
                for i in ([0] if name in SHORT else range(len(args))):
                    n += 1
                    lines, names, call_args = [], [], []
                    for j, a in enumerate(args):
                        lines.append(f"let g{n}_{j} = {a};")
                        if j == i:
                            lines.append(f"let x{n} = [g{n}_{j}][7];")
                            call_args.append(f"x{n}")
                            names.append(f"x{n}")
                        else:
                            call_args.append(f"g{n}_{j}")
                            names.append(f"g{n}_{j}")
                    lines.append(f"let r{n} = {name}({', '.join(call_args)});")
                    names.append(f"r{n}")
                    progs.append(("\n".join(lines) + "\n", names))
                    meta.append((name, ", ".join(L.ts(t) for t in tys), i, n, len(args)))
    res = _run_cases(progs, BASE_LIMITS)
    skipped = {}
    for (name, sig, i, n, k), (src, names), r in zip(meta, progs, res):
        chk.evaluations += 1
        chk.count(f"{prefix}:lib-propagate-dyn")
        if r["outcome"] != "ok":
            key = r["outcome"] + ":" + str(r.get("detail"))[:40]
            skipped[key] = skipped.get(key, 0) + 1
            continue
        vals = r["vals"]
        expected = vals.get(f"x{n}", "")
        if not expected.startswith("(error "):
            skipped["probe-not-an-error"] = skipped.get("probe-not-an-error", 0) + 1
            continue
        for j in range(i):
            d = vals.get(f"g{n}_{j}", "")
            if d.startswith("(error "):
                expected = d
                break
        got = vals.get(f"r{n}")
        chk.nontrivial.add(f"dyn {name}/{k}@{i}")
        if got != expected:
            kind = "dropped" if not str(got).startswith("(error ") else "not-leftmost"
            chk.violation(f"{prefix}:lib-propagate:{name}:{kind}",
                          f"dynamic library function `{name}` (argument types {sig}) called with an error value as argument {i}: result {got}; the leftmost error {expected} must be the result "
                          f"(the function is not a documented handler / short-circuit for that position)",
                          {"src": src, "get": names, "limits": BASE_LIMITS, "expected": {f"r{n}": expected}, "got": {f"r{n}": got}})
    chk.coverage[f"{prefix}_lib_propagate_dyn_skipped"] = skipped
    if progs:
        chk.sample({"lib-propagate-dyn": progs[0][0]})


def limit_transparency(chk, rng, per_overload, prefix="c08", sweeps=None):
    from . import c01 as L
    calls = lib_calls(rng, per_overload, want_lambda=False)
    sweeps = sweeps or {"ud_calls": [1, 2, 3, 4, 6, 9, 14, 30, 100], "depth": [1, 2, 3, 5], "search": [1, 2, 3, 5, 9, 20, 100]}
    cases = []
    lazy = lambda t: (not isinstance(t, str)) and t[0] == 'N' and t[1] in ('Generator', 'Sequence')
    for name, sig, args, tys, ret in calls:
        has_cb = any('->' in a for a in args)
        if not has_cb and not (any(lazy(t) for t in tys) or lazy(ret)):
            continue
        call = f"{name}({', '.join(args)})"
        lines = [f"let r = {call};"]
        names = ["r"]
        f = L.force_expr("r", ret)
        if f:
            # hash-based collections iterate in an unspecified order: never cut them (take(4) would pick different entries)
            f = "r.len()" if (not isinstance(ret, str) and ret[0] == 'N' and ret[1] in ('Mapping', 'Set')) else f.replace(".take(4)", ".take(40)")
            lines.append(f"let s = {f};")
            names.append("s")
        lines.append(f"let h = is_error({call});")
        names.append("h")
        cases.append((name, sig, "\n".join(lines) + "\n", names))
    base = _run_cases([(src, names) for _, _, src, names in cases], BASE_LIMITS)
    base2 = _run_cases([(src, names) for _, _, src, names in cases], BASE_LIMITS)
    todo = []
    for (name, sig, src, names), b, b2 in zip(cases, base, base2):
        chk.evaluations += 1
        if b["outcome"] != "ok" or b2["outcome"] != "ok" or {k: order_free(v) for k, v in b["vals"].items()} != {k: order_free(v) for k, v in b2["vals"].items()}:
            chk.count(f"{prefix}:lib-limits:baseline-{b['outcome']}{'' if b == b2 else '-unstable'}")
            continue
        for lim, values in sweeps.items():
            if lim in ("ud_calls", "depth") and '->' not in src:
                continue      # no user callback anywhere: only the search limit can matter
            for v in values:
                todo.append((name, sig, src, names, lim, v, b))
    limits_of = lambda lim, v: dict(BASE_LIMITS, **{lim: v})
    # group by limits to keep requests simple
    reqs = [{"op": "run", "src": src, "get": names, "limits": limits_of(lim, v)} for (_, _, src, names, lim, v, _) in todo]
    viol_name = {"ud_calls": "MaximumUDCall", "depth": "MaximumStackDepth", "search": "MaximumSearch"}
    passed_at = {}
    results = run_harness(reqs, per_req_timeout=20.0)
    for (name, sig, src, names, lim, v, b), r in zip(todo, results):
        chk.evaluations += 1
        chk.count(f"{prefix}:lib-limits:{lim}")
        key = (src, lim)
        if "panic" in r or "abort" in r or "hang" in r:
            chk.count(f"{prefix}:lib-limits:crash-skipped")
            continue
        replay = {"src": src, "get": names, "limits": limits_of(lim, v), "expected": {"either": ["viol " + viol_name[lim], b["vals"]]}}
        if r.get("compile") != "ok":
            continue
        if r.get("inst") != "ok":
            kind = r["inst"]["viol"]
            if kind == "Timeout":
                chk.count(f"{prefix}:lib-limits:timeout-skipped")
                continue
            chk.nontrivial.add(f"{name}:{lim}")
            if kind != viol_name[lim]:
                chk.violation(f"{prefix}:lib-limits:{name}:{lim}:other-violation",
                              f"`{name}` ({sig}) under {lim}={v}: violation {kind}, but only {viol_name[lim]} can be caused by this limit (the unlimited run succeeds)", replay)
            if key in passed_at and passed_at[key] < v:
                chk.violation(f"{prefix}:lib-limits:{name}:{lim}:not-monotone",
                              f"`{name}` ({sig}) passes under {lim}={passed_at[key]} but violates under the larger {lim}={v}", replay)
            continue
        got = r["vals"]
        if {k: order_free(v) for k, v in got.items()} != {k: order_free(v) for k, v in b["vals"].items()}:
            chk.violation(f"{prefix}:lib-limits:{name}:{lim}:changed-result",
                          f"`{name}` ({sig}) under {lim}={v} ends neither in {viol_name[lim]} nor in the unlimited outcome: got {json.dumps(got)[:300]}, unlimited {json.dumps(b['vals'])[:300]} "
                          f"(a violation was swallowed or turned into a value)", dict(replay, got=got))
        else:
            passed_at.setdefault(key, v)
    if cases:
        chk.sample({"lib-limits": cases[0][2], "limits_swept": sweeps})


# ------------------------------------------------------------------------------------------------ generator / sequence pipelines

SOURCES = ["count().to_generator()", "range(40).to_generator()", "[3, 1, 4, 1, 5, 9, 2, 6, 5, 3].to_generator()",
           "successors(0, (x: int)->{x + 2})", "count().to_generator().filter((x: int)->{x % 7 == 3})",
           "range(3, 60, 3).to_generator().map((x: int)->{x - 1})"]
HEAVY = [".filter((x: int)->{range(x * 30 + 5).to_array().len() >= 0})", ".map((x: int)->{range(x * 30 + 5).to_array().len()})",
         ".filter((x: int)->{(3 ** (x * 40)) % 7 != 0})", ".take_while((x: int)->{range(x * 25 + 3).to_array().len() < 5000})"]
ADAPTORS = [".map((x: int)->{x + 1})", ".filter((x: int)->{x % 3 != 0})", ".skip(K)", ".take(KK)", ".take_while((x: int)->{x < 90})",
            ".skip_until((x: int)->{x > K})", ".add([7, 8].to_generator())", ".zip(count().to_generator()).map((t: (int, int))->{t::item0 + t::item1})",
            ".aggregate(0, (a: int, b: int)->{a + b})", ".windows(2).map((w: Sequence<int>)->{w[0] + w[1]})", ".distinct()",
            ".with_count().map((t: (int, int))->{t::item0})", ".enumerate().map((t: (int, int))->{t::item0 * 100 + t::item1})",
            ".chunks(2).map((c: Sequence<int>)->{c[0]})"]
CONSUMERS = [".take(6).to_array()", ".get(K)", ".nth(1, (x: int)->{x % 2 == 0})", ".take(8).len()", ".take(5).last()",
             ".take(6).reduce(0, (a: int, b: int)->{a + b})", ".take(5).sum()", ".take(4).join(\",\")".replace(".join", ".map((x: int)->{x.to_str()}).join")]


def pipeline_transparency(chk, rng, n, prefix="c06", only_size=False):
    """Pipelines source.adaptor{1..3}.consumer over generators with user callbacks: under every call / search limit the outcome is
    that limit's violation or exactly the unlimited outcome — an adaptor or consumer that swallows a violation raised while it
    pulls (and skips, filters, buffers …) elements produces a third outcome."""
    cases = []
    for _ in range(0 if only_size else n):
        e = rng.choice(SOURCES)
        for _ in range(rng.choice([1, 2, 2, 3])):
            e += rng.choice(ADAPTORS).replace("KK", str(rng.choice([3, 6, 12]))).replace("K", str(rng.choice([1, 2, 5, 7])))
        e += rng.choice(CONSUMERS).replace("K", str(rng.choice([0, 2, 5])))
        cases.append(f"let r = {e};\nlet h = is_error({e});\n")
    base = _run_cases([(src, ["r", "h"]) for src in cases], BASE_LIMITS)
    todo = []
    for src, b in zip(cases, base):
        chk.evaluations += 1
        if b["outcome"] != "ok":
            chk.count(f"{prefix}:pipeline:baseline-{b['outcome']}")
            continue
        for lim, values in (("search", [1, 2, 3, 4, 6, 8, 11, 15, 20, 30, 50]), ("ud_calls", [1, 2, 3, 5, 8, 12, 20, 40])):
            for v in values:
                todo.append((src, lim, v, b))
    viol_name = {"ud_calls": "MaximumUDCall", "search": "MaximumSearch"}
    reqs = [{"op": "run", "src": src, "get": ["r", "h"], "limits": dict(BASE_LIMITS, **{lim: v})} for (src, lim, v, _) in todo]
    passed_at = {}
    for (src, lim, v, b), r in zip(todo, run_harness(reqs, per_req_timeout=20.0)):
        chk.evaluations += 1
        chk.count(f"{prefix}:pipeline:{lim}")
        if "panic" in r or "abort" in r or "hang" in r or r.get("compile") != "ok":
            chk.count(f"{prefix}:pipeline:crash-skipped")
            continue
        ops = "".join(re.findall(r"\.([a-z_]+)\(", src.split("\n")[0]))
        key_ops = ".".join(sorted(set(re.findall(r"\.([a-z_]+)\(", src.split("\n")[0]))))
        replay = {"src": src, "get": ["r", "h"], "limits": dict(BASE_LIMITS, **{lim: v}), "expected": {"either": ["viol " + viol_name[lim], b["vals"]]}}
        chk.nontrivial.add(src + lim)
        if r.get("inst") != "ok":
            if r["inst"]["viol"] == "Timeout":
                chk.count(f"{prefix}:pipeline:timeout-skipped")
                continue
            if r["inst"]["viol"] != viol_name[lim]:
                chk.violation(f"{prefix}:pipeline:{lim}:other-violation:{key_ops}", f"pipeline under {lim}={v}: violation {r['inst']['viol']}: {src.splitlines()[0]}", replay)
            if (src, lim) in passed_at and passed_at[(src, lim)] < v:
                chk.violation(f"{prefix}:pipeline:{lim}:not-monotone:{key_ops}", f"pipeline passes under {lim}={passed_at[(src, lim)]} but violates under {lim}={v}: {src.splitlines()[0]}", replay)
            continue
        if {k: order_free(x) for k, x in r["vals"].items()} != {k: order_free(x) for k, x in b["vals"].items()}:
            chk.violation(f"{prefix}:pipeline:{lim}:changed-result:{key_ops}",
                          f"pipeline under {lim}={v} ends neither in {viol_name[lim]} nor in the unlimited outcome (a violation raised while elements were pulled was swallowed or turned "
                          f"into a value): {src.splitlines()[0]} gives {json.dumps(r['vals'])[:200]}, unlimited {json.dumps(b['vals'])[:200]}", dict(replay, got=r["vals"]))
        else:
            passed_at.setdefault((src, lim), v)
    if cases:
        chk.sample({"pipeline": cases[0]})
    # ---- size limit: predicates / mappers with element-dependent transient allocations; an AllocationLimitReached raised inside
    #      them must end the run (never "element filtered out"), and a passing run's values do not depend on L
    big = 10 ** 12
    scases = []
    for _ in range(max(6, n // 6)):
        e = rng.choice(["range(1, 14).to_generator()", "[3, 1, 4, 1, 5, 9, 2, 6, 5, 3].to_generator()", "range(2, 20, 2).to_generator()"])
        k = rng.choice([1, 2])
        parts = [rng.choice(HEAVY)] + [rng.choice(ADAPTORS[:6]).replace("KK", "6").replace("K", "1") for _ in range(k - 1)]
        rng.shuffle(parts)
        e += "".join(parts) + rng.choice([".to_array()", ".to_array().len()", ".take(9).to_array()"])
        scases.append(f"let r = {e};\n")
    # lazy SEQUENCE pipelines (range / map / zip / chain / slice / reverse), optionally with a poisoned element, materialised:
    # a materialisation that "does not fit" must be the violation, never the lazy value handed on
    for _ in range(max(6, n // 6)):
        e = rng.choice(["range(300)", "range(150).map((x: int)->{x * 3})", "zip(range(200), range(200)).map((t: (int, int))->{t::item0 + t::item1})",
                        "(range(100) + range(100, 220))", "range(400).skip(50).take(250)", "range(260).reverse()", "range(120).map((x: int)->{[x, x]})"])
        if rng.random() < 0.6 and "[x, x]" not in e:
            e += ".map((x: int)->{if(x == K, error(\"p\"), x)})".replace("K", str(rng.choice([3, 120, 200])))
        if rng.random() < 0.4:
            e += rng.choice([".skip(2)", ".take(90)", ".reverse()"])
        e += rng.choice([".to_array()", ".to_array().len()", ".to_array().reverse().to_array()", ".to_array().take(3)"])
        scases.append(f"let r = {e};\n")
    lim0 = dict(BASE_LIMITS, size=big)
    empty = run_harness([{"op": "run", "src": "let r = 0;\n", "get": ["r"], "limits": lim0}])[0]
    base_sz = empty.get("size1", 0)
    sb = run_harness([{"op": "run", "src": src, "get": ["r"], "limits": lim0} for src in scases], per_req_timeout=30.0)
    todo = []
    for src, b in zip(scases, sb):
        chk.evaluations += 1
        if b.get("compile") != "ok" or b.get("inst") != "ok" or "vals" not in b:
            chk.count(f"{prefix}:pipeline:size-baseline-skipped")
            continue
        hi = b.get("size1", base_sz) + 60000
        step = max(64, (hi - base_sz) // (40 if n < 400 else 160))
        for L in range(base_sz + 16, hi, step):
            todo.append((src, L, b["vals"]))
    reqs = [{"op": "run", "src": src, "get": ["r"], "limits": dict(BASE_LIMITS, size=L)} for (src, L, _) in todo]
    passed_at = {}
    for (src, L, bv), r in zip(todo, run_harness(reqs, per_req_timeout=30.0)):
        chk.evaluations += 1
        chk.count(f"{prefix}:pipeline:size")
        if "panic" in r or "abort" in r or "hang" in r or r.get("compile") != "ok":
            chk.count(f"{prefix}:pipeline:crash-skipped")
            continue
        key_ops = ".".join(sorted(set(re.findall(r"\.([a-z_]+)\(", src))))
        replay = {"src": src, "get": ["r"], "limits": dict(BASE_LIMITS, size=L), "expected": {"either": ["viol AllocationLimitReached", bv]}}
        if r.get("inst") != "ok":
            if r["inst"]["viol"] == "Timeout":          # the wall-clock limit of BASE_LIMITS on a busy machine: no verdict
                chk.count(f"{prefix}:pipeline:timeout-skipped")
                continue
            if r["inst"]["viol"] != "AllocationLimitReached":
                chk.violation(f"{prefix}:pipeline:size:other-violation:{key_ops}", f"pipeline under size={L}: violation {r['inst']['viol']}: {src.strip()}", replay)
            if src in passed_at and passed_at[src] < L:
                chk.violation(f"{prefix}:pipeline:size:not-monotone:{key_ops}", f"pipeline passes under size={passed_at[src]} but violates under the larger size={L}: {src.strip()}", replay)
            continue
        if r["vals"] != bv:
            chk.violation(f"{prefix}:pipeline:size:changed-result:{key_ops}",
                          f"pipeline under size={L} ends neither in AllocationLimitReached nor in the unlimited outcome (an allocation violation raised inside a callback was swallowed): "
                          f"{src.strip()} gives {json.dumps(r['vals'])[:200]}, unlimited {json.dumps(bv)[:200]}", dict(replay, got=r["vals"]))
        else:
            passed_at.setdefault(src, L)
